import sys, shutil, subprocess
sys.path.insert(0,'/verif')
from sa.selftest.refactors import make_tree, TRANSFORMS
for name, tf in TRANSFORMS.items():
    tmp = make_tree('/repo', tf)
    try:
        for c in ["C%02d"%i for i in range(1,21)]:
            p=subprocess.run(['/venv/bin/python','-m','sa.run','check',c,'--root',tmp,'--no-write'],cwd='/verif',capture_output=True,text=True)
            first=[l for l in p.stdout.splitlines() if l.startswith('  ') or l.startswith('ANALYSIS')]
            print(name, c, 'exit', p.returncode, (first[0][:230] if first and p.returncode else ''))
    finally:
        shutil.rmtree(tmp)
