#!/bin/bash
# usage: tools/try_refactors.sh <seed dir> P1 P2 ...   - run all 20 checks against every refactor patch; any output line with "exit" is noise
d=$1; shift
for p in "$@"; do for k in 1 2 3; do [ -f $d/$p/patch$k.diff ] || continue; echo "== $p-$k"; /venv/bin/python /verif/tools/try_seed.py $d/$p/patch$k.diff 2>&1 | cut -c1-230 | head -12; done; done
