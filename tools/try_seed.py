#!/usr/bin/env python3
"""Apply a seeded patch to /repo, run the checks, undo it.  usage: try_seed.py <patch> [props...] (default: all)"""
import subprocess
import sys

patch = sys.argv[1]
props = sys.argv[2:] or ["C%02d" % i for i in range(1, 21)]
st = subprocess.run(["git", "-C", "/repo", "status", "--porcelain"], capture_output=True, text=True).stdout.strip()
assert not st, "repo not clean: " + st
subprocess.check_call(["git", "-C", "/repo", "apply", patch])
try:
    for p in props:
        r = subprocess.run(["/venv/bin/python", "-m", "sa.run", "check", p, "--no-write"], cwd="/verif", capture_output=True, text=True)
        lines = [l for l in r.stdout.splitlines() if l.startswith("  ") or l.startswith("ANALYSIS")]
        if r.returncode != 0:
            print(p, "exit", r.returncode)
            for l in lines[:3]:
                print("   ", l.strip()[:260])
finally:
    subprocess.check_call(["git", "-C", "/repo", "checkout", "--", "."])
