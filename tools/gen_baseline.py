#!/venv/bin/python
"""Write sa/baseline_functions.json: the functions of /repo the rules were written against.  A function that appears later
(a helper extracted by a refactoring) is inlined transparently by the evaluator (sa/terms.py, Program.is_new_helper).
Run only when a rule is deliberately anchored in a newly added function."""
import json
import os
import sys

sys.path.insert(0, os.path.join(os.path.dirname(os.path.abspath(__file__)), ".."))
from sa.model import Program  # noqa: E402

root = sys.argv[1] if len(sys.argv) > 1 else "/repo"
out = os.path.join(os.path.dirname(os.path.abspath(__file__)), "..", "sa", "baseline_functions.json")
if os.path.exists(out):
    os.remove(out)
prog = Program(root)
fns = sorted(prog.functions)
with open(out, "w") as f:
    json.dump({"comment": "functions present in fairlearn when the rules were written; later functions are transparent helpers",
               "functions": fns}, f, indent=0)
print(len(fns), "functions")
