#!/usr/bin/env python3
"""Confirm a seeded change in a scratch worktree and file it under /verif/seeded/<id>/.

usage: confirm_seed.py <PID> <K> <testdir> [<testdir> ...]
Reads $SEED_SRC (default /tmp/seed_out)/<PID>/patch<K>.diff, demo<K>.py, meta.json; files the seed as <PID>-<K + $SEED_OFFSET>.
"""
import json
import os
import shutil
import subprocess
import sys
import time

pid, k = sys.argv[1], sys.argv[2]
tests = sys.argv[3:]
src = os.environ.get("SEED_SRC", "/tmp/seed_out") + f"/{pid}"
patch, demo = f"{src}/patch{k}.diff", f"{src}/demo{k}.py"
wt = f"/tmp/cs_{pid}_{k}"
out = f"/verif/seeded/{pid}-{int(k) + int(os.environ.get('SEED_OFFSET', '0'))}"
PY = "/venv/bin/python"


def run(cmd, cwd, timeout=3600):
    t = time.time()
    env = dict(os.environ)
    for v in ("OMP_NUM_THREADS", "OPENBLAS_NUM_THREADS", "MKL_NUM_THREADS"):
        env[v] = "1"  # many confirmations run side by side: no thread oversubscription
    env["PYTHONPATH"] = cwd  # demos must import the package of the worktree, not the editable install of /repo
    r = subprocess.run(cmd, cwd=cwd, capture_output=True, text=True, timeout=timeout, env=env)
    return r.returncode, (r.stdout + r.stderr)[-1500:], round(time.time() - t, 1)


subprocess.run(["git", "-C", "/repo", "worktree", "remove", "--force", wt], capture_output=True)
subprocess.check_call(["git", "-C", "/repo", "worktree", "add", "-q", wt, "HEAD"])
res = {"property": pid, "patch": "patch.diff", "demo": "demo.py"}
try:
    head = subprocess.run(["git", "-C", wt, "rev-parse", "--short", "HEAD"], capture_output=True, text=True).stdout.strip()
    res["repo_head"] = head
    c0, o0, t0 = run([PY, demo], wt)
    res["demo_clean"] = {"exit": c0, "wall_s": t0}

    def passed_tests(tag):
        import xml.etree.ElementTree as ET
        out_ = {}
        for t in tests:
            jf = f"/tmp/cs_{pid}_{k}_{tag}.xml"
            c, o, tt = run([PY, "-m", "pytest", "-q", "-p", "no:cacheprovider", "--timeout=900", "--continue-on-collection-errors", f"--junitxml={jf}", t], wt, timeout=7200)
            ok_ = set()
            try:
                for tc in ET.parse(jf).iter("testcase"):
                    if not any(ch.tag in ("failure", "error", "skipped") for ch in tc):
                        ok_.add(tc.get("classname") + "::" + tc.get("name"))
            except Exception:
                pass
            last = [l for l in o.splitlines() if " passed" in l or " failed" in l][-1:] or [o[-200:]]
            out_[t] = (ok_, last[0][:200], tt)
            try:
                os.remove(jf)
            except OSError:
                pass
        return out_

    clean_pass = passed_tests("clean")
    subprocess.check_call(["git", "-C", wt, "apply", patch])
    c1, o1, t1 = run([PY, demo], wt)
    res["demo_patched"] = {"exit": c1, "tail": o1[-400:], "wall_s": t1}
    compiled = run([PY, "-m", "compileall", "-q", "fairlearn"], wt)[0]
    res["compiles"] = compiled == 0
    tr = []
    patched_pass = passed_tests("patched")
    stable = set(json.load(open("/root/.vp/BASELINE.json"))["stable_pass"])
    for t in tests:
        # only tests of the stable baseline count (xfail / flaky tests flip between runs)
        lost = sorted((clean_pass[t][0] & stable) - patched_pass[t][0])
        tr.append({"cmd": f"pytest -q {t}", "exit": 0 if not lost else 1, "clean": clean_pass[t][1], "summary": patched_pass[t][1],
                   "tests_passing_on_clean_tree": len(clean_pass[t][0]), "lost_with_patch": lost[:5], "wall_s": patched_pass[t][2]})
    res["tests"] = tr
    ok = c0 == 0 and c1 != 0 and compiled == 0 and all(x["exit"] == 0 for x in tr) and all(x["tests_passing_on_clean_tree"] > 0 for x in tr)
    res["confirmed"] = ok
    try:
        metas = json.load(open(f"{src}/meta.json"))
        m = [x for x in metas if x.get("patch") == f"patch{k}.diff"]
        if m:
            res["what_it_breaks"] = m[0].get("what_it_breaks")
            res["needs_to_manifest"] = m[0].get("needs_to_manifest")
    except Exception as e:  # noqa
        res["meta_error"] = str(e)
    if ok:
        os.makedirs(out, exist_ok=True)
        shutil.copy(patch, f"{out}/patch.diff")
        shutil.copy(demo, f"{out}/demo.py")
        res["what_i_ran"] = (f"scratch worktree of /repo@{head}: demo on the clean tree (exit {c0}); git apply patch.diff; demo "
                             f"(exit {c1}); compileall; " + "; ".join(x["cmd"] + " -> " + x["summary"] for x in tr))
        with open(f"{out}/meta.json", "w") as f:
            json.dump(res, f, indent=1)
    print(json.dumps({k_: res[k_] for k_ in ("property", "confirmed", "demo_clean", "demo_patched", "tests")}, indent=None)[:600])
finally:
    subprocess.run(["git", "-C", "/repo", "worktree", "remove", "--force", wt], capture_output=True)
