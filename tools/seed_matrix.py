#!/usr/bin/env python3
"""Run every check against every seeded change (on scratch copies; /repo is not touched) and write seeded/MATRIX.md."""
import json
import os
import shutil
import subprocess
import sys
import tempfile
from concurrent.futures import ProcessPoolExecutor

VERIF = os.path.dirname(os.path.dirname(os.path.abspath(__file__)))
PROPS = ["C%02d" % i for i in range(1, 21)]


def one(seed):
    d = os.path.join(VERIF, "seeded", seed)
    tmp = tempfile.mkdtemp(prefix="sa_seed_")
    try:
        shutil.copytree("/repo/fairlearn", os.path.join(tmp, "fairlearn"), ignore=shutil.ignore_patterns("__pycache__", "*.pyc"))
        r = subprocess.run(["patch", "-p1", "-s", "-d", tmp, "-i", os.path.join(d, "patch.diff")], capture_output=True, text=True)
        if r.returncode != 0:
            return seed, {"error": "patch does not apply: " + (r.stdout + r.stderr)[-200:]}
        res = {}
        for p in PROPS:
            c = subprocess.run(["/venv/bin/python", "-m", "sa.run", "check", p, "--root", tmp, "--no-write"], cwd=VERIF,
                               capture_output=True, text=True)
            if c.returncode != 0:
                first = [l.strip() for l in c.stdout.splitlines() if l.startswith("  ")][:1]
                res[p] = {"exit": c.returncode, "report": first[0][:220] if first else c.stdout[-200:]}
        return seed, res
    finally:
        shutil.rmtree(tmp, ignore_errors=True)


def main():
    seeds = sorted(x for x in os.listdir(os.path.join(VERIF, "seeded")) if os.path.exists(os.path.join(VERIF, "seeded", x, "meta.json")))
    if len(sys.argv) > 1:
        seeds = [s for s in seeds if any(s.startswith(a) for a in sys.argv[1:])]
    with ProcessPoolExecutor(8) as ex:
        results = dict(ex.map(one, seeds))
    lines = ["# Seeded changes x checks", "",
             "Each seeded patch was applied to a scratch copy of `fairlearn/` and all 20 quick checks were run with `--root`.",
             "`own` = the check of the property the seed was written for.", "",
             "| seed | property | caught by own check | all checks that report it | first report of the own check |", "|---|---|---|---|---|"]
    summary = {}
    for s in seeds:
        meta = json.load(open(os.path.join(VERIF, "seeded", s, "meta.json")))
        prop = meta["property"]
        r = results[s]
        if "error" in r:
            lines.append(f"| {s} | {prop} | ERROR | {r['error']} | |")
            continue
        caught = sorted(p for p, v in r.items() if v["exit"] == 1)
        own = prop in caught
        rep = r.get(prop, {}).get("report", "")
        lines.append(f"| {s} | {prop} | {'yes' if own else '**no**'} | {', '.join(caught) or '-'} | {rep.replace('|', '/')[:160]} |")
        summary[s] = {"property": prop, "own": own, "caught_by": caught, "errors": sorted(p for p, v in r.items() if v["exit"] == 2)}
    n = len(summary)
    k = sum(1 for v in summary.values() if v["own"])
    a = sum(1 for v in summary.values() if v["caught_by"])
    lines += ["", f"{k} of {n} seeds are reported by the check of their own property; {a} of {n} by at least one check."]
    open(os.path.join(VERIF, "seeded", "MATRIX.md"), "w").write("\n".join(lines) + "\n")
    json.dump(summary, open(os.path.join(VERIF, "seeded", "matrix.json"), "w"), indent=1)
    print("\n".join(lines[-1:]))
    for s, v in summary.items():
        if not v["own"]:
            print("MISSED by own check:", s, v)


if __name__ == "__main__":
    main()
