#!/usr/bin/env python3
"""Round of paired patches (seed dir with P/patchA.diff = behaviour-preserving refactoring, P/patchB.diff = the same refactoring
with one property-breaking slip): every check on A must be silent, the check of P must report B.  Scratch copies; /repo untouched."""
import os
import sys
from concurrent.futures import ProcessPoolExecutor

sys.path.insert(0, os.path.dirname(os.path.abspath(__file__)))
from refactor_matrix import one  # noqa: E402


def main():
    d = sys.argv[1]
    props = sys.argv[2:] or sorted(x for x in os.listdir(d) if os.path.isdir(os.path.join(d, x)))
    items = []
    for p in props:
        for k in ("A", "B"):
            f = os.path.join(d, p, f"patch{k}.diff")
            if os.path.exists(f):
                items.append((f"{p}-{k}", f))
    with ProcessPoolExecutor(8) as ex:
        results = dict(ex.map(one, items))
    a_ok = a_n = b_ok = b_n = b_any = 0
    for name, _ in items:
        r = results[name]
        p, k = name.split("-")
        if k == "A":
            a_n += 1
            if not r:
                a_ok += 1
            else:
                print(f"== {name} NOT SILENT")
                for q, v in r.items() if "error" not in r else [("patch", (9, r["error"]))]:
                    print(f"   {q} exit {v[0]}: {v[1][:230]}")
        else:
            b_n += 1
            own = r.get(p) if "error" not in r else None
            if own and own[0] == 1:
                b_ok += 1
            if any(v[0] == 1 for v in r.values()) if "error" not in r else False:
                b_any += 1
            if not (own and own[0] == 1):
                print(f"== {name} NOT REPORTED by {p}: {({q: v[0] for q, v in r.items()} if 'error' not in r else r)}")
    print(f"A (refactoring only): {a_ok} of {a_n} silent;  B (refactoring + slip): {b_ok} of {b_n} reported by the own check, {b_any} by some check")


if __name__ == "__main__":
    main()
