#!/venv/bin/python
"""Try one textual mutant in memory:  tools/mut1.py <relpath under /repo> <old> <new> C08 [C10 ...]"""
import os
import sys
sys.path.insert(0, os.path.join(os.path.dirname(os.path.abspath(__file__)), ".."))
from sa import model, run  # noqa: E402

rel, old, new, props = sys.argv[1], sys.argv[2], sys.argv[3], sys.argv[4:]
src = open(os.path.join("/repo", rel)).read()
assert src.count(old) == 1, f"anchor occurs {src.count(old)} times"
model.Program.OVERLAY = {rel: src.replace(old, new)}
for p in props:
    import io, contextlib
    buf = io.StringIO()
    with contextlib.redirect_stdout(buf):
        code = run.run_property(p, "quick", "/repo", 0, write=False)
    lines = [l for l in buf.getvalue().splitlines() if "[R" in l and l.startswith("  ") or l.startswith("ANALYSIS")]
    print(p, "exit", code, "|", (lines[0].strip()[:260] if lines else ""))
