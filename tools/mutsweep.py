#!/venv/bin/python
"""Systematic mutation sweep of the *checkers* (not of fairlearn's tests).

For a property P, every function that P's check analysed (evidence/<P>.json: coverage.functions_analysed) and that lies
in one of P's anchor files is mutated with small syntactic operators (comparison / arithmetic / boolean swaps, constant
changes, negated tests, dropped statements, swapped or dropped arguments, sibling method names).  Each mutant is handed
to the check of P as an in-memory overlay of one file (nothing is written, nothing of fairlearn is run) and the exit
code is recorded:  1 = reported,  2 = analysis refused (fail-closed),  0 = SURVIVED.

Survivors are candidates for triage: either the mutated construct is irrelevant to the property (message text,
unrelated validation, an equivalent mutant) or it is a gap of the rule set.  The triage lives in DESIGN.md; this tool
only produces the list.  It is a development aid, not a registered check.

usage: tools/mutsweep.py C05 [C06 ...] [--jobs N] [--out DIR] [--all-functions]
"""
from __future__ import annotations

import argparse
import ast
import contextlib
import io
import json
import multiprocessing as mp
import os
import sys

sys.path.insert(0, os.path.join(os.path.dirname(os.path.abspath(__file__)), ".."))

from sa.selftest.sweep import ROOT, apply, functions_in, mutants_of  # noqa: E402

def _run_global(job):
    """run every property that analysed the mutated function; stop at the first that reports"""
    res = {"codes": {}, "first": ""}
    for prop in job["props"]:
        r = _run(dict(job, prop=prop))
        res["codes"][prop] = r["code"]
        if r["code"] == 1:
            res["first"] = r["first"]
            break
    codes = res["codes"].values()
    code = 1 if 1 in codes else (2 if 2 in codes else 0)
    return {k: job[k] for k in ("rel", "func", "line", "desc", "old", "new", "props")} | {"code": code, "codes": res["codes"], "first": res["first"]}


def _run(job):
    prop, rel, new_src = job["prop"], job["rel"], job["src"]
    from sa import model, run
    model.Program.OVERLAY = {rel: new_src}
    buf = io.StringIO()
    try:
        with contextlib.redirect_stdout(buf), contextlib.redirect_stderr(buf):
            code = run.run_property(prop, "quick", ROOT, 0, write=False)
    except BaseException as e:  # noqa
        code = 2
        buf.write(f"crash {type(e).__name__}: {e}")
    finally:
        model.Program.OVERLAY = {}
    out = buf.getvalue()
    first = ""
    for ln in out.splitlines():
        if "[R" in ln and ("violated" in ln.lower() or ln.startswith("  ")):
            first = ln.strip()[:200]
            break
    if not first:
        for ln in out.splitlines():
            if ln.startswith("ANALYSIS-ERROR"):
                first = ln[:200]
                break
    return {k: job[k] for k in ("prop", "rel", "func", "line", "desc", "old", "new")} | {"code": code, "first": first}


def main():
    ap = argparse.ArgumentParser()
    ap.add_argument("props", nargs="+")
    ap.add_argument("--jobs", type=int, default=8)
    ap.add_argument("--out", default="/tmp/mutsweep")
    ap.add_argument("--only", default=None, help="restrict the global sweep to files whose path contains this")
    ap.add_argument("--all-functions", action="store_true", help="also mutate functions of the anchor files the check did not analyse")
    a = ap.parse_args()
    os.makedirs(a.out, exist_ok=True)
    anchors = {}
    for ln in open(os.path.join(os.path.dirname(__file__), "..", "properties.jsonl")):
        d = json.loads(ln)
        anchors[d["id"]] = d["anchors"]["files"]
    if a.props == ["ALL"]:
        return sweep_global(a)
    for prop in a.props:
        ev = json.load(open(os.path.join(os.path.dirname(__file__), "..", "evidence", f"{prop}.json")))
        analysed = set(ev["coverage"]["functions_analysed"])
        jobs = []
        for rel in anchors[prop]:
            src = open(os.path.join(ROOT, rel)).read()
            tree = ast.parse(src)
            mod = rel[:-3].replace("/", ".")
            for q, fn in functions_in(tree).items():
                fq = f"{mod}:{q}"
                if fq not in analysed and not a.all_functions:
                    continue
                seen = set()
                for node, repl, desc in mutants_of(fn):
                    new = apply(src, node, repl)
                    if new is None or new == src or new in seen:
                        continue
                    seen.add(new)
                    old_txt = ast.get_source_segment(src, node) or ""
                    new_txt = repl if isinstance(repl, str) else ast.unparse(repl)
                    jobs.append({"prop": prop, "rel": rel, "func": q, "line": node.lineno, "desc": desc, "old": old_txt[:120],
                                 "new": new_txt[:120], "src": new, "analysed": fq in analysed})
        print(f"{prop}: {len(jobs)} mutants over {len(anchors[prop])} files", flush=True)
        with mp.Pool(a.jobs, maxtasksperchild=50) as pool:
            res = pool.map(_run, jobs, chunksize=4)
        by = {0: [], 1: [], 2: []}
        for r in res:
            by.setdefault(r["code"], []).append(r)
        with open(os.path.join(a.out, f"{prop}.json"), "w") as f:
            json.dump(res, f, indent=0)
        print(f"{prop}: reported={len(by[1])} refused={len(by[2])} survived={len(by[0])}")
        with open(os.path.join(a.out, f"{prop}.survivors.txt"), "w") as f:
            for r in sorted(by[0], key=lambda r: (r["rel"], r["line"])):
                f.write(f"{r['rel']}:{r['line']} {r['func']} [{r['desc']}]  {r['old']!r} -> {r['new']!r}\n")
        with open(os.path.join(a.out, f"{prop}.refused.txt"), "w") as f:
            for r in sorted(by[2], key=lambda r: (r["rel"], r["line"])):
                f.write(f"{r['rel']}:{r['line']} {r['func']} [{r['desc']}]  {r['old']!r} -> {r['new']!r}   :: {r['first']}\n")


def sweep_global(a):
    here = os.path.dirname(os.path.abspath(__file__))
    users = {}
    for i in range(1, 21):
        prop = f"C{i:02d}"
        ev = json.load(open(os.path.join(here, "..", "evidence", f"{prop}.json")))
        for fq in ev["coverage"]["functions_analysed"]:
            users.setdefault(fq, []).append(prop)
    bymod = {}
    for fq in users:
        bymod.setdefault(fq.split(":")[0], []).append(fq)
    jobs = []
    for mod, fqs in sorted(bymod.items()):
        rel = mod.replace(".", "/") + ".py"
        if not os.path.exists(os.path.join(ROOT, rel)):
            rel = mod.replace(".", "/") + "/__init__.py"
        src = open(os.path.join(ROOT, rel)).read()
        fns = functions_in(ast.parse(src))
        for fq in sorted(fqs):
            q = fq.split(":")[1]
            if q not in fns:
                continue
            seen = set()
            for node, repl, desc in mutants_of(fns[q]):
                new = apply(src, node, repl)
                if new is None or new == src or new in seen:
                    continue
                seen.add(new)
                jobs.append({"rel": rel, "func": q, "line": node.lineno, "desc": desc, "old": (ast.get_source_segment(src, node) or "")[:120],
                             "new": (repl if isinstance(repl, str) else ast.unparse(repl))[:120], "src": new, "props": users[fq]})
    if a.only:
        jobs = [j for j in jobs if a.only in j["rel"]]
    print(f"{len(jobs)} mutants over {len(bymod)} modules / {len(users)} functions", flush=True)
    with mp.Pool(a.jobs, maxtasksperchild=40) as pool:
        res = pool.map(_run_global, jobs, chunksize=2)
    json.dump(res, open(os.path.join(a.out, "ALL.json"), "w"), indent=0)
    n = {0: 0, 1: 0, 2: 0}
    for r in res:
        n[r["code"]] += 1
    print(f"reported={n[1]} refused={n[2]} survived={n[0]}")
    with open(os.path.join(a.out, "ALL.survivors.txt"), "w") as f:
        for r in sorted(res, key=lambda r: (r["rel"], r["line"])):
            if r["code"] == 0:
                f.write(f"{r['rel']}:{r['line']} {r['func']} [{r['desc']}] {','.join(r['props'])}  {r['old']!r} -> {r['new']!r}\n")
    with open(os.path.join(a.out, "ALL.refused.txt"), "w") as f:
        for r in sorted(res, key=lambda r: (r["rel"], r["line"])):
            if r["code"] == 2:
                f.write(f"{r['rel']}:{r['line']} {r['func']} [{r['desc']}] {r['codes']}  {r['old']!r} -> {r['new']!r}\n")


if __name__ == "__main__":
    main()
