#!/usr/bin/env python3
"""Run every check against every behaviour-preserving refactoring patch (scratch copies; /repo is not touched).
usage: refactor_matrix.py <dir with P/patchK.diff> [P ...]   - every non-zero exit is noise of the checker"""
import os
import shutil
import subprocess
import sys
import tempfile
from concurrent.futures import ProcessPoolExecutor

VERIF = os.path.dirname(os.path.dirname(os.path.abspath(__file__)))
PROPS = ["C%02d" % i for i in range(1, 21)]


def one(item):
    name, patch = item
    tmp = tempfile.mkdtemp(prefix="sa_ref_")
    try:
        shutil.copytree("/repo/fairlearn", os.path.join(tmp, "fairlearn"), ignore=shutil.ignore_patterns("__pycache__", "*.pyc"))
        r = subprocess.run(["patch", "-p1", "-s", "-d", tmp, "-i", patch], capture_output=True, text=True)
        if r.returncode != 0:
            return name, {"error": "patch does not apply"}
        res = {}
        for p in PROPS:
            c = subprocess.run(["/venv/bin/python", "-m", "sa.run", "check", p, "--root", tmp, "--no-write"], cwd=VERIF,
                               capture_output=True, text=True)
            if c.returncode != 0:
                first = [l.strip() for l in c.stdout.splitlines() if l.startswith("  ") or l.startswith("ANALYSIS")][:2]
                res[p] = (c.returncode, " | ".join(x[:170] for x in first))
        return name, res
    finally:
        shutil.rmtree(tmp, ignore_errors=True)


def main():
    d = sys.argv[1]
    props = sys.argv[2:] or sorted(x for x in os.listdir(d) if os.path.isdir(os.path.join(d, x)))
    items = []
    for p in props:
        for k in (1, 2, 3):
            f = os.path.join(d, p, f"patch{k}.diff")
            if os.path.exists(f):
                items.append((f"{p}-{k}", f))
    with ProcessPoolExecutor(8) as ex:
        results = dict(ex.map(one, items))
    noisy = 0
    for name, _ in items:
        r = results[name]
        if r:
            noisy += 1
            print(f"== {name}")
            for p, v in r.items() if "error" not in r else [("patch", (9, r["error"]))]:
                print(f"   {p} exit {v[0]}: {v[1]}")
    print(f"{len(items) - noisy} of {len(items)} refactorings leave every check silent")


if __name__ == "__main__":
    main()
