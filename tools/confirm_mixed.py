#!/usr/bin/env python3
"""Confirm one round-8 pair (patchA = refactoring only, patchB = refactoring + slip) in a scratch worktree of /repo and file it.

usage: confirm_mixed.py <dir-with-P-subdirs> <P>
clean tree: demo_bug passes;  patch A: demo_bug passes, demo_equiv output identical to expected.txt, the tests pass;
patch B: compiles, demo_bug fails, the same tests pass.  Filed as /verif/seeded/<P>-<next>/ (patch.diff = B, refactoring.diff = A).
"""
import json
import os
import re
import shutil
import subprocess
import sys
import time

d, pid = sys.argv[1], sys.argv[2]
src = f"{d}/{pid}"
wt = f"/tmp/cm_{pid}"
PY = "/venv/bin/python"
meta_in = json.load(open(f"{src}/meta.json"))
tests = sorted(set(re.findall(r"test/unit[\w/\.]*", meta_in.get("tests_run", "")))) or ["test/unit"]


def run(cmd, timeout=5400):
    t = time.time()
    env = dict(os.environ)
    for v in ("OMP_NUM_THREADS", "OPENBLAS_NUM_THREADS", "MKL_NUM_THREADS"):
        env[v] = "1"
    env["PYTHONPATH"] = wt
    r = subprocess.run(cmd, cwd=wt, capture_output=True, text=True, timeout=timeout, env=env)
    return r.returncode, r.stdout, r.stderr, round(time.time() - t, 1)


STABLE = None


def pytest(tag):
    """(tests of the stable baseline that pass, summary line, wall seconds)"""
    import xml.etree.ElementTree as ET
    global STABLE
    if STABLE is None:
        STABLE = set(json.load(open("/root/.vp/BASELINE.json"))["stable_pass"])
    jf = f"/tmp/cm_{pid}_{tag}.xml"
    c, o, e, t = run([PY, "-m", "pytest", "-q", "-p", "no:cacheprovider", "--timeout=900", "--continue-on-collection-errors", f"--junitxml={jf}"] + tests)
    ok_ = set()
    try:
        for tc in ET.parse(jf).iter("testcase"):
            if not any(ch.tag in ("failure", "error", "skipped") for ch in tc):
                ok_.add(tc.get("classname") + "::" + tc.get("name"))
    except Exception:
        pass
    try:
        os.remove(jf)
    except OSError:
        pass
    last = [l for l in (o + e).splitlines() if " passed" in l or " failed" in l][-1:] or [(o + e)[-200:]]
    return ok_, last[0][:200], t


subprocess.run(["git", "-C", "/repo", "worktree", "remove", "--force", wt], capture_output=True)
subprocess.check_call(["git", "-C", "/repo", "worktree", "add", "-q", "--detach", wt, "HEAD"])
res = {"property": pid, "repo_head": subprocess.run(["git", "-C", wt, "rev-parse", "--short", "HEAD"], capture_output=True, text=True).stdout.strip()}
try:
    for f in ("demo_bug.py", "demo_equiv.py"):
        shutil.copy(f"{src}/{f}", f"/tmp/cm_{pid}_{f}")
    bug, equiv = f"/tmp/cm_{pid}_demo_bug.py", f"/tmp/cm_{pid}_demo_equiv.py"
    expected = open(f"{src}/expected.txt").read() if os.path.exists(f"{src}/expected.txt") else None
    c, o, e, t = run([PY, bug])
    res["clean"] = {"demo_bug_exit": c}
    ce, oe, ee, te = run([PY, equiv])
    res["clean"]["demo_equiv_matches_expected"] = (oe == expected) if expected is not None else None
    clean_equiv = oe
    clean_pass, clean_sum, _t = pytest("clean")
    res["clean"]["tests"] = clean_sum
    subprocess.check_call(["git", "-C", wt, "apply", f"{src}/patchA.diff"])
    c, o, e, t = run([PY, bug])
    ce, oe, ee, te = run([PY, equiv])
    pa, st, tt = pytest("A")
    lostA = sorted((clean_pass & STABLE) - pa)   # only tests of the stable baseline count (ids with object addresses differ per run)
    res["patchA"] = {"demo_bug_exit": c, "demo_equiv_identical_to_clean": oe == clean_equiv and ce == 0, "tests_exit": 0 if not lostA else 1,
                     "tests": st, "tests_lost": lostA[:5], "tests_wall_s": tt}
    subprocess.check_call(["git", "-C", wt, "checkout", "--", "."])
    subprocess.check_call(["git", "-C", wt, "clean", "-fdq"])
    subprocess.check_call(["git", "-C", wt, "apply", f"{src}/patchB.diff"])
    comp = run([PY, "-m", "compileall", "-q", "fairlearn"])[0]
    c, o, e, t = run([PY, bug])
    pb, st, tt = pytest("B")
    lostB = sorted((clean_pass & STABLE) - pb)
    res["patchB"] = {"compiles": comp == 0, "demo_bug_exit": c, "demo_bug_tail": (o + e)[-500:], "tests_exit": 0 if not lostB else 1,
                     "tests": st, "tests_lost": lostB[:5], "tests_wall_s": tt, "stable_tests_passing_on_clean_tree": len(clean_pass & STABLE)}
    ok = (res["clean"]["demo_bug_exit"] == 0 and res["patchA"]["demo_bug_exit"] == 0 and res["patchA"]["demo_equiv_identical_to_clean"]
          and res["patchA"]["tests_exit"] == 0 and len(clean_pass & STABLE) > 0 and comp == 0 and res["patchB"]["demo_bug_exit"] != 0 and res["patchB"]["tests_exit"] == 0)
    res["confirmed"] = bool(ok)
    res["tests_cmd"] = "pytest -q -p no:cacheprovider --timeout=900 --continue-on-collection-errors " + " ".join(tests) + "  (every test passing on the clean worktree must pass with the patch)"
    if ok:
        have = [int(x.split("-")[1]) for x in os.listdir("/verif/seeded") if x.startswith(pid + "-") and x.split("-")[1].isdigit()]
        out = f"/verif/seeded/{pid}-{max(have + [0]) + 1}"
        os.makedirs(out, exist_ok=True)
        shutil.copy(f"{src}/patchB.diff", f"{out}/patch.diff")
        shutil.copy(f"{src}/patchA.diff", f"{out}/refactoring.diff")
        shutil.copy(f"{src}/demo_bug.py", f"{out}/demo.py")
        shutil.copy(f"{src}/demo_equiv.py", f"{out}/demo_equiv.py")
        meta = {"property": pid, "round": 8, "kind": "refactoring + slip (patch.diff); refactoring.diff is the same refactoring without the slip",
                "breaks": meta_in.get("what_it_breaks"), "slip": meta_in.get("slip"), "needs_to_manifest": meta_in.get("needs_to_manifest"),
                "refactoring": meta_in.get("refactoring"), "what_i_ran": res}
        json.dump(meta, open(f"{out}/meta.json", "w"), indent=1)
        res["filed"] = out
finally:
    subprocess.run(["git", "-C", "/repo", "worktree", "remove", "--force", wt], capture_output=True)
    for f in ("demo_bug.py", "demo_equiv.py"):
        try:
            os.remove(f"/tmp/cm_{pid}_{f}")
        except OSError:
            pass
print(json.dumps(res, indent=1))
