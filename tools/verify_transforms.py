#!/venv/bin/python
"""Check that the whole-package refactor transforms of sa/selftest/refactors.py preserve behaviour as far as the library's own
tests can tell: build the transformed tree (outside /repo and /verif), copy the tests next to it, run the test directories
there and compare the set of passing tests with the same run on an untransformed copy.  Development aid (runs fairlearn's
tests, so it is not part of any registered check); writes sa/selftest/TRANSFORMS_VERIFIED.json."""
import json
import re
import os
import shutil
import subprocess
import sys
import xml.etree.ElementTree as ET

sys.path.insert(0, os.path.join(os.path.dirname(os.path.abspath(__file__)), ".."))
from sa.selftest.refactors import TRANSFORMS, make_tree  # noqa: E402

DIRS = sys.argv[1:] or ["test/unit/metrics", "test/unit/utils", "test/unit/reductions/moments", "test/unit/adversarial",
                        "test/unit/preprocessing", "test/unit/postprocessing", "test/unit/reductions/exponentiated_gradient"]


def run(tree):
    shutil.copytree("/repo/test", os.path.join(tree, "test"))
    shutil.copy("/repo/pyproject.toml", tree)
    env = dict(os.environ, OMP_NUM_THREADS="1", OPENBLAS_NUM_THREADS="1", MKL_NUM_THREADS="1")
    jf = os.path.join(tree, "junit.xml")
    subprocess.run(["/venv/bin/python", "-m", "pytest", "-q", "-p", "no:cacheprovider", "--timeout=900", f"--junitxml={jf}",
                    "--ignore=test/unit/adversarial/test_preprocessing.py"] + DIRS, cwd=tree, env=env, capture_output=True, text=True)
    ok = set()
    for tc in ET.parse(jf).iter("testcase"):
        if not any(ch.tag in ("failure", "error", "skipped") for ch in tc):
            ok.add(re.sub(r"0x[0-9a-f]+", "0x", tc.get("classname") + "::" + tc.get("name")))
    return ok


base_tree = make_tree("/repo", lambda s: s)
try:
    base = run(base_tree)
finally:
    shutil.rmtree(base_tree, ignore_errors=True)
out = {"test_dirs": DIRS, "passing_on_untransformed_copy": len(base), "transforms": {}}
for name, tf in TRANSFORMS.items():
    tree = make_tree("/repo", tf)
    try:
        ok = run(tree)
    finally:
        shutil.rmtree(tree, ignore_errors=True)
    lost = sorted(base - ok)
    out["transforms"][name] = {"passing": len(ok), "lost": lost[:10], "n_lost": len(lost)}
    print(name, len(ok), "lost", len(lost), lost[:3], flush=True)
with open(os.path.join(os.path.dirname(os.path.abspath(__file__)), "..", "sa", "selftest", "TRANSFORMS_VERIFIED.json"), "w") as f:
    json.dump(out, f, indent=1)
