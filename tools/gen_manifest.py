#!/usr/bin/env python3
"""Regenerate /verif/MANIFEST.json from sa/registry.py."""
import json
import os
import sys

HERE = os.path.dirname(os.path.dirname(os.path.abspath(__file__)))
sys.path.insert(0, HERE)
from sa import registry  # noqa: E402

PY = "/venv/bin/python"
checks = []
for pid in sorted(registry.CLAIMED):
    c = registry.CLAIMED[pid]
    checks.append({
        "property_id": pid,
        "quick_cmd": f"{PY} -m sa.run check {pid} --tier quick",
        "thorough_cmd": f"{PY} -m sa.run check {pid} --tier thorough",
        "evidence_file": f"/verif/evidence/{pid}.json",
        "replay_cmd_template": f"{PY} -m sa.run check {pid} --replay {{path}}",
        "engine": "sa",
        "level_claimed": {"category": "other", "text": c["text"], "design_ref": c["design_ref"]},
        "level_note": c["note"],
        "technique": "static analysis: " + c["technique"],
    })
man = {
    "version": 1,
    "setup_cmd": f"{PY} -c \"import ast, sys; sys.path.insert(0, '/verif'); import sa.run\"",
    "hooks": {
        "guard": "FAIRLEARN_VERIF",
        "enable": "no hooks: the analyser reads /repo's working tree (fairlearn/**/*.py) with ast; nothing in /repo reads the guard",
        "baseline_off_cmd": "cd /repo && /venv/bin/python -m pytest -ra -q -p no:cacheprovider --timeout=900 --continue-on-collection-errors",
        "source_commits": [],
        "add_only": True,
    },
    "engines": [{
        "name": "sa",
        "path": "/verif/sa",
        "serves_properties": sorted(registry.CLAIMED),
        "kind_free_text": "repository-specific static analyser (stdlib ast): abstract term builder with event stream, "
                          "rational-function value numbering, order-cell guard evaluation, label/null/shape/lifecycle domains",
    }],
    "checks": checks,
    "not_applicable": [{"property_id": p, "reason": r} for p, r in sorted(registry.NOT_APPLICABLE.items())],
    "notes": "All checks are static (technique family: static analysis). exit 0 clean / exit 1 VIOLATION / exit 2 "
             "ANALYSIS-ERROR (anchor vanished or construct not modelled; never a silent pass). Genuine defects found on the "
             "original tree were repaired by fix: commits in /repo and are listed in /verif/known_findings.json.",
}
with open(os.path.join(HERE, "MANIFEST.json"), "w") as f:
    json.dump(man, f, indent=1)
print("MANIFEST.json:", len(checks), "checks,", len(man["not_applicable"]), "not applicable")
