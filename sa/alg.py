"""D-ALG: value numbering with rational-function normal forms.

`canon(t)` rewrites a term bottom-up into a canonical term: arithmetic becomes a quotient of
multivariate polynomials with Fraction coefficients over opaque atoms (`rat` terms), library spellings of
the same operation are identified through the alias tables below, comparisons are oriented, and
commutative boolean connectives are sorted.  `equal(a, b)` decides equality of two normal forms by
cross-multiplication.  Two different normal forms over free atoms denote different functions of the
atoms (up to floating-point re-association), which is what makes a mismatch a semantic statement.
"""
from __future__ import annotations

from fractions import Fraction

from .terms import FALSE, NONE, SHOW_HOOKS, TRUE, T, const, const_value, contains, glob, mk, show

# ----------------------------------------------------------------------------- polynomials


class Poly:
    __slots__ = ("terms",)

    def __init__(self, terms=None):
        self.terms = {m: c for m, c in (terms or {}).items() if c != 0}

    @staticmethod
    def const(c):
        return Poly({(): Fraction(c)})

    @staticmethod
    def atom(a: T):
        return Poly({((a, 1),): Fraction(1)})

    def is_zero(self):
        return not self.terms

    def is_const(self):
        return all(m == () for m in self.terms)

    def const_value(self):
        return self.terms.get((), Fraction(0))

    def __add__(self, o):
        d = dict(self.terms)
        for m, c in o.terms.items():
            d[m] = d.get(m, 0) + c
        return Poly(d)

    def __neg__(self):
        return Poly({m: -c for m, c in self.terms.items()})

    def __sub__(self, o):
        return self + (-o)

    def __mul__(self, o):
        d = {}
        for m1, c1 in self.terms.items():
            for m2, c2 in o.terms.items():
                m = _mono_mul(m1, m2)
                d[m] = d.get(m, 0) + c1 * c2
        return Poly(d)

    def scale(self, c):
        return Poly({m: v * c for m, v in self.terms.items()})

    def __eq__(self, o):
        return self.terms == o.terms

    def __hash__(self):
        return hash(frozenset(self.terms.items()))

    def key(self):
        return tuple(sorted(((tuple((a.uid, e) for a, e in m), (c.numerator, c.denominator)) for m, c in self.terms.items())))

    def atoms(self):
        s = set()
        for m in self.terms:
            for a, _ in m:
                s.add(a)
        return s


def _mono_mul(m1, m2):
    d = {}
    for a, e in m1:
        d[a] = d.get(a, 0) + e
    for a, e in m2:
        d[a] = d.get(a, 0) + e
    return tuple(sorted(((a, e) for a, e in d.items() if e != 0), key=lambda x: x[0].uid))


def _mono_gcd(monos):
    it = iter(monos)
    try:
        g = dict(next(it))
    except StopIteration:
        return ()
    for m in it:
        d = dict(m)
        g = {a: min(e, d[a]) for a, e in g.items() if a in d}
        if not g:
            return ()
    return tuple(sorted(g.items(), key=lambda x: x[0].uid))


def _mono_div(m, g):
    d = dict(m)
    for a, e in g:
        d[a] -= e
    return tuple(sorted(((a, e) for a, e in d.items() if e != 0), key=lambda x: x[0].uid))


class Rat:
    __slots__ = ("num", "den")

    def __init__(self, num: Poly, den: Poly | None = None):
        den = den if den is not None else Poly.const(1)
        if den.is_zero():
            # division by a literal zero: keep as an opaque marker (never equal to a finite form)
            den = Poly.atom(mk("zero_division"))
        # normalise: cancel monomial gcd and make the leading coefficient of den equal to 1
        if num.is_zero():
            num, den = Poly(), Poly.const(1)
        else:
            g = _mono_gcd(list(num.terms) + list(den.terms))
            if g:
                num = Poly({_mono_div(m, g): c for m, c in num.terms.items()})
                den = Poly({_mono_div(m, g): c for m, c in den.terms.items()})
            lead = den.terms[min(den.terms, key=lambda m: tuple((a.uid, e) for a, e in m))]
            if lead != 1:
                num, den = num.scale(1 / lead), den.scale(1 / lead)
        self.num, self.den = num, den

    @staticmethod
    def const(c):
        return Rat(Poly.const(c))

    @staticmethod
    def atom(a):
        return Rat(Poly.atom(a))

    def __add__(self, o):
        if self.den == o.den:
            return Rat(self.num + o.num, self.den)
        return Rat(self.num * o.den + o.num * self.den, self.den * o.den)

    def __neg__(self):
        return Rat(-self.num, self.den)

    def __sub__(self, o):
        return self + (-o)

    def __mul__(self, o):
        return Rat(self.num * o.num, self.den * o.den)

    def __truediv__(self, o):
        return Rat(self.num * o.den, self.den * o.num)

    def pow(self, n: int):
        if n == 0:
            return Rat.const(1)
        base = self if n > 0 else Rat(self.den, self.num)
        r = Rat.const(1)
        for _ in range(abs(n)):
            r = r * base
        return r

    def equals(self, o):
        return (self.num * o.den) == (o.num * self.den)

    def is_const(self):
        return self.num.is_const() and self.den.is_const()

    def const_value(self):
        return self.num.const_value() / self.den.const_value()

    def single_atom(self):
        if self.den.is_const() and self.den.const_value() == 1 and len(self.num.terms) == 1:
            (m, c), = self.num.terms.items()
            if c == 1 and len(m) == 1 and m[0][1] == 1:
                return m[0][0]
        return None

    def solve_atom(self):
        """An atom x with self == x (found by cross-multiplication; no polynomial division needed)."""
        a = self.single_atom()
        if a is not None:
            return a
        for x in self.num.atoms():
            if self.equals(Rat.atom(x)):
                return x
        return None

    def to_term(self) -> T:
        a = self.single_atom()
        if a is not None:
            return a
        return mk("rat", self.num.key(), self.den.key(), _RatBox(self))


def rat_subst(r: "Rat", mapping: dict) -> "Rat":
    """Substitute atoms (canonical terms) by rational functions."""

    def poly(p: Poly) -> Rat:
        out = Rat.const(0)
        for mono, c in p.terms.items():
            term = Rat.const(c)
            for a, e in mono:
                base = mapping.get(a)
                base = base if base is not None else Rat.atom(a)
                term = term * base.pow(e)
            out = out + term
        return out

    return poly(r.num) / poly(r.den)


class _RatBox:
    """Carrier so a `rat` term can give its Rat back; compares by normal-form key."""

    __slots__ = ("rat", "_k")

    def __init__(self, rat):
        self.rat = rat
        self._k = (rat.num.key(), rat.den.key())

    def __hash__(self):
        return hash(self._k)

    def __eq__(self, o):
        return isinstance(o, _RatBox) and self._k == o._k


# ----------------------------------------------------------------------------- alias tables

# canonical function name <- external callables / method names that denote the same operation.
# Every entry is a trusted statement about numpy / pandas / torch / tensorflow semantics.
FUNC_ALIASES = {
    # reductions
    "numpy.sum": "sum", "torch.sum": "sum", "tensorflow.reduce_sum": "sum", "builtins.sum": "sum",
    "numpy.mean": "mean", "torch.mean": "mean", "tensorflow.reduce_mean": "mean",
    "numpy.max": "max", "numpy.amax": "max", "builtins.max": "max", "numpy.min": "min", "numpy.amin": "min",
    "builtins.min": "min",
    "numpy.abs": "abs", "numpy.absolute": "abs", "builtins.abs": "abs", "torch.abs": "abs", "tensorflow.abs": "abs",
    "numpy.dot": "dot", "numpy.matmul": "matmul", "torch.matmul": "matmul",
    "numpy.exp": "exp", "numpy.log": "log", "numpy.sqrt": "sqrt", "numpy.ceil": "ceil", "math.ceil": "ceil",
    "numpy.floor": "floor", "math.floor": "floor",
    "numpy.clip": "clip", "numpy.maximum": "maximum", "numpy.minimum": "minimum",
    "numpy.transpose": "T", "numpy.squeeze": "squeeze", "numpy.ravel": "ravel",
    "numpy.asarray": "asarray", "numpy.array": "array", "numpy.atleast_1d": "atleast_1d", "numpy.atleast_2d": "atleast_2d",
    "numpy.linalg.lstsq": "lstsq", "numpy.vstack": "vstack", "numpy.hstack": "hstack",
    "numpy.ones": "ones", "numpy.zeros": "zeros", "numpy.unique": "unique", "numpy.isscalar": "isscalar",
    "numpy.argmax": "argmax", "numpy.argmin": "argmin",
    "torch.norm": "norm", "torch.linalg.norm": "norm", "tensorflow.norm": "norm", "numpy.linalg.norm": "norm",
    "torch.inner": "inner", "numpy.inner": "inner", "torch.clone": "asarray", "tensorflow.identity": "asarray",
    "torch.cat": "concat_", "tensorflow.concat": "concat_",
    "torch.mul": "*", "torch.multiply": "*", "numpy.multiply": "*", "tensorflow.multiply": "*",
    "tensorflow.math.multiply": "*",
    "numpy.add": "+", "torch.add": "+", "tensorflow.add": "+",
    "numpy.subtract": "-", "torch.sub": "-", "torch.subtract": "-", "tensorflow.subtract": "-",
    "numpy.divide": "/", "numpy.true_divide": "/", "torch.div": "/", "torch.divide": "/", "tensorflow.divide": "/",
    "numpy.negative": "neg", "torch.neg": "neg", "torch.negative": "neg", "tensorflow.negative": "neg",
    "numpy.square": "square", "torch.square": "square", "tensorflow.square": "square",
    "builtins.len": "len", "builtins.float": "float", "builtins.int": "int", "builtins.str": "str",
    "builtins.list": "list", "builtins.range": "range", "builtins.sorted": "sorted",
    "sklearn.utils.validation.check_array": "check_array",
    "spec.relu": "relu", "spec.ind": "ind",
    # in-repo layout helpers (value-preserving conversions; their shape behaviour is D-SHAPE's business)
    "fairlearn.utils._input_manipulations:_convert_to_ndarray_and_squeeze": "asarray",
    "fairlearn.utils._input_manipulations:_convert_to_ndarray_1d": "asarray",
    "pandas.Series": "Series", "pandas.DataFrame": "DataFrame", "pandas.concat": "concat",
}
METHOD_ALIASES = {
    "sum": "sum", "mean": "mean", "max": "max", "min": "min", "abs": "abs", "dot": "dot", "exp": "exp",
    "transpose": "T", "squeeze": "squeeze", "ravel": "ravel", "flatten": "ravel", "clip": "clip",
    "argmax": "argmax", "argmin": "argmin", "idxmax": "idxmax", "idxmin": "idxmin",
    "mul": "*", "multiply": "*", "add": "+", "sub": "-", "subtract": "-", "div": "/", "divide": "/",
    "truediv": "/", "norm": "norm", "square": "square",
}
ARITH = {"+", "-", "*", "/"}
# layout / copy operations that do not change the values (transparent in D-ALG only)
TRANSPARENT_FN = {"squeeze", "ravel", "asarray", "array", "float", "atleast_1d", "atleast_2d"}
TRANSPARENT_METHODS = {"copy", "to_numpy", "detach", "clone", "numpy", "tolist"}
TRANSPARENT_ATTRS = {"values"}
INT_LIKE = {"builtins.int", "builtins.float", "numpy.int64", "numpy.float64", "numpy.int32", "numpy.float32"}


# positional parameter names of external callables whose arguments the code may pass either way (trusted table)
EXT_SIGS = {
    "pandas.Series": ("data", "index", "dtype", "name"),
    "pandas.DataFrame": ("data", "index", "columns", "dtype"),
    "numpy.concatenate": ("arrays", "axis"),
    "numpy.linspace": ("start", "stop", "num"),
    "numpy.around": ("a", "decimals"),
    "numpy.round": ("a", "decimals"),
    "numpy.clip": ("a", "a_min", "a_max"),
    "numpy.quantile": ("a", "q", "axis"),
    "numpy.nanquantile": ("a", "q", "axis"),
    "numpy.searchsorted": ("a", "v", "side"),
    "numpy.amin": ("a", "axis"),
    "numpy.amax": ("a", "axis"),
    "numpy.zeros": ("shape", "dtype"),
    "numpy.ones": ("shape", "dtype"),
    "numpy.full": ("shape", "fill_value", "dtype"),
    "numpy.linalg.lstsq": ("a", "b", "rcond"),
    "sklearn.base.clone": ("estimator", "safe"),
    "sklearn.utils.validation.check_array": ("array",),
    "sklearn.utils.validation.check_consistent_length": (),
    "scipy.optimize.linprog": ("c", "A_ub", "b_ub", "A_eq", "b_eq", "bounds", "method"),
    "builtins.range": (),
    "builtins.slice": (),
    "torch.cat": ("tensors", "dim"),
    "torch.concat": ("tensors", "dim"),
    "tensorflow.concat": ("values", "axis"),
    "numpy.hstack": ("tup",),
    "numpy.vstack": ("tup",),
}
# leading parameter names of external *methods* that the code may pass by position or by keyword (pandas / numpy, trusted table)
METHOD_SIGS = {
    "combine": ("other", "func"), "where": ("cond", "other"), "mask": ("cond", "other"), "dot": ("other",), "apply": ("func",),
    "transform": ("func",), "agg": ("func",), "aggregate": ("func",), "add": ("other",),
    "sub": ("other",), "mul": ("other",), "div": ("other",), "clip": ("lower", "upper"), "astype": ("dtype",), "reshape": ("shape",),
    "isin": ("values",), "map": ("arg",), "fillna": ("value",), "quantile": ("q",), "choice": ("a",), "randint": ("low", "high"),
    "integers": ("low", "high"), "union": ("other",), "join": ("iterable",), "format": (),
}
# functions whose first argument is a sequence of arrays: a list and a tuple of the same items are the same call
SEQ_ARG_FUNCS = {"torch.cat", "torch.concat", "tensorflow.concat", "numpy.concatenate", "numpy.hstack", "numpy.vstack", "numpy.stack",
                 "pandas.concat", "numpy.column_stack"}


# positional parameter names of the in-repo functions (filled by model.Program): a call that is not inlined gets one normal
# form whether its arguments are passed by position or by keyword
REPO_SIGS: dict = {}


class Canon:
    def __init__(self, extra_func_aliases=None, transparent_T=False, opaque=None):
        self.memo: dict[int, T] = {}
        self.rats: dict[int, Rat] = {}
        self.fa = dict(FUNC_ALIASES)
        if extra_func_aliases:
            self.fa.update(extra_func_aliases)
        self.transparent_T = transparent_T
        self.unknown_ops = set()

    # -- public
    def canon(self, t: T) -> T:
        r = self.memo.get(t.uid)
        if r is None:
            r = self._canon(t)
            self.memo[t.uid] = r
        return r

    def rat(self, t: T) -> Rat:
        c = self.canon(t)
        return self._as_rat(c)

    def equal(self, a: T, b: T) -> bool:
        if a is None or b is None:  # an absent argument / keyword equals nothing
            return False
        ca, cb = self.canon(a), self.canon(b)
        if ca is cb:
            return True
        return self._as_rat(ca).equals(self._as_rat(cb))

    def show(self, t: T, maxdepth=10) -> str:
        return show_canon(self.canon(t), maxdepth)

    # -- internals
    def _as_rat(self, c: T) -> Rat:
        if c.op == "rat":
            return c.args[2].rat
        if c.op == "const":
            v = const_value(c)
            if isinstance(v, bool):
                return Rat.const(int(v))
            if isinstance(v, int):
                return Rat.const(v)
            if isinstance(v, float) and v == v and v not in (float("inf"), float("-inf")):
                return Rat.const(Fraction(repr(v)))
        return Rat.atom(c)

    def _num(self, r: Rat) -> T:
        if r.is_const():
            v = r.const_value()
            if v.denominator == 1:
                return const(int(v))
        return r.to_term()

    def _canon(self, t: T) -> T:
        op, a = t.op, t.args
        if op == "const":
            v = const_value(t)
            if isinstance(v, float) and v == int(v) and abs(v) < 1e15:
                return const(int(v))
            if isinstance(v, bool):
                return t
            return t
        if op in ("global", "param", "bv", "undef", "nondet", "noreturn"):
            return t
        if op == "modconst":
            return self.canon(a[1])
        if op == "assume":
            return self.canon(a[1])
        if op == "binop":
            o, l, r = a
            if o in ("+", "-", "*", "/"):
                return self._arith(o, self.canon(l), self.canon(r))
            if o == "**":
                cr = self.canon(r)
                if cr.op == "const" and isinstance(const_value(cr), int) and abs(const_value(cr)) <= 6:
                    return self._num(self._as_rat(self.canon(l)).pow(const_value(cr)))
                return mk("fn", "pow", self.canon(l), cr)
            if o == "@":
                return mk("fn", "dot", self.canon(l), self.canon(r))
            return mk("binop", o, self.canon(l), self.canon(r))
        if op == "unop":
            o, x = a
            cx = self.canon(x)
            if o == "-":
                return self._num(-self._as_rat(cx))
            if o == "+":
                return cx
            return mk("unop", o, cx)
        if op == "cmp":
            return self._cmp(a[0], self.canon(a[1]), self.canon(a[2]))
        if op == "not":
            c = self.canon(a[0])
            return self._not(c)
        if op in ("and", "or"):
            items = []
            for x in a[0]:
                cx = self.canon(x)
                if cx.op == op:
                    items.extend(cx.args[0])
                else:
                    items.append(cx)
            uniq = sorted(set(items), key=lambda z: z.uid)
            if len(uniq) == 1:
                return uniq[0]
            return mk(op, tuple(uniq))
        if op == "ite":
            c, x, y = self.canon(a[0]), self.canon(a[1]), self.canon(a[2])
            if x is y:
                return x
            if c is TRUE:
                return x
            if c is FALSE:
                return y
            if x is TRUE and y is FALSE:
                return c
            if x is FALSE and y is TRUE:
                return self._not(c)
            # with a boolean test c and a boolean alternative: `if c: return False; return x` is `not c and x`, `x if c else False`
            # is `c and x` (value-equal, not only truth-equal, because both sides are booleans)
            if _is_boolean(c) and (x is FALSE or y is FALSE) and _is_boolean(y if x is FALSE else x):
                return self.canon(mk("and", ((mk("not", c), y) if x is FALSE else (c, x))))
            if c.op == "cmp" and c.args[0] in ("is not", "!=", "not in", "<="):
                return mk("ite", self._not(c), y, x)
            if c.op == "not":
                return mk("ite", c.args[0], y, x)
            if c.op in ("and", "or"):
                # choose the polarity with fewer negated conjuncts (De Morgan), so `if not (a or b)` and `if a or b` agree
                nc = self._not(c)
                if _negativity(nc) < _negativity(c) or (_negativity(nc) == _negativity(c) and nc.uid < c.uid and nc.op != "not"):
                    return mk("ite", nc, y, x)
            return mk("ite", c, x, y)
        if op == "attr":
            base = self.canon(a[0])
            if a[1] in TRANSPARENT_ATTRS:
                return base
            if a[1] == "size" and a[0].op == "call" and a[0].args[0].op == "global" and a[0].args[0].args[0] == "numpy.unique" \
                    and not dict(a[0].args[2]).get("axis"):
                return self.canon(mk("call", glob("builtins.len"), (a[0],), ()))   # np.unique(x) is 1-d: .size is len()
            if a[1] == "T":
                return base if self.transparent_T else mk("fn", "T", base)
            return mk("attr", base, a[1])
        if op == "sub":
            base, key = self.canon(a[0]), self.canon(a[1])
            # read-over-write: upd(x, k, v)[k] = v ; upd(x, k, v)[k'] = x[k'] for distinct constant keys
            while base.op == "upd":
                if base.args[1] is key:
                    return base.args[2]
                if _lit(base.args[1]) and _lit(key):
                    base = base.args[0]
                    continue
                break
            if base.op == "dict" and _lit(key) and all(_lit(k) for k, _v in base.args[0]):
                # {"fp": a, "fn": b}["fp"] is a
                hits = [v for k, v in base.args[0] if k is key]
                if hits:
                    return hits[-1]
            if base.op == "ite" and any(x.op == "dict" for x in base.args[1:]) and _lit(key):
                # (default_table if x is None else x)[k]: the subscript of either branch
                return self.canon(mk("ite", base.args[0], mk("sub", base.args[1], key), mk("sub", base.args[2], key)))
            if base.op == "elem" and key.op == "const" and const_value(key) in (0, 1) and not isinstance(const_value(key), bool):
                it_ = base.args[0]
                # for k, v in D.items():  k is an element of D.keys(), v is D[k]
                if it_.op == "mcall" and it_.args[0] == "items" and not it_.args[2] and not it_.args[3]:
                    kk = mk("elem", mk("mcall", "keys", it_.args[1], (), ()))
                    return kk if const_value(key) == 0 else self.canon(mk("sub", it_.args[1], kk))
            if base.op == "attr" and base.args[1] in ("iloc", "loc") and key.op == "tuple" and len(key.args[0]) == 2 and \
                    key.args[0][1].op == "slice" and all(x is NONE for x in key.args[0][1].args):
                key = key.args[0][0]    # frame.iloc[i, :] is frame.iloc[i]
            if base.op == "attr" and base.args[1] == "shape" and key.op == "const" and const_value(key) == 0 \
                    and not isinstance(const_value(key), bool):
                # x.shape[0] is len(x) for everything that has a shape
                return self.canon(mk("call", glob("builtins.len"), (base.args[0],), ()))
            return mk("sub", base, key)
        if op == "upd":
            base, key, val = self.canon(a[0]), self.canon(a[1]), self.canon(a[2])
            # x[x < 0] = 0  is relu(x)
            if key.op == "cmp" and key.args[0] == "<" and _is_zero(val) and (
                    (key.args[1] is base and _is_zero(key.args[2]))
                    or (_is_zero(key.args[1]) and key.args[2] is self._num(-self._as_rat(base)))):
                return mk("fn", "relu", base)
            return mk("upd", base, key, val)
        if op == "call":
            return self._call(t)
        if op in ("tuple", "list"):
            return mk(op, tuple(self.canon(x) for x in a[0]))
        if op == "fstr":
            # f"{a}={v}" is str(a) + "=" + str(v): fold into the normal form of string concatenation
            acc = None
            for part in a[0]:
                if part.op == "fmtval" and part.args[1] in (-1, 115) and part.args[2] is NONE:
                    piece = self.canon(mk("call", glob("builtins.str"), (part.args[0],), ()))
                elif part.op == "const":
                    piece = part
                else:
                    acc = None
                    break
                acc = piece if acc is None else self._arith("+", acc, piece)
            if acc is not None:
                return acc
            return mk("fstr", tuple(self.canon(x) for x in a[0]))
        if op == "fmtval":
            return mk("fmtval", self.canon(a[0]), a[1], self.canon(a[2]) if isinstance(a[2], T) else a[2])
        if op == "listappend":
            # xs.append(v) leaves xs + [v]
            return mk("fn", "seqcat", self.canon(a[0]), mk("list", (self.canon(a[1]),)))
        if op == "set":
            return mk(op, tuple(sorted({self.canon(x) for x in a[0]}, key=lambda z: z.uid)))
        if op == "dict":
            return mk(op, tuple((self.canon(k), self.canon(v)) for k, v in a[0]))
        if op == "comp" and len(a) == 3 and len(a[2]) == 1 and not a[2][0][1]:
            # a comprehension over a literal container is that container's image: [f(x) for x in (p, q)] == [f(p), f(q)],
            # {k: v for k in {"a": 1, "b": 2}} iterates the keys in order
            it = a[2][0][0]
            src = it
            while src.op in ("modconst", "assume"):
                src = src.args[1]
            items = None
            if src.op in ("list", "tuple"):
                items = list(src.args[0])
            elif src.op == "dict":
                items = [k for k, _ in src.args[0]]
            if items is not None and len(items) <= 16:
                from .terms import substitute as _subst
                var = mk("elem", it)
                vals = [_subst(a[1], {var: x}) for x in items]
                if a[0] == "dict" and all(v.op == "kv" for v in vals):
                    return self.canon(mk("dict", tuple((v.args[0], v.args[1]) for v in vals)))
                if a[0] in ("list", "gen"):
                    return self.canon(mk("list", tuple(vals)))
                if a[0] == "set":
                    return self.canon(mk("set", tuple(vals)))
        # generic: canonicalise children
        return mk(op, *[self._canon_any(x) for x in a])

    def _canon_any(self, x):
        if isinstance(x, T):
            return self.canon(x)
        if isinstance(x, tuple):
            return tuple(self._canon_any(y) for y in x)
        return x

    def _arith(self, o, l: T, r: T) -> T:
        # string concatenation and list concatenation are not arithmetic
        if o == "+" and (_is_str(l) or _is_str(r)):
            if l.op == "const" and r.op == "const" and isinstance(const_value(l), str) and isinstance(const_value(r), str):
                return const(const_value(l) + const_value(r))
            if l.op == "fn" and l.args[0] == "strcat" and l.args[2].op == "const" and r.op == "const" \
                    and isinstance(const_value(l.args[2]), str) and isinstance(const_value(r), str):
                return mk("fn", "strcat", l.args[1], const(const_value(l.args[2]) + const_value(r)))
            return mk("fn", "strcat", l, r)
        if o == "+" and (_is_seq(l) or _is_seq(r)):
            return mk("fn", "seqcat", l, r)  # list / tuple concatenation is not commutative
        rl, rr = self._as_rat(l), self._as_rat(r)
        if o == "+":
            return self._num(rl + rr)
        if o == "-":
            return self._num(rl - rr)
        if o == "*":
            return self._num(rl * rr)
        return self._num(rl / rr)

    def _cmp(self, o, l: T, r: T) -> T:
        if o == ">":
            o, l, r = "<", r, l
        elif o == ">=":
            o, l, r = "<=", r, l
        if o in ("<", "<=", "==", "!=") and (l.op == "rat" or r.op == "rat") and not _is_str(l) and not _is_str(r):
            # numeric comparison: compare (l - r) with 0, with a fixed sign convention
            d = self._as_rat(l) - self._as_rat(r)
            if d.den.is_const() and d.num.terms:
                lead = d.num.terms[min(d.num.terms, key=lambda m: tuple((a.uid, e) for a, e in m))]
                if lead < 0:
                    d = -d
                    if o in ("<", "<="):
                        # -(l - r) = r - l ;  l < r  <=>  0 < r - l
                        return mk("cmp", o, const(0), self._num(d))
                return mk("cmp", o, self._num(d), const(0)) if o in ("<", "<=") else mk("cmp", o, const(0), self._num(d))
        if o in ("==", "!=", "is", "is not") and l.uid > r.uid:
            l, r = r, l
        return mk("cmp", o, l, r)

    def _not(self, c: T) -> T:
        if c.op == "cmp":
            o, l, r = c.args
            flip = {"<": ("<=", r, l), "<=": ("<", r, l), "==": ("!=", l, r), "!=": ("==", l, r),
                    "is": ("is not", l, r), "is not": ("is", l, r), "in": ("not in", l, r), "not in": ("in", l, r)}
            if o in flip:
                no, nl, nr = flip[o]
                return self._cmp(no, nl, nr)
        if c.op == "not":
            return c.args[0]
        if (c.op == "call" and c.args[0].op == "global" and c.args[0].args[0] == "builtins.len") or \
                (c.op == "fn" and c.args[0] == "len"):
            return self._cmp("==", c, self.canon(const(0)))   # `not len(x)` is `len(x) == 0`
        if c.op == "and":
            return self.canon(mk("or", tuple(mk("not", x) for x in c.args[0])))
        if c.op == "or":
            return self.canon(mk("and", tuple(mk("not", x) for x in c.args[0])))
        if c is TRUE:
            return FALSE
        if c is FALSE:
            return TRUE
        return mk("not", c)

    def _call(self, t: T) -> T:
        f, args, kwargs = t.args
        if f.op == "global" and f.args[0] == "builtins.len" and len(args) == 1 and not kwargs and args[0].op == "attr" \
                and args[0].args[1] == "shape":
            return mk("attr", self.canon(args[0].args[0]), "ndim")   # len(x.shape) is x.ndim
        if f.op == "global" and f.args[0] == "builtins.slice" and not kwargs and 1 <= len(args) <= 3:
            # slice(a, b) used as a subscript is the subscript a:b
            lo, hi, step = (NONE, args[0], NONE) if len(args) == 1 else (tuple(args) + (NONE,))[:3]
            return self.canon(mk("slice", lo, hi, step))
        rfq = f.args[0] if (f.op == "global" and f.args[0] in REPO_SIGS) else (f.args[1] if f.op == "boundmethod" and f.args[1] in REPO_SIGS else None)
        if rfq is not None and args and rfq not in self.fa:
            names = REPO_SIGS[rfq][1:] if f.op == "boundmethod" else REPO_SIGS[rfq]
            given = {k for k, _ in kwargs}
            if len(args) <= len(names) and not (set(names[:len(args)]) & given) and not any(a_.op == "starred" for a_ in args):
                t = mk("call", f, (), tuple(kwargs) + tuple(zip(names[:len(args)], args)))
                f, args, kwargs = t.args
        if f.op == "global" and f.args[0] == "builtins.list" and len(args) == 1 and not kwargs and args[0].op == "call" \
                and args[0].args[0].op == "global" and args[0].args[0].args[0] == "builtins.map" and len(args[0].args[1]) == 2 \
                and not args[0].args[2]:
            # list(map(f, xs)) is [f(x) for x in xs]
            fn_, xs_ = args[0].args[1]
            return self.canon(mk("comp", "list", mk("call", fn_, (mk("elem", xs_),), ()), ((xs_, ()),)))
        if f.op == "global" and f.args[0] == "torch.linalg.vector_norm" and args:
            # vector_norm flattens its input; with ord 2 (its default) it is torch.norm(x), the root of the sum of squares
            o = args[1] if len(args) > 1 else dict(kwargs).get("ord")
            rest = [k for k, _ in kwargs if k != "ord"]
            if len(args) <= 2 and not rest and (o is None or (o.op == "const" and const_value(o) == 2 and not isinstance(const_value(o), bool))):
                return self.canon(mk("call", glob("torch.norm"), (args[0],), ()))
        cargs = [self.canon(x) for x in args]
        if f.op == "global" and f.args[0] in SEQ_ARG_FUNCS and cargs and cargs[0].op == "list":
            cargs[0] = mk("tuple", cargs[0].args[0])
        ckw = tuple(sorted(((k, self.canon(v)) for k, v in kwargs), key=lambda kv: kv[0]))
        if f.op == "global" and f.args[0] in ("numpy.ones", "numpy.zeros", "numpy.empty", "numpy.full"):
            # dtype=float is the default of these constructors
            ckw = tuple((k, v) for k, v in ckw if not (k == "dtype" and (
                (v.op == "global" and v.args[0] in ("builtins.float", "numpy.float64", "numpy.double"))
                or (v.op == "const" and const_value(v) in ("float", "float64", "f8", "d")))))
        name = None
        recv = None
        if f.op == "global" and ckw:
            # externals with a known signature: positional arguments beyond the first are given their parameter names, so
            # f(x, i) and f(x, index=i) get one normal form (keywords are sorted)
            sig = EXT_SIGS.get(f.args[0])
            if sig is not None or f.args[0] in EXT_SIGS:
                pass
        if f.op == "global":
            sig = EXT_SIGS.get(f.args[0])
            if sig and not cargs and sig[0] in dict(ckw):
                kwd = dict(ckw)
                cargs = [kwd.pop(sig[0])]
                ckw = tuple(sorted(kwd.items(), key=lambda kv: kv[0]))
            if sig and len(cargs) > 1:
                extra = cargs[1:]
                if len(extra) <= len(sig) - 1 and not any(sig[i + 1] in dict(ckw) for i in range(len(extra))):
                    ckw = tuple(sorted(list(ckw) + [(sig[i + 1], v) for i, v in enumerate(extra)], key=lambda kv: kv[0]))
                    cargs = cargs[:1]
        if f.op == "global" and f.args[0] in ("numpy.ones", "numpy.zeros", "numpy.empty", "numpy.full"):
            ckw = tuple((k, v) for k, v in ckw if not (k == "dtype" and (
                (v.op == "global" and v.args[0] in ("builtins.float", "numpy.float64", "numpy.double"))
                or (v.op == "const" and const_value(v) in ("float", "float64", "f8", "d")))))
        if f.op == "global":
            name = self.fa.get(f.args[0])
            if name is None:
                return mk("call", f, tuple(cargs), ckw)
        elif f.op == "attr":
            recv = self.canon(f.args[0])
            m = f.args[1]
            msig = METHOD_SIGS.get(m)
            if msig and ckw:
                kwd = dict(ckw)
                while len(cargs) < len(msig) and msig[len(cargs)] in kwd:
                    nm_ = msig[len(cargs)]
                    cargs.append(kwd.pop(nm_))
                    # keep `args` (the un-canonicalised arguments used by a few rewrites below) in step
                    args = tuple(args) + (dict(kwargs)[nm_],)
                ckw = tuple(sorted(kwd.items(), key=lambda kv: kv[0]))
            if m in TRANSPARENT_METHODS and not cargs and not ckw:
                return recv
            if m == "astype" and len(args) == 1 and not ckw and (
                (args[0].op == "global" and args[0].args[0] in INT_LIKE)
                or (args[0].op == "const" and const_value(args[0]) in ("int", "float", "float64", "int64"))
            ):
                return recv
            if m == "reshape" and len(cargs) == 1 and cargs[0].op == "const" and const_value(cargs[0]) == -1:
                return recv
            if m in ("rand", "random_sample", "random", "ranf", "sample") and len(cargs) + len(ckw) == 1 and \
                    (cargs or ckw[0][0] == "size"):
                # RandomState.rand(n), .random_sample(n), .random_sample(size=n), .random(size=n): n uniform draws from the same stream
                return mk("mcall", "rand", recv, (cargs[0] if cargs else ckw[0][1],), ())
            if m in ("eq", "ne", "lt", "le", "gt", "ge") and len(cargs) == 1 and not ckw:
                # Series.eq(c) is the element-wise `==`
                o_ = {"eq": "==", "ne": "!=", "lt": "<", "le": "<=", "gt": ">", "ge": ">="}[m]
                return self.canon(mk("cmp", o_, f.args[0], args[0]))
            if m in ("agg", "aggregate") and len(cargs) == 1 and not ckw and cargs[0].op == "const" \
                    and const_value(cargs[0]) in ("min", "max", "sum", "mean", "median", "std", "var", "count", "prod"):
                # x.agg("min") dispatches to x.min() (the *string* names the pandas reduction; a callable does not)
                return self.canon(mk("call", mk("attr", f.args[0], const_value(cargs[0])), (), ()))
            if m == "mask" and len(cargs) == 2 and not ckw:
                # df.mask(cond, value) is the value of df after `df[cond] = value` (on a copy)
                return self.canon(mk("upd", f.args[0], args[0], args[1]))
            name = METHOD_ALIASES.get(m)
            if name is None:
                return mk("mcall", m, recv, tuple(cargs), ckw)
            cargs = [recv] + cargs
        else:
            return mk("call", self.canon(f), tuple(cargs), ckw)
        # arithmetic spelled as a function
        if name in ARITH and len(cargs) == 2 and not ckw:
            return self._arith(name, cargs[0], cargs[1])
        if name == "neg" and len(cargs) == 1:
            return self._num(-self._as_rat(cargs[0]))
        if name == "square" and len(cargs) == 1:
            return self._num(self._as_rat(cargs[0]).pow(2))
        if name in TRANSPARENT_FN and len(cargs) == 1 and not ckw:
            return cargs[0]
        if name in ("array", "asarray") and len(cargs) == 1 and ckw and {k_ for k_, _v in ckw} <= {"dtype", "order", "copy"}:
            # np.array(x, dtype=np.result_type(x, ...), order="C"): the same values in a wider dtype / another memory layout
            dt = dict(ckw).get("dtype")
            if dt is None or (dt.op in ("fn", "call") and "result_type" in show(dt, maxdepth=2)[:40] and contains(dt, lambda s_: s_ is cargs[0])):
                return cargs[0]
        if name == "T" and self.transparent_T and len(cargs) == 1:
            return cargs[0]
        return mk("fn", name, *cargs, ckw) if ckw else mk("fn", name, *cargs)


def _is_boolean(t: T) -> bool:
    """the term is a bool whatever its operands are (comparison, negation, bool(), isinstance, and / or of those)"""
    if t.op in ("cmp", "not"):
        return t.op == "not" or t.args[0] not in ()
    if t is TRUE or t is FALSE:
        return True
    if t.op in ("and", "or"):
        return all(_is_boolean(x) for x in t.args[0])
    if t.op == "call" and t.args[0].op == "global" and t.args[0].args[0] in ("builtins.isinstance", "builtins.bool", "builtins.hasattr",
                                                                              "builtins.callable", "builtins.issubclass"):
        return True
    return False


def _lit(t: T):
    if t.op == "const":
        return True
    if t.op in ("tuple", "list"):
        return all(_lit(x) for x in t.args[0])
    return False


def _is_zero(t: T):
    return t.op == "const" and not isinstance(const_value(t), (str, type(None))) and const_value(t) == 0


def _negativity(c: T) -> int:
    if c.op in ("and", "or"):
        return sum(_negativity(x) for x in c.args[0])
    if c.op == "not":
        return 1
    if c.op == "cmp" and c.args[0] in ("!=", "is not", "not in"):
        return 1
    return 0


def _is_seq(t: T):
    if t.op in ("list", "tuple", "comp", "listappend", "listextend"):
        return True
    if t.op in ("or", "and"):
        return any(_is_seq(x) for x in t.args[0])
    if t.op == "ite":
        return _is_seq(t.args[1]) or _is_seq(t.args[2])
    if t.op == "fn" and t.args[0] in ("list", "sorted", "seqcat"):
        return True
    return False


def _is_str(t: T):
    return (t.op == "const" and isinstance(const_value(t), str)) or t.op in ("fstr",) or \
        (t.op == "fn" and t.args[0] in ("strcat", "str"))


def show_canon(t, maxdepth=10, depth=0) -> str:
    if isinstance(t, T) and t.op == "rat":
        return _show_rat(t.args[2].rat, maxdepth, depth)
    if isinstance(t, T) and t.op == "fn":
        return f"{t.args[0]}(" + ", ".join(show_canon(x, maxdepth, depth + 1) for x in t.args[1:]) + ")"
    if isinstance(t, T) and t.op == "mcall":
        return f"{show_canon(t.args[1], maxdepth, depth + 1)}.{t.args[0]}(" + ", ".join(
            show_canon(x, maxdepth, depth + 1) for x in t.args[2]) + (", " if t.args[2] and t.args[3] else "") + ", ".join(
            f"{k}={show_canon(v, maxdepth, depth + 1)}" for k, v in t.args[3]) + ")"
    if isinstance(t, T) and depth <= maxdepth and t.op in ("sub", "attr", "cmp", "ite", "upd", "and", "or", "not", "call"):
        s = lambda x: show_canon(x, maxdepth, depth + 1)  # noqa: E731
        a = t.args
        if t.op == "sub":
            return f"{s(a[0])}[{s(a[1])}]"
        if t.op == "attr":
            return f"{s(a[0])}.{a[1]}"
        if t.op == "cmp":
            return f"({s(a[1])} {a[0]} {s(a[2])})"
        if t.op == "ite":
            return f"ite({s(a[0])}, {s(a[1])}, {s(a[2])})"
        if t.op == "upd":
            return f"upd({s(a[0])}, {s(a[1])}, {s(a[2])})"
        if t.op in ("and", "or"):
            return "(" + f" {t.op} ".join(s(x) for x in a[0]) + ")"
        if t.op == "not":
            return f"not {s(a[0])}"
        if t.op == "call":
            return f"{s(a[0])}(" + ", ".join([s(x) for x in a[1]] + [f"{k}={s(v)}" for k, v in a[2]]) + ")"
    if isinstance(t, tuple):
        return "(" + ", ".join(show_canon(x, maxdepth, depth + 1) for x in t) + ")"
    if isinstance(t, T):
        return show(t, depth, maxdepth)
    return repr(t)


def _show_poly(p: Poly, maxdepth, depth):
    parts = []
    for m, c in sorted(p.terms.items(), key=lambda kv: tuple((a.uid, e) for a, e in kv[0])):
        fs = []
        for a, e in m:
            s = show_canon(a, maxdepth, depth + 1)
            fs.append(s if e == 1 else f"{s}^{e}")
        coef = str(c) if (c != 1 or not fs) else ""
        if c == -1 and fs:
            coef = "-"
        parts.append(coef + ("*" if coef not in ("", "-") and fs else "") + "*".join(fs))
    return " + ".join(parts) if parts else "0"


def _show_rat(r: Rat, maxdepth, depth):
    n = _show_poly(r.num, maxdepth, depth)
    if r.den.is_const() and r.den.const_value() == 1:
        return f"[{n}]"
    return f"[({n}) / ({_show_poly(r.den, maxdepth, depth)})]"


SHOW_HOOKS["rat"] = lambda t, maxdepth, depth: _show_rat(t.args[2].rat, maxdepth, depth)
SHOW_HOOKS["fn"] = lambda t, maxdepth, depth: show_canon(t, maxdepth, depth)
SHOW_HOOKS["mcall"] = lambda t, maxdepth, depth: show_canon(t, maxdepth, depth)
