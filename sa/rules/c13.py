"""C13 - multi-column grouping is collision-free (D-CODE + call-graph queries)."""
from __future__ import annotations

import ast

from ..codes import compose_replaces, uniquely_decodable
from ..terms import NONE, T, const, const_value, contains, glob, mk, show, subterms
from .common import (M_IT, M_IV, M_MOMENT, M_TO, M_UP, Analysis, arg, calls_to, is_str_const, kw, pc_literals)

GENERIC = "\u0001"  # stands for every character that no pattern / replacement / separator mentions


def _replace_chain(t: T, var: T):
    """t = var.replace(a,b).replace(c,d)... -> [(a,b),(c,d)] (innermost first) or None."""
    chain = []

    def lit(x):
        """a string constant, also when spelled as a constant expression (ESC * 2, ESC + SEP, f"\\{SEP}")"""
        if is_str_const(x):
            return const_value(x)
        if contains(x, lambda s_: s_.op in ("param", "elem", "loopvar", "attr", "call", "sub")):
            return None
        try:
            from ..region import concrete
            v = concrete(x, {})
        except Exception:  # noqa: BLE001 - not a constant expression of the modelled kind
            return None
        return v if isinstance(v, str) else None
    while t is not var:
        if t.op == "call" and t.args[0].op == "attr" and t.args[0].args[1] == "replace" and len(t.args[1]) == 2 \
                and not t.args[2] and all(lit(x) is not None for x in t.args[1]):
            chain.append((lit(t.args[1][0]), lit(t.args[1][1])))
            t = t.args[0].args[0]
        else:
            return None
    chain.reverse()
    return chain


def _identity_fast_path(A, core, fc):
    """core = ite(c, fast, slow) where c holds only if no element of the table contains any of the characters C (`not any(a in n or
    b in n for n in table...)`), slow escapes by n.replace(x, ..) for x in X with X a subset of C, and fast is slow with the escape
    left out: on the tables where fast is taken the escape is the identity, so both branches compute slow.  Returns slow, or None."""
    from ..terms import substitute
    c, t_, e_ = core.args
    lits = list(c.args[0]) if c.op == "and" else [c]
    tested = None
    negated = False
    for l in lits:
        inner = l.args[0] if l.op == "not" else None
        pos = l if l.op == "call" else None
        for cand, neg_ in ((inner, True), (pos, False)):
            if cand is not None and cand.op == "call" and cand.args[0] is glob("builtins.any") and len(cand.args[1]) == 1 \
                    and cand.args[1][0].op == "comp" and len(cand.args[1][0].args[2]) == 1 and not cand.args[1][0].args[2][0][1] \
                    and contains(cand.args[1][0].args[2][0][0], lambda s_: s_ is fc):
                g = cand.args[1][0]
                n = mk("elem", g.args[2][0][0])
                P = g.args[1]
                parts = list(P.args[0]) if P.op == "or" else [P]
                if all(x.op == "cmp" and x.args[0] == "in" and x.args[2] is n and is_str_const(x.args[1]) for x in parts):
                    tested = {A.C.canon(x.args[1]) for x in parts}
                    negated = neg_
    if tested is None:
        return None
    # `not any(..)` selects the then-branch as the fast one; `any(..)` the else-branch (only the single-literal form)
    if negated:
        fast, slow = t_, e_
    elif c.op == "call":
        fast, slow = e_, t_
    else:
        return None
    cur = slow
    for _ in range(6):
        mapping = {}
        for s_ in subterms(cur):
            if s_.op == "call" and s_.args[0].op == "attr" and s_.args[0].args[1] == "replace" and len(s_.args[1]) == 2 and not s_.args[2]:
                if A.C.canon(s_.args[1][0]) in tested:
                    mapping[s_] = s_.args[0].args[0]
                else:
                    return None      # the escape touches a character the table test does not look for
            if s_.op == "comp" and s_.args[0] == "list" and len(s_.args[2]) == 1 and not s_.args[2][0][1] and s_.args[1] is mk("elem", s_.args[2][0][0]):
                mapping[s_] = s_.args[2][0][0]     # [x for x in xs] read as an iterable is xs
        if not mapping:
            break
        cur = substitute(cur, mapping)
    return slow if (cur is not slow and A.eq(cur, fast)) else None


def check(ctx):
    ctx.rule("R13.1", "the escape-then-join scheme of _merge_columns is uniquely decodable for every arity (exact "
                      "decision: Sardinas-Patterson on the code {h(c)} + {separator})")
    ctx.rule("R13.2", "rows are compared as strings: the column block is converted with astype(str) before the join")
    ctx.rule("R13.3", "sensitive and control features with more than one column reach _merge_columns through the shared "
                      "validator (same test at fit and predict time); no other function joins feature columns")
    ctx.rule("R13.4", "ThresholdOptimizer keys its interpolation table by the group-by keys of the merged column and "
                      "selects rows at predict time by equality with the same key")
    ctx.rule("R13.5", "the control/event combination is injective: the event is the comma-free suffix")
    A = Analysis(ctx)
    fq = M_IV + ":_merge_columns"
    r = A.run(fq)
    fc = r.params["feature_columns"]
    ret = r.ret
    # shape: np.array([join(row) for row in X.astype(str)])
    ok_shape = False
    chain = sep = None
    why = "result is not array([SEP.join([escape(name) for name in row]) for row in columns.astype(str)])"
    rows_iter = None
    row = key_t = None
    violated = None
    dedup_rows = False
    core = ret
    while core is not None and core.op == "assume":
        core = core.args[1]
    # a mode argument: the encoding of a tuple must not depend on anything but the tuple.  If the result depends on a further
    # parameter, every caller has to pass the same constant (or nothing); a value computed from the table at hand (e.g. "does any
    # value contain the separator") makes fit-time and predict-time keys of the same tuple differ
    extra = {t: n_ for n_, t in r.params.items() if t is not fc}
    if ret is not None and extra and contains(ret, lambda s_: s_ in extra):
        Av = Analysis(ctx, no_inline=[fq], max_depth=1)
        rv = Av.run(M_IV + ":_validate_and_reformat_input")
        for cs in calls_to(rv, fq):
            given = list(cs.data["args"][1:]) + [v for k_, v in cs.data["kwargs"] if k_ != "feature_columns"]
            nonconst = [g for g in given if g.op != "const"]
            if nonconst:
                violated = ("the merged name of a value tuple depends on a per-call argument computed at run time (" +
                            show(nonconst[0], maxdepth=3)[:60] + "): the same tuple is keyed differently in two calls (fit vs. predict), "
                            "so rows no longer group by tuple equality across calls")
                break
    # gather through np.unique:  merged_of_distinct_rows[inverse]  - sound only when the uniqueness key identifies the tuple
    if core is not None and core.op == "sub" and core.args[1].op == "sub" and core.args[1].args[0].op == "call" \
            and core.args[1].args[0].args[0] is glob("numpy.unique"):
        u = core.args[1].args[0]
        key_arr = u.args[1][0] if u.args[1] else None
        by_rows = dict(u.args[2]).get("axis") is const(0) and key_arr is not None and (
            key_arr is fc or (key_arr.op == "call" and key_arr.args[0].op == "attr" and key_arr.args[0].args[1] == "astype" and key_arr.args[0].args[0] is fc))
        if by_rows:
            core = core.args[0]
            dedup_rows = True
        else:
            violated = ("rows are de-duplicated with np.unique over " + (show(key_arr, maxdepth=3)[:60] if key_arr is not None else "?") +
                        ", which does not identify the value tuple (e.g. a plain concatenation of the columns): different tuples with "
                        "the same key share one merged name")
    if violated is None and core is not None and core.op == "ite" and contains(core.args[0], lambda s: s is fc):
        same = _identity_fast_path(A, core, fc)
        if same is not None:
            core = same    # the branch without escaping is taken only when escaping changes nothing: one encoding after all
    if violated is None and core is not None and core.op == "ite" and contains(core.args[0], lambda s: s is fc):
        violated = ("the encoding is chosen by a test on the whole table (" + show(core.args[0], maxdepth=3)[:80] + "): the same value "
                    "tuple can be keyed differently in two calls (fit vs. predict), so rows no longer group by tuple equality")
    inner_arr = None
    if violated is None and core is not None and core.op == "call" and core.args[0].op == "global" \
            and core.args[0].args[0] in ("numpy.array", "numpy.asarray") and core.args[1]:
        inner_arr = core.args[1][0]
    elif violated is None and core is not None and core.op in ("comp", "loopout"):
        inner_arr = core
    if inner_arr is not None and inner_arr.op == "comp":
        body, gens = inner_arr.args[1], inner_arr.args[2]
        if len(gens) == 1:
            if gens[0][1]:
                violated = "rows are filtered while merging (the result no longer has one key per row)"
            rows_iter = gens[0][0]
            row = mk("elem", rows_iter)
            key_t = body
    elif inner_arr is not None and inner_arr.op == "loopout" and inner_arr.args[2].op == "list" and not inner_arr.args[2].args[0]:
        # explicit loop:  out = []; for row in rows: out.append(key(row))
        vals = inner_arr.args[3]
        if len(vals) == 1 and vals[0].op == "listappend" and vals[0].args[0].op == "loopvar":
            key_t = vals[0].args[1]
            lk = inner_arr.args[1]
            if lk.op == "elem":
                row = lk
                rows_iter = lk.args[0]
            if contains(key_t, lambda s_: s_.op in ("loopvar", "loopout") and s_ is not vals[0].args[0]):
                violated = ("the key of a row depends on state carried over from earlier rows (a cache / accumulator): two different "
                            "value tuples can receive the same key")
    # memo table:  cache[k] = key(row) if k not in cache; key = cache[k]   - sound only if k itself identifies the tuple
    if violated is None and key_t is not None and row is not None and key_t.op == "sub":
        kk = key_t.args[1]
        ups = [x for x in subterms(key_t.args[0]) if x.op == "upd" and x.args[1] is kk]
        if ups:
            plain = kk.op == "call" and kk.args[0].op == "attr" and kk.args[0].args[1] == "join" and len(kk.args[1]) == 1 and kk.args[1][0] is row
            identity = kk is row or (kk.op == "call" and kk.args[0].op == "global" and kk.args[0].args[0] in ("builtins.tuple",) and kk.args[1][0] is row)
            if identity:
                key_t = ups[0].args[2]
            else:
                violated = ("merged names are looked up in a cache keyed by " + ("the un-escaped join of the row" if plain else
                            show(kk, maxdepth=3)[:60]) + ": two different value tuples with the same cache key share one merged name")
    # the same through a preallocated result filled row by row:  out = np.empty(n, dtype="U.."); for i, row in ...: out[i] = key(row)
    if violated is None and core is not None and core.op == "loopout" and isinstance(core.args[2], T) and core.args[2].op == "call" \
            and core.args[2].args[0].op == "global" and core.args[2].args[0].args[0] in ("numpy.empty", "numpy.zeros", "numpy.full", "numpy.ndarray",
                                                                                         "numpy.empty_like", "numpy.zeros_like", "numpy.full_like"):
        pre = core.args[2]
        dt = dict(pre.args[2]).get("dtype")
        if pre.args[0].args[0].endswith("_like") and dt is None:
            dt = const("<dtype of " + show(pre.args[1][0], maxdepth=2)[:30] + ">") if pre.args[1] else None
        if dt is not None and not (dt.op == "global" and dt.args[0] in ("builtins.object", "numpy.object_")) \
                and not (dt.op == "const" and const_value(dt) in ("object", "O")):
            violated = ("the merged names are written into a preallocated array of fixed-width elements (dtype=" + show(dt, maxdepth=3)[:40] +
                        "): a name longer than the width (escaping adds characters) is cut, so distinct tuples collide")
    # a fixed-width string array silently truncates long merged names
    if violated is None and core is not None and core.op == "call" and core.args[0].op == "global" \
            and core.args[0].args[0] in ("numpy.array", "numpy.asarray", "numpy.fromiter", "numpy.empty", "numpy.full"):
        dt = dict(core.args[2]).get("dtype") if len(core.args) > 2 else None
        if dt is None and core.args[0].args[0] == "numpy.fromiter" and len(core.args[1]) > 1:
            dt = core.args[1][1]
        if dt is not None and not (dt.op == "global" and dt.args[0] in ("builtins.object", "builtins.str", "numpy.object_", "numpy.str_")) \
                and not (dt.op == "const" and const_value(dt) in ("object", "O", "str", "U")):
            violated = ("the merged names are stored in an array of fixed-width strings (dtype=" + show(dt, maxdepth=3)[:40] + "): a name "
                        "longer than the width (escaping adds characters) is cut, so distinct tuples collide and the key of a tuple "
                        "depends on the other rows of the table")
        elif core.args[0].args[0] == "numpy.fromiter" and core.args[1] and core.args[1][0].op == "comp" and inner_arr is None:
            inner_arr = core.args[1][0]
    if violated is None and key_t is not None and row is not None:
        body = key_t
        if body.op == "call" and body.args[0].op == "attr" and body.args[0].args[1] == "join" and is_str_const(body.args[0].args[0]) \
                and len(body.args[1]) == 1 and body.args[1][0].op == "comp":
            sep = const_value(body.args[0].args[0])
            inner = body.args[1][0]
            ibody, igens = inner.args[1], inner.args[2]
            if len(igens) == 1 and igens[0][0] is row:
                if igens[0][1]:
                    violated = ("components are filtered out before joining (" + show(igens[0][1][0], maxdepth=2)[:40] + "): the position of "
                                "a value in the tuple is lost, so different tuples merge into the same key")
                else:
                    name = mk("elem", row)
                    chain = _replace_chain(ibody, name)
                    ok_shape = chain is not None
    if violated is not None:
        ctx.ob("R13.1", fq, None, False, violated, construct="merge scheme")
    elif not ok_shape:
        ctx.ob("R13.1", fq, None, None, why + f" (found {show(ret, maxdepth=5)[:200]})", construct="merge scheme")
    if violated is not None or not ok_shape:
        chain = None
    # R13.1
    if chain is None:
        pass
    elif any(len(p) != 1 for p, _ in chain) or len(sep) != 1:
        ctx.ob("R13.1", fq, None, None, "patterns / separator longer than one character are not modelled", construct="merge scheme")
    else:
        alphabet = sorted({c for p, rep in chain for c in p + rep} | set(sep) | {GENERIC})
        img = compose_replaces(chain, alphabet)
        code = list(img.values()) + [sep]
        ok, wit = uniquely_decodable(code)
        ctx.exhaustive_spaces.append(f"merge code over {len(alphabet)} character classes + separator: Sardinas-Patterson")
        pretty = {("<other>" if k == GENERIC else k): v for k, v in img.items()}
        ctx.ob("R13.1", fq, None, ok,
               f"escape chain {chain} with separator {sep!r} gives the code {pretty} + {sep!r}, which is uniquely decodable"
               if ok else f"escape chain {chain} with separator {sep!r} gives the code {pretty} + {sep!r}: {wit}; two different "
               "value tuples merge into the same key", construct="merge code uniquely decodable")
    # R13.2
    want = mk("call", mk("attr", fc, "astype"), (glob("builtins.str"),), ())
    ok = rows_iter is want or (dedup_rows and rows_iter is not None and rows_iter.op == "sub" and rows_iter.args[0] is want)
    if rows_iter is not None:
        ctx.ob("R13.2", fq, None, ok, "rows are stringified with astype(str) before merging" if ok else
               f"rows iterate over {show(rows_iter, maxdepth=3)[:80]}, not the stringified block", construct="astype(str)")
    r133_merge_test(ctx, "R13.3")
    val = M_IV + ":_validate_and_reformat_input"
    # who calls _merge_columns / who joins strings
    callers = set()
    joiners = set()
    for f in ctx.prog.functions.values():
        mod = ctx.prog.modules[f.module]
        if not any(f.module.startswith(p) for p in ("fairlearn.utils", "fairlearn.reductions", "fairlearn.postprocessing")):
            continue
        for node in ast.walk(f.node):
            if isinstance(node, ast.Call):
                if ctx.prog.resolve_expr_name(mod, node.func) == fq:
                    callers.add(f.fq)
                if isinstance(node.func, ast.Attribute) and node.func.attr == "join" and f.parent_func is None \
                        and f.cls is None or (isinstance(node.func, ast.Attribute) and node.func.attr == "join"):
                    joiners.add(f.fq.split(".<locals>")[0])
    # a helper extracted from the validator (a function that did not exist when the rule was written) stands for its own callers
    def _lift(cs, depth=0):
        out_ = set()
        for c_ in cs:
            if ctx.prog.is_new_helper(c_.split(".<locals>")[0]) and depth < 4:
                ups = set()
                for g_ in ctx.prog.functions.values():
                    gm = ctx.prog.modules[g_.module]
                    if any(isinstance(n_, ast.Call) and ctx.prog.resolve_expr_name(gm, n_.func) == c_ for n_ in ast.walk(g_.node)):
                        ups.add(g_.fq)
                out_ |= _lift(ups - {c_}, depth + 1) if ups else {c_}
            else:
                out_.add(c_)
        return out_
    callers = {c_.split(".<locals>")[0] for c_ in _lift(callers)}   # a nested function belongs to the function that defines it
    # a join helper hoisted out of _merge_columns (a new function called only from it) is part of it
    lifted = set()
    for j_ in joiners:
        lj = _lift({j_}) if ctx.prog.is_new_helper(j_) else {j_}
        lifted |= {x_.split(".<locals>")[0] for x_ in lj}
    joiners = lifted
    ctx.ob("R13.3", fq, None, callers == {val}, f"_merge_columns is called only from the shared validator (callers: "
           f"{sorted(c.split(':')[1] for c in callers)})", construct="merge callers")
    other = {j for j in joiners if j != fq}
    ctx.ob("R13.3", fq, None, not other, "no other function of utils / reductions / postprocessing joins strings" if not other
           else f"string joins outside _merge_columns: {sorted(other)}", construct="no second join scheme")
    # fit and predict of the thresholder both go through the validator with the raw features
    At = Analysis(ctx, no_inline=[val])
    n = 0
    for ep, cls in ((M_TO + ":ThresholdOptimizer.fit", M_TO + ":ThresholdOptimizer"),
                    (M_IT + ":InterpolatedThresholder._pmf_predict", M_IT + ":InterpolatedThresholder")):
        rr = At.run(ep, cls_ctx=cls)
        vs = calls_to(rr, val)
        ok = bool(vs) and kw(vs[0], "sensitive_features") is rr.params["sensitive_features"]
        n += bool(vs)
        ctx.ob("R13.3", ep, vs[0].node if vs else None, ok, "the caller's sensitive features go through the shared "
               "validator (hence the same merge)", construct="thresholder uses validator")
        if ep.endswith("_pmf_predict") and vs:
            _r134_predict(ctx, At, rr, vs[0])
    ctx.floor("R13.3", "thresholder entry points using the validator", n, 2)
    ctx.guard(_r134_fit, ctx)
    ctx.guard(_r135, ctx)


def _r134_predict(ctx, A, r, vcall):
    sfv = mk("sub", vcall.data["result"], const(2))
    stores = [e for e in r.events if e.kind == "store" and e.data["tkind"] == "sub" and e.loops]
    sel = [e for e in stores if e.data["key"].op == "cmp"]
    ctx.floor("R13.4", "masked stores in _pmf_predict", len(sel), 1)
    for e in sel:
        key = e.data["key"]
        lev = [x for x in r.events if x.kind == "loop" and x.data.get("lid") == e.loops[-1]][0]
        a = mk("sub", lev.data["elem"], const(0))
        it = lev.data["iter"]
        ok_iter = it.op == "call" and it.args[0].op == "attr" and it.args[0].args[1] == "items" and \
            A.eq(it.args[0].args[0], A.entry(r, "self.interpolation_dict"))
        ok = key.args[0] == "==" and {key.args[1], key.args[2]} == {sfv, a}
        v = e.data["value"]
        ok_v = v.op == "sub" and v.args[1] is key
        ctx.ob("R13.4", r.func, e.node, ok and ok_iter and ok_v, "rows are selected by equality of the merged sensitive "
               "feature with the interpolation-table key, on both sides of the assignment", construct="predict-time selection")


def _r134_fit(ctx):
    A = Analysis(ctx, max_depth=3)
    cls = M_TO + ":ThresholdOptimizer"
    n = 0
    for m in ("_threshold_optimization_for_simple_constraints", "_threshold_optimization_for_equalized_odds"):
        r = A.run(f"{cls}.{m}", cls_ctx=cls)
        st = [e for e in r.events if e.kind == "store" and e.data["tkind"] == "sub" and e.func == r.func
              and isinstance(e.data.get("base_node"), ast.Attribute) and e.data["base_node"].attr == "_tradeoff_curve"]
        ok1 = bool(st)
        for e in st:
            k = e.data["key"]
            ok1 = ok1 and k.op == "sub" and k.args[0].op == "elem" and k.args[1] is const(0) and contains(
                k.args[0].args[0], lambda s: s.op == "call" and s.args[0].op == "attr" and s.args[0].args[1] == "groupby")
        dict_st = [e for e in r.events if e.kind == "store" and e.data["tkind"] == "sub" and e.func == r.func
                   and isinstance(e.data.get("base_node"), ast.Name) and e.data["value"].op == "call"
                   and e.data["value"].args[0] is glob("sklearn.utils.Bunch")]
        ok2 = bool(dict_st)
        for e in dict_st:
            k = e.data["key"]
            # `for k in curves.keys()`  or  `for k, curve in curves.items()`
            k_it = k.args[0].args[0] if (k.op == "sub" and k.args[0].op == "elem" and k.args[1] is const(0)) else \
                (k.args[0] if k.op == "elem" else None)
            ok2 = ok2 and k_it is not None and k_it.op == "call" and k_it.args[0].op == "attr" and \
                k_it.args[0].args[1] == ("items" if k.op == "sub" else "keys")
        n += 1
        ctx.ob("R13.4", r.func, st[0].node if st else None, ok1 and ok2, "per-group curves are keyed by the group-by key "
               "and the interpolation table by the keys of those curves", construct=f"{m} keys")
    ctx.floor("R13.4", "optimisation routines", n, 2)
    # grouping column of _reformat_and_group_data is the sensitive-feature column
    r = A.run(M_TO + ":_reformat_and_group_data")
    g = [e for e in r.events if e.kind == "call" and e.data["fterm"].op == "attr" and e.data["fterm"].args[1] == "groupby"]
    ok = bool(g) and arg(g[0], 0, "by") is not None and A.eq(arg(g[0], 0, "by"), A.entry(r, "SENSITIVE_FEATURE_KEY if sensitive_feature_names is None else sensitive_feature_names[0]"))
    ctx.ob("R13.4", r.func, g[0].node if g else None, ok, "the training frame is grouped by the (merged) sensitive-feature "
           "column", construct="groupby column")


def _r135(ctx):
    A = Analysis(ctx)
    r = A.run(M_UP + ":_combine_event_and_control")
    fm = [e for e in r.events if e.kind == "call" and e.data["fterm"].op == "attr" and e.data["fterm"].args[1] == "format"
          and is_str_const(e.data["fterm"].args[0])]
    ctx.floor("R13.5", "format calls in the combiner", len(fm), 1)
    events = [const_value(A.ev.eval_src("_ALL", {}, module=M_MOMENT)), const_value(A.ev.eval_src("_LABEL", {}, module=M_MOMENT)) + "="]
    for e in fm:
        s = const_value(e.data["fterm"].args[0])
        ok = False
        why = "format is not '<prefix>{0}<sep>{1}' with the event last"
        if "{0}" in s and "{1}" in s and s.index("{0}") < s.index("{1}") and s.endswith("{1}"):
            sep_ = s[s.index("{0}") + 3: s.index("{1}")]
            args = e.data["args"]
            ok = bool(sep_) and len(args) == 2 and args[0] is r.params["control"] and args[1] is r.params["event"] \
                and not any(sep_ in ev_ for ev_ in events)
            why = f"separator {sep_!r} occurs in an event name {events}" if not ok else ""
        ctx.ob("R13.5", r.func, e.node, ok, f"stratified event '{s}': the event is the suffix after the last {sep_!r} and "
               f"event names {events}+digits never contain it, so (control, event) is recovered uniquely" if ok else why,
               construct="control/event code")


def r133_merge_test(ctx, rule):
    """the validator merges a feature block exactly when it has more than one column (a single-column 2-d block is the
    1-d vector: its labels are not stringified), for both the sensitive and the control features"""
    fq = M_IV + ":_merge_columns"
    if rule != "R13.3":
        ctx.rule(rule, "a single-column 2-d feature block is treated like the 1-d vector: the validator merges (and thereby "
                       "stringifies) a block exactly under `ndim > 1 and shape[1] > 1` (shared with C13 R13.3)")
    Av = Analysis(ctx, no_inline=[fq])
    val = M_IV + ":_validate_and_reformat_input"
    rv = Av.run(val)
    merges = calls_to(rv, fq)
    ctx.floor(rule, "calls of _merge_columns in the validator", len(merges), 2)
    feats = {}
    for key in ("_KW_SENSITIVE_FEATURES", "_KW_CONTROL_FEATURES"):
        f = Av.entry(rv, f"kwargs.get({key})")
        feats[key] = f
    for key, f in feats.items():
        mine = [m for m in merges if contains(arg(m, 0), lambda s: s is f)]
        ok = False
        if mine:
            m = mine[0]
            x = arg(m, 0)
            cond = Av.C.canon(m.pc[-1])
            want = Av.C.canon(Av.spec("len(x.shape) > 1 and x.shape[1] > 1", {"x": x, "len": glob("builtins.len")}))
            ok = cond is want and x.op == "call" and x.args[0] is glob("sklearn.utils.validation.check_array")
            # the merged value replaces the feature
            ok = ok and any(e.kind == "store" and e.seq > m.seq and e.data.get("value") is m.data["result"] for e in rv.events)
        ctx.ob(rule, val, mine[0].node if mine else None, ok, f"{key[4:].lower()}: a block with more than one column is "
               "merged (after check_array) under exactly the `ndim > 1 and shape[1] > 1` test", construct=f"merge of {key}")
