"""Shared helpers for the per-property rule modules."""
from __future__ import annotations

import ast

from ..alg import Canon
from ..model import AnalysisError
from ..terms import (FALSE, NONE, TRUE, Evaluator, Event, Result, State, T, const, const_value, contains, glob, mk,
                     show, subterms)

M_MOM = "fairlearn.reductions._moments"
M_UP = M_MOM + ".utility_parity"
M_ER = M_MOM + ".error_rate"
M_BGL = M_MOM + ".bounded_group_loss"
M_MOMENT = M_MOM + ".moment"
M_IV = "fairlearn.utils._input_validation"
M_IM = "fairlearn.utils._input_manipulations"
M_LAG = "fairlearn.reductions._exponentiated_gradient._lagrangian"
M_EG = "fairlearn.reductions._exponentiated_gradient.exponentiated_gradient"
M_GS = "fairlearn.reductions._grid_search.grid_search"
M_GG = "fairlearn.reductions._grid_search._grid_generator"
M_TO = "fairlearn.postprocessing._threshold_optimizer"
M_IT = "fairlearn.postprocessing._interpolated_thresholder"
M_TC = "fairlearn.postprocessing._tradeoff_curve_utilities"
M_TOP = "fairlearn.postprocessing._threshold_operation"
M_MF = "fairlearn.metrics._metric_frame"
M_DR = "fairlearn.metrics._disaggregated_result"
M_AMF = "fairlearn.metrics._annotated_metric_function"
M_GF = "fairlearn.metrics._group_feature"
M_BM = "fairlearn.metrics._base_metrics"
M_FM = "fairlearn.metrics._fairness_metrics"
M_MDM = "fairlearn.metrics._make_derived_metric"
M_GM = "fairlearn.metrics._generated_metrics"
M_BS = "fairlearn.metrics._bootstrap"
M_CR = "fairlearn.preprocessing._correlation_remover"
M_ADV = "fairlearn.adversarial._adversarial_mitigation"
M_PT = "fairlearn.adversarial._pytorch_engine"
M_TF = "fairlearn.adversarial._tensorflow_engine"
M_BE = "fairlearn.adversarial._backend_engine"
M_PRE = "fairlearn.adversarial._preprocessor"


class Analysis:
    """One evaluator + one canonicaliser, bound to a RuleContext."""

    def __init__(self, ctx, inline=None, max_depth=4, no_inline=(), transparent_T=False):
        self.ctx = ctx
        self.prog = ctx.prog
        no_inline = set(no_inline)
        pol = inline
        if no_inline:
            def pol(fq, depth, _u=inline):  # noqa: E731
                if fq in no_inline:
                    return False
                return _u(fq, depth) if _u else True
        self.ev = Evaluator(ctx.prog, max_depth=max_depth, inline=pol)
        self.C = Canon(transparent_T=transparent_T)

    def run(self, fq: str, cls_ctx=None, args=None) -> Result:
        self.ctx.prog.func(fq)
        r = self.ev.run(fq, cls_ctx=cls_ctx, args=args)
        # detach the event list (the evaluator reuses its buffer)
        r.events = list(r.events)
        self.ctx.analysed(r)
        return r

    # ---- evaluate source text at a site
    def at(self, where, src: str, extra: dict | None = None) -> T:
        """Evaluate expression text in the state of an event (locals + heap of that program point)."""
        if isinstance(where, Event):
            st, mod, cls_ctx, self_term = where.state, where.func.split(":")[0], where.cls_ctx, where.self_term
        else:
            st, mod, cls_ctx, self_term = where
        b = dict(st.loc)
        if self_term is not None and "self" not in b:
            b["self"] = self_term   # an event inside a module-level helper extracted from a method (attributed to that method)
        if extra:
            b.update(extra)
        return self.ev.eval_src(src, b, module=mod, cls_ctx=cls_ctx, self_term=self_term, heap=st.heap)

    def entry(self, r: Result, src: str, extra=None, cls_ctx=None) -> T:
        """Evaluate expression text over the *entry* state of an analysed function (parameters only)."""
        mod = r.func.split(":")[0]
        b = dict(r.params)
        if extra:
            b.update(extra)
        fi = self.prog.functions[r.func]
        return self.ev.eval_src(src, b, module=mod, cls_ctx=cls_ctx or fi.cls, self_term=r.self_term, heap={})

    def spec(self, src: str, roles: dict, module=None) -> T:
        return self.ev.eval_src(src, dict(roles), module=module)

    # ---- comparisons
    def eq(self, a: T, b: T) -> bool:
        return self.C.equal(a, b)

    def any_eq(self, a: T, specs) -> bool:
        return any(self.C.equal(a, s) for s in specs)

    def show(self, t: T, n=400) -> str:
        return self.C.show(t, maxdepth=8)[:n]

    def formula(self, rule, func_fq, node, code: T, specs, what: str, construct=None):
        """Obligation: the code's value number equals (one of) the specification's."""
        if not isinstance(specs, (list, tuple)):
            specs = [specs]
        ok = self.any_eq(code, specs)
        expl = (f"{what}: value number matches the specification" if ok else
                f"{what}: code computes {self.show(code, 300)} but the documented form is {self.show(specs[0], 300)}")
        return self.ctx.ob(rule, func_fq, node, ok, expl, construct=construct if construct is not None else what)


# ----------------------------------------------------------------------------- event queries


def pc_literals(pc):
    """Flatten a path condition into a set of literals (conjunctions are split)."""
    out = []
    for c in pc:
        if c.op == "and":
            out.extend(c.args[0])
        else:
            out.append(c)
    return out


def dominates(a: Event, b: Event) -> bool:
    """Event a happens on every path that reaches event b (within one walk): a precedes b and a's path
    condition is a prefix-subset of b's."""
    if a.seq >= b.seq:
        return False
    sb = {x.uid for x in b.pc}
    return all(x.uid in sb for x in a.pc)


def stores_attr(r: Result, attr: str, obj=None):
    return [e for e in r.events if e.kind == "store" and e.data.get("tkind") == "attr" and e.data.get("attr") == attr
            and (obj is None or e.data.get("obj") is obj)]


def calls_to(r: Result, name: str = None, method: str = None, pred=None):
    """Call events by resolved callee name ('numpy.asarray', 'module:func') or by method name."""
    out = []
    for e in r.events:
        if e.kind != "call":
            continue
        if name is not None and e.data.get("callee") != name:
            continue
        if method is not None:
            f = e.data.get("fterm")
            if not (f is not None and f.op in ("attr",) and f.args[1] == method) and not (
                    f is not None and f.op == "boundmethod" and f.args[1].endswith("." + method)):
                continue
        if pred is not None and not pred(e):
            continue
        out.append(e)
    return out


def kw(e: Event, name: str, default=None):
    for k, v in e.data.get("kwargs", ()):
        if k == name:
            return v
    # the same argument passed by position to an external callable with a known signature (alg.EXT_SIGS)
    from ..alg import EXT_SIGS
    sig = EXT_SIGS.get(e.data.get("callee") or "")
    if sig and name in sig:
        i = sig.index(name)
        a = e.data.get("args", ())
        if i < len(a):
            return a[i]
    ps = _repo_params(e)   # ... or to an in-repo function
    if ps and name in ps:
        i = ps.index(name)
        a = e.data.get("args", ())
        if i < len(a):
            return a[i]
    return default


def _repo_params(e: Event):
    """positional parameter names of an in-repo callee as the call site sees them (without self for a bound method)"""
    from ..alg import REPO_SIGS
    callee = e.data.get("callee") or ""
    sig = REPO_SIGS.get(callee)
    if sig is None and e.data.get("constructs"):
        sig = REPO_SIGS.get(e.data["constructs"] + ".__init__")
        return list(sig[1:]) if sig else None
    if sig is None:
        return None
    f = e.data.get("fterm")
    bound = e.data.get("recv") is not None or (f is not None and f.op in ("boundmethod", "attr"))
    return list(sig[1:]) if (bound and sig and sig[0] in ("self", "cls")) else list(sig)


def arg(e: Event, i: int, name: str = None, default=None):
    """The i-th argument of a call, wherever it was written: by position, or by the keyword of that position (given as `name`,
    or read off the signature of an in-repo callee)."""
    a = e.data.get("args", ())
    if i is not None and i < len(a):
        return a[i]
    if name is not None:
        return kw(e, name, default)
    if i is not None:
        ps = _repo_params(e)
        if ps and i < len(ps):
            for k, v in e.data.get("kwargs", ()):
                if k == ps[i]:
                    return v
    return default


def is_str_const(t: T, value=None):
    return t.op == "const" and isinstance(const_value(t), str) and (value is None or const_value(t) == value)


def mentions(t: T, sub: T) -> bool:
    return any(x is sub for x in subterms(t))


def fn_qual(fq: str) -> str:
    return fq.split(":", 1)[1]


STRIP_FUNCS = ("numpy.asarray", "numpy.array", "numpy.asanyarray", "numpy.ravel", "numpy.squeeze", "numpy.concatenate", "numpy.stack",
               "numpy.hstack", "numpy.vstack", "builtins.list", "builtins.tuple", "numpy.fromiter", "numpy.ascontiguousarray")
STRIP_ATTRS = ("values", "array", "iloc", "iat", "_values")
STRIP_METHODS = ("to_numpy", "tolist", "to_list", "ravel", "flatten", "reset_index", "item")


def label_strips(t: T, source: T):
    """Sub-terms of t that take the labelled value `source` (or a label-preserving selection of it) out of its labels:
    np.asarray(x) / x.values / x.iloc[...] / x.to_numpy() / list(x) ...   A stripped value that is put straight back under
    the same labels -- pandas.Series(strip(x), index=x.index) -- is exempt."""
    from ..terms import subterms as _sub

    def selects(x, depth=0):  # x is source, a selection / copy of it, or label-preserving arithmetic on it (source / other, ite)
        while True:
            if x is source:
                return True
            if depth < 6 and x.op == "binop":
                return selects(x.args[1], depth + 1) or selects(x.args[2], depth + 1)
            if depth < 6 and x.op == "ite":
                return selects(x.args[1], depth + 1) or selects(x.args[2], depth + 1)
            if depth < 6 and x.op == "unop":
                return selects(x.args[1], depth + 1)
            if x.op == "sub":
                x = x.args[0]
            elif x.op == "attr" and x.args[1] in ("loc", "at", "T"):
                x = x.args[0]
            elif x.op == "call" and x.args[0].op == "attr" and x.args[0].args[1] in ("copy", "astype", "sort_index", "fillna") :
                x = x.args[0].args[0]
            elif x.op in ("assume",):
                x = x.args[1]
            else:
                return False

    def is_strip(x):
        if x.op == "attr" and x.args[1] in STRIP_ATTRS and selects(x.args[0]):
            return True
        if x.op == "call":
            f = x.args[0]
            if f.op == "global" and f.args[0] in STRIP_FUNCS and x.args[1] and any(selects(a) or (a.op in ("list", "tuple") and any(
                    isinstance(el, T) and selects(el) for el in a.args[0])) for a in x.args[1] if isinstance(a, T)):
                return True
            if f.op == "attr" and f.args[1] in STRIP_METHODS and selects(f.args[0]):
                return True
        return False

    exempt = set()
    for x in _sub(t):
        if x.op == "call" and x.args[0].op == "global" and x.args[0].args[0] in ("pandas.Series", "pandas.DataFrame") and x.args[1]:
            idx = dict(x.args[2]).get("index") if len(x.args) > 2 else None
            if idx is not None and idx.op == "attr" and idx.args[1] == "index" and selects(idx.args[0]) and is_strip(x.args[1][0]):
                exempt.add(x.args[1][0].uid)
    return [x for x in _sub(t) if is_strip(x) and x.uid not in exempt]


def zero_over_runtime(t: T):
    """Sub-terms 0 / x (literal zero numerator, non-constant denominator): algebraically 0 like 0 * x, but NaN where x == 0."""
    from ..terms import subterms as _sub, const_value as _cv
    out = []
    for s in _sub(t):
        if s.op == "binop" and s.args[0] in ("/", "//") and s.args[1].op == "const" and isinstance(_cv(s.args[1]), (int, float)) \
                and not isinstance(_cv(s.args[1]), bool) and _cv(s.args[1]) == 0 and s.args[2].op != "const":
            out.append(s)
    return out


VIEW_FUNCS = ("numpy.asarray", "numpy.asanyarray", "numpy.squeeze", "numpy.ravel", "numpy.reshape", "numpy.atleast_1d", "numpy.atleast_2d",
              "numpy.transpose", "numpy.ascontiguousarray", "numpy.require", "numpy.asfortranarray", "numpy.asarray_chkfinite",
              "numpy.expand_dims", "numpy.broadcast_to", "numpy.moveaxis", "numpy.swapaxes", "numpy.diagonal")
VIEW_ATTRS = ("values", "T", "array", "real")
VIEW_METHODS = ("squeeze", "ravel", "reshape", "view", "transpose", "to_numpy", "swapaxes")


INPLACE_METHODS = ("sort", "fill", "resize", "put", "itemset", "partition", "setflags", "append", "extend", "insert", "pop", "popitem",
                   "clear", "update", "setdefault", "remove", "reverse", "add", "discard", "byteswap")
INPLACE_FUNCS = ("numpy.random.shuffle", "random.shuffle", "numpy.put", "numpy.place", "numpy.putmask", "numpy.copyto",
                 "numpy.fill_diagonal", "numpy.put_along_axis")


def may_alias(t: T, is_root) -> bool:
    """Can t be (a view of) a value the function did not create?  Follows numpy / pandas operations that return the same
    buffer (asarray without a dtype change, squeeze, reshape, .values, .T ...) down to a root accepted by is_root."""
    seen = 0
    stack = [t]
    while stack and seen < 64:
        x = stack.pop()
        seen += 1
        if is_root(x):
            return True
        if x.op in ("assume",):
            stack.append(x.args[1])
        elif x.op == "ite":
            stack.extend([x.args[1], x.args[2]])
        elif x.op == "loopvar" and len(x.args) >= 3 and isinstance(x.args[2], T):
            stack.append(x.args[2])
        elif x.op == "attr" and x.args[1] in VIEW_ATTRS:
            stack.append(x.args[0])
        elif x.op == "call" and x.args[0].op == "global" and x.args[0].args[0] in VIEW_FUNCS and x.args[1]:
            stack.append(x.args[1][0])
        elif x.op == "call" and x.args[0].op == "attr" and x.args[0].args[1] in VIEW_METHODS:
            stack.append(x.args[0].args[0])
        elif x.op == "sub" and x.args[1].op == "slice":
            stack.append(x.args[0])
    return False


def inplace_updates_of_foreign_values(r: Result, is_root, prog=None):
    """`x op= e` on a local name (ndarray.__iop__ updates the buffer) and `x[k] = v` where x may alias a value the function did
    not create.  Returns [(event, description)]."""
    import ast as _ast
    out = []
    for e in r.events:
        if e.kind != "store":
            continue
        if e.data.get("tkind") == "name" and isinstance(e.node, _ast.AugAssign):
            v = e.data["value"]
            cur = v.args[1] if v.op == "binop" else None
            if cur is not None and may_alias(cur, is_root):
                out.append((e, "augmented assignment"))
        elif e.data.get("tkind") == "sub" and isinstance(e.data.get("obj"), T):
            holder = e.data["obj"]
            while holder.op == "upd":
                holder = holder.args[0]
            if may_alias(holder, is_root):
                out.append((e, "item assignment"))
    for e in r.events:
        if e.kind != "call" or e.data.get("resolved"):
            continue
        f = e.data["fterm"]
        kws = dict(e.data.get("kwargs") or ())
        if f.op == "attr" and f.args[1] in INPLACE_METHODS and may_alias(f.args[0], is_root):
            out.append((e, f"call of the mutating method .{f.args[1]}()"))
        elif f.op == "attr" and kws.get("inplace") is TRUE and may_alias(f.args[0], is_root):
            out.append((e, f"call of .{f.args[1]}(inplace=True)"))
        elif isinstance(kws.get("out"), T) and may_alias(kws["out"], is_root):
            out.append((e, "write through out="))
        elif f.op == "global" and f.args[0] in INPLACE_FUNCS and e.data["args"] and may_alias(e.data["args"][0], is_root):
            out.append((e, f"call of {f.args[0]}"))
    for e, other in shared_local_augassign(r, prog):
        if not any(e is x for x, _ in out):
            out.append((e, f"augmented assignment through a second name of `{other}`"))
    return out


# `x = y; x op= e`: for a mutable y (ndarray, Series) the second name changes too.  The instances of the clean tree whose shared
# value is a Python number are listed here, one reason each.
AUG_SHARED_OK = {
    # function -> reason; applies only when every alternative of the shared value is one element (`x[0]`) or a reduction
    # (`.dot()`, `.sum()`), so a rename of the locals does not lose the entry and a new array-valued instance is not covered
    "fairlearn.reductions._exponentiated_gradient._lagrangian:_Lagrangian._eval":
        "`L_high = error; L_high += ...`: error is a Python float (Series.dot(Series) or the first element of gamma())",
}


def _element_or_reduction(t: T) -> bool:
    stack, n = [t], 0
    while stack:
        x = stack.pop()
        n += 1
        if n > 32:
            return False
        if x.op == "ite":
            stack.extend([x.args[1], x.args[2]])
        elif x.op == "assume":
            stack.append(x.args[1])
        elif x.op == "sub" and x.args[1].op == "const" and isinstance(const_value(x.args[1]), int):
            continue
        elif x.op == "call" and x.args[0].op == "attr" and x.args[0].args[1] in ("dot", "sum", "mean", "item"):
            continue
        else:
            return False
    return True


def shared_local_augassign(r: Result, prog):
    """`x op= e` on a local name whose current value is the object another name of the same function is bound to and that
    other name is read again later (or is a parameter: the caller still holds it).  Values that are Python numbers for sure
    (literals, len(), int()/float(), arithmetic on those) cannot be updated in place and are skipped.
    Returns [(event, other name)]."""
    import ast as _ast
    out = []
    for e in r.events:
        if e.kind != "store" or e.data.get("tkind") != "name" or not isinstance(e.node, _ast.AugAssign):
            continue
        v = e.data["value"]
        cur = v.args[1] if v.op == "binop" else None
        if cur is None or _number_for_sure(cur):
            continue
        fi = prog.functions.get(e.func) if prog is not None else None
        for other in e.data.get("shared", ()):
            if e.func in AUG_SHARED_OK and _element_or_reduction(cur):
                continue
            node = fi.node if fi is not None else None
            live = node is None
            if node is not None:
                params = {a.arg for a in node.args.args + node.args.kwonlyargs + node.args.posonlyargs}
                live = other in params or any(isinstance(n, _ast.Name) and n.id == other and isinstance(n.ctx, _ast.Load) and
                                              (n.lineno, n.col_offset) > (e.node.lineno, e.node.col_offset)
                                              for n in _ast.walk(node)) or any(
                    isinstance(lp, (_ast.For, _ast.While)) and lp.lineno <= e.node.lineno <= (lp.end_lineno or lp.lineno)
                    for lp in _ast.walk(node))
            if live:
                out.append((e, other))
    return out


def _number_for_sure(t: T) -> bool:
    if t.op == "const":
        return not isinstance(const_value(t), (list, tuple, dict))
    if t.op == "sub" and t.args[0].op == "attr" and t.args[0].args[1] == "shape":
        return True
    if t.op == "call" and t.args[0].op == "global" and t.args[0].args[0] in ("builtins.len", "builtins.int", "builtins.float", "builtins.bool",
                                                                                "builtins.round", "time.time"):
        return True
    if t.op == "binop":
        return _number_for_sure(t.args[1]) and _number_for_sure(t.args[2])
    if t.op == "ite":
        return _number_for_sure(t.args[1]) and _number_for_sure(t.args[2])
    return False
