"""Cross-cutting clause `Rnn.P` of every value property: the functions a property's check analysed do not update their
arguments in place.

Every property that states what a result *is* (a metric value, a fitted model, a pmf) quantifies over the caller's data; the
formula rules compare value numbers, and `w *= mask` has the same value number as `w = w * mask`.  What differs is that the
first form changes the caller's array, so the next reader of the same data (the next metric of a MetricFrame, the next
oracle call of a reduction, a second evaluation with the same predictor) computes from other numbers than the caller passed.
The clause is decided per function, at depth 0: an augmented assignment, item assignment, mutating method call,
`inplace=True` / `out=` keyword or numpy in-place function whose target can be (a view of) a parameter, or the result of
calling a parameter, is reported.  Out-parameters that exist by contract are frozen below, one reason each.
"""
from __future__ import annotations

from .common import Analysis, inplace_updates_of_foreign_values

# (function, parameter) pairs that are filled by contract
OUT_PARAMS = {
    ("fairlearn.metrics._metric_frame:MetricFrame._construct_annotated_metric_function", "all_data"):
        "the frame is created by MetricFrame.__init__ for this purpose; columns are added, none rewritten",
    ("fairlearn.postprocessing._threshold_optimizer:_reformat_data_into_dict", "data_dict"):
        "documented out-parameter: a dict created by _reformat_and_group_data",
}

NOT_A_VALUE_PROPERTY = {"C20"}   # input rejection: says nothing about the values computed afterwards


def argument_purity(ctx):
    if ctx.prop in NOT_A_VALUE_PROPERTY:
        return
    rule = f"R{ctx.prop[1:]}.P"
    ctx.rule(rule, "no function analysed for this property updates one of its arguments in place (directly, through a view "
                   "such as np.asarray / .values / squeeze / reshape / a slice, or on the result of calling an argument); "
                   "listed out-parameters excepted; and none keeps state across calls in a module-level object, a class-level "
                   "attribute or a mutable default argument")
    prog = ctx.prog
    A = Analysis(ctx, max_depth=0)
    fqs = sorted(f for f in ctx.analysed_functions if f in prog.functions)
    n = 0
    bad = 0
    for fq in fqs:
        fi = prog.functions[fq]
        r = A.run(fq, cls_ctx=getattr(fi, "cls", None) or None)
        n += 1
        skip = {p for (f, p) in OUT_PARAMS if f == fq}
        params = {t for name, t in r.params.items() if name not in skip and t is not r.self_term}

        def root(x, params=params):
            return x in params or (x.op == "call" and x.args[0] in params)
        hits = [(e, d) for e, d in inplace_updates_of_foreign_values(r, root, prog) if e.func == fq]
        for e, d in hits[:1]:
            bad += 1
            ctx.ob(rule, fq, e.node, False, f"{fq.split(':')[1]} applies an in-place {d} to a value that can be the caller's own "
                   "object: whoever reads the same data next computes from modified values", construct=f"{fq.split(':')[1]} argument purity")
    ctx.floor(rule, "functions scanned for in-place updates of arguments", n, 3)
    shared_state(ctx, rule)
    ctx.ob(rule, fqs[0] if fqs else "", None, True, f"{n} functions scanned, {bad} with an in-place update of an argument "
           f"({len(OUT_PARAMS)} listed out-parameters)", construct="argument purity scan")


# ------------------------------------------------------------------------------------------------ shared mutable state
# A result that depends on what an earlier call left behind is not a function of the inputs.  Three places where Python keeps
# such state without an assignment to `self` being visible in the function that reads it: module-level objects, class-level
# attributes and default-argument objects.  The scan is syntactic with resolved scopes (a name is module-level in a function
# when it is not bound there, or declared `global`); it runs over the modules / classes / functions the property analysed.
import ast as _ast

MUTATORS = ("append", "extend", "update", "add", "insert", "pop", "popitem", "clear", "setdefault", "remove", "discard", "sort",
            "reverse", "fill", "resize", "put", "itemset")
MUTABLE_CTORS = ("list", "dict", "set", "defaultdict", "OrderedDict", "Counter", "deque", "bytearray")
MODULE_STATE_OK = {
    ("fairlearn.postprocessing._plotting", "_debug_colors"): "plot colours only",
    ("fairlearn.postprocessing._plotting", "_debug_colormap"): "plot colours only",
}


def _is_mutable_expr(d) -> bool:
    return isinstance(d, (_ast.List, _ast.Dict, _ast.Set, _ast.ListComp, _ast.DictComp, _ast.SetComp)) or (
        isinstance(d, _ast.Call) and (getattr(d.func, "id", None) in MUTABLE_CTORS or getattr(d.func, "attr", None) in
                                      MUTABLE_CTORS + ("zeros", "ones", "empty", "full", "array", "DataFrame", "Series")))


def _bound_names(fn) -> set:
    """names bound in the function's own scope (parameters, assignment / loop / with / import / comprehension-free targets)"""
    out = {a.arg for a in fn.args.args + fn.args.kwonlyargs + fn.args.posonlyargs}
    if fn.args.vararg:
        out.add(fn.args.vararg.arg)
    if fn.args.kwarg:
        out.add(fn.args.kwarg.arg)

    def walk(n):
        for ch in _ast.iter_child_nodes(n):
            if isinstance(ch, (_ast.FunctionDef, _ast.AsyncFunctionDef, _ast.ClassDef)):
                out.add(ch.name)
                continue
            if isinstance(ch, _ast.Lambda):
                continue
            if isinstance(ch, _ast.Name) and isinstance(ch.ctx, (_ast.Store, _ast.Del)):
                out.add(ch.id)
            elif isinstance(ch, _ast.alias):
                out.add((ch.asname or ch.name).split(".")[0])
            elif isinstance(ch, _ast.ExceptHandler) and ch.name:
                out.add(ch.name)
            walk(ch)
    walk(fn)
    return out


def _own_nodes(fn):
    """nodes of the function body, not descending into nested function / class definitions"""
    stack = list(fn.body)
    while stack:
        n = stack.pop()
        yield n
        for ch in _ast.iter_child_nodes(n):
            if not isinstance(ch, (_ast.FunctionDef, _ast.AsyncFunctionDef, _ast.ClassDef)):
                stack.append(ch)


def _inplace_targets(fn):
    """(node, base expression, what) for subscript / attribute-free in-place updates and mutator calls in the function"""
    for n in _own_nodes(fn):
        if isinstance(n, (_ast.Assign, _ast.AugAssign, _ast.AnnAssign, _ast.Delete)):
            tgts = n.targets if isinstance(n, (_ast.Assign, _ast.Delete)) else [n.target]
            for tg in tgts:
                for t in (tg.elts if isinstance(tg, (_ast.Tuple, _ast.List)) else [tg]):
                    if isinstance(t, _ast.Subscript):
                        yield n, t.value, "item assignment"
                    elif isinstance(n, _ast.AugAssign):
                        yield n, t, "augmented assignment"
        elif isinstance(n, _ast.Call) and isinstance(n.func, _ast.Attribute) and n.func.attr in MUTATORS:
            yield n, n.func.value, f".{n.func.attr}()"


def shared_state(ctx, rule):
    prog = ctx.prog
    fqs = sorted(f for f in ctx.analysed_functions if f in prog.functions)
    mods = sorted({f.split(":")[0] for f in fqs})
    n_mod = n_cls = n_fn = 0
    # 1. module-level objects updated by a function of the module
    for mod in mods:
        mi = prog.modules.get(mod)
        if mi is None or not hasattr(mi, "tree"):
            continue
        n_mod += 1
        tree = mi.tree
        mod_names = set()
        for st in tree.body:
            if isinstance(st, (_ast.Assign, _ast.AnnAssign)):
                for tg in (st.targets if isinstance(st, _ast.Assign) else [st.target]):
                    for t in (tg.elts if isinstance(tg, (_ast.Tuple, _ast.List)) else [tg]):
                        if isinstance(t, _ast.Name):
                            mod_names.add(t.id)
        for fn in _ast.walk(tree):
            if not isinstance(fn, (_ast.FunctionDef, _ast.AsyncFunctionDef)):
                continue
            declared = {nm for g in _own_nodes(fn) if isinstance(g, _ast.Global) for nm in g.names}
            local = _bound_names(fn) - declared
            imported = {(a.asname or a.name).split(".")[0] for g in _own_nodes(fn) if isinstance(g, (_ast.Import, _ast.ImportFrom)) for a in g.names}
            hits = []
            for n, base, what in _inplace_targets(fn):
                root = base
                while isinstance(root, (_ast.Attribute, _ast.Subscript)):   # _TABLE[k].append(v), logger.__dict__.setdefault(...)
                    root = root.value
                if isinstance(root, _ast.Name) and root.id in mod_names and root.id not in local:
                    hits.append((n, root.id, what))
            for n in _own_nodes(fn):
                if isinstance(n, _ast.Name) and isinstance(n.ctx, _ast.Store) and n.id in declared and n.id in mod_names and n.id not in imported:
                    hits.append((n, n.id, "rebinding through `global`"))
            for n, name, what in hits:
                if (mod, name) in MODULE_STATE_OK:
                    continue
                ctx.ob(rule, _fq_of(prog, mod, fn, tree), n, False, f"{fn.name} updates the module-level object `{name}` ({what}): what a call "
                       "computes then depends on the calls made before it in the same process", construct=f"module state {name} in {fn.name}")
    # 2. class-level mutable attributes updated through self / cls, 3. mutable default arguments updated, stored or returned
    seen_cls = set()
    for fq in fqs:
        fi = prog.functions[fq]
        node = fi.node
        n_fn += 1
        params = node.args.args + node.args.kwonlyargs + node.args.posonlyargs
        defaults = dict(zip([a.arg for a in node.args.args + node.args.posonlyargs][-len(node.args.defaults):] if node.args.defaults else [],
                            node.args.defaults))
        defaults.update({a.arg: d for a, d in zip(node.args.kwonlyargs, node.args.kw_defaults) if d is not None})
        mutable = {nm for nm, d in defaults.items() if _is_mutable_expr(d)}
        if mutable:
            rebound = {n.id for n in _own_nodes(node) if isinstance(n, _ast.Name) and isinstance(n.ctx, _ast.Store)}
            for n, base, what in _inplace_targets(node):
                if isinstance(base, _ast.Name) and base.id in mutable and base.id not in rebound:
                    ctx.ob(rule, fq, n, False, f"the mutable default of `{base.id}` is updated in place ({what}): the default object is "
                           "shared by every call that omits the argument", construct=f"mutable default {base.id} updated")
            for n in _own_nodes(node):
                v = None
                if isinstance(n, _ast.Assign) and any(isinstance(t, _ast.Attribute) for t in n.targets):
                    v = n.value
                elif isinstance(n, _ast.Return):
                    v = n.value
                if isinstance(v, _ast.Name) and v.id in mutable and v.id not in rebound:
                    ctx.ob(rule, fq, n, False, f"the mutable default of `{v.id}` is stored on an object or returned: every caller that omits "
                           "the argument then shares one object", construct=f"mutable default {v.id} escapes")
        cls = getattr(fi, "cls", None)
        if cls and cls not in seen_cls and cls in prog.classes:
            seen_cls.add(cls)
            n_cls += 1
            cnode = prog.classes[cls].node
            cattrs = {}
            for st in cnode.body:
                if isinstance(st, (_ast.Assign, _ast.AnnAssign)) and st.value is not None and _is_mutable_expr(st.value):
                    for tg in (st.targets if isinstance(st, _ast.Assign) else [st.target]):
                        if isinstance(tg, _ast.Name):
                            cattrs[tg.id] = st
            if cattrs:
                for m in cnode.body:
                    if not isinstance(m, (_ast.FunctionDef, _ast.AsyncFunctionDef)):
                        continue
                    inst = {t.attr for n in _own_nodes(m) if isinstance(n, (_ast.Assign, _ast.AnnAssign))
                            for t in (n.targets if isinstance(n, _ast.Assign) else [n.target])
                            if isinstance(t, _ast.Attribute) and isinstance(t.value, _ast.Name) and t.value.id == "self"}
                    for n, base, what in _inplace_targets(m):
                        if isinstance(base, _ast.Attribute) and isinstance(base.value, _ast.Name) and base.attr in cattrs and \
                                base.attr not in inst:
                            ctx.ob(rule, f"{cls}.{m.name}", n, False, f"{m.name} updates the class-level attribute `{base.attr}` in place "
                                   f"({what}): all instances share it", construct=f"class attribute {base.attr} updated in {m.name}")
    ctx.ob(rule, fqs[0] if fqs else "", None, True, f"shared mutable state: {n_mod} modules, {n_cls} classes, {n_fn} functions scanned "
           "(module-level objects, class-level attributes, default arguments)", construct="shared state scan")


def _fq_of(prog, mod, fn, tree):
    for fq, fi in prog.functions.items():
        if fi.node is fn:
            return fq
    # a function the program model does not index (nested): report against the first indexed function of the module
    for fq in prog.functions:
        if fq.startswith(mod + ":"):
            return fq
    return mod + ":" + fn.name
