"""Cross-cutting clause `Rnn.P` of every value property: the functions a property's check analysed do not update their
arguments in place.

Every property that states what a result *is* (a metric value, a fitted model, a pmf) quantifies over the caller's data; the
formula rules compare value numbers, and `w *= mask` has the same value number as `w = w * mask`.  What differs is that the
first form changes the caller's array, so the next reader of the same data (the next metric of a MetricFrame, the next
oracle call of a reduction, a second evaluation with the same predictor) computes from other numbers than the caller passed.
The clause is decided per function, at depth 0: an augmented assignment, item assignment, mutating method call,
`inplace=True` / `out=` keyword or numpy in-place function whose target can be (a view of) a parameter, or the result of
calling a parameter, is reported.  Out-parameters that exist by contract are frozen below, one reason each.
"""
from __future__ import annotations

from .common import Analysis, inplace_updates_of_foreign_values

# (function, parameter) pairs that are filled by contract
OUT_PARAMS = {
    ("fairlearn.metrics._metric_frame:MetricFrame._construct_annotated_metric_function", "all_data"):
        "the frame is created by MetricFrame.__init__ for this purpose; columns are added, none rewritten",
    ("fairlearn.postprocessing._threshold_optimizer:_reformat_data_into_dict", "data_dict"):
        "documented out-parameter: a dict created by _reformat_and_group_data",
}

NOT_A_VALUE_PROPERTY = {"C20"}   # input rejection: says nothing about the values computed afterwards


def argument_purity(ctx):
    if ctx.prop in NOT_A_VALUE_PROPERTY:
        return
    rule = f"R{ctx.prop[1:]}.P"
    ctx.rule(rule, "no function analysed for this property updates one of its arguments in place (directly, through a view "
                   "such as np.asarray / .values / squeeze / reshape / a slice, or on the result of calling an argument); "
                   "listed out-parameters excepted")
    prog = ctx.prog
    A = Analysis(ctx, max_depth=0)
    fqs = sorted(f for f in ctx.analysed_functions if f in prog.functions)
    n = 0
    bad = 0
    for fq in fqs:
        fi = prog.functions[fq]
        r = A.run(fq, cls_ctx=getattr(fi, "cls", None) or None)
        n += 1
        skip = {p for (f, p) in OUT_PARAMS if f == fq}
        params = {t for name, t in r.params.items() if name not in skip and t is not r.self_term}

        def root(x, params=params):
            return x in params or (x.op == "call" and x.args[0] in params)
        hits = [(e, d) for e, d in inplace_updates_of_foreign_values(r, root, prog) if e.func == fq]
        for e, d in hits[:1]:
            bad += 1
            ctx.ob(rule, fq, e.node, False, f"{fq.split(':')[1]} applies an in-place {d} to a value that can be the caller's own "
                   "object: whoever reads the same data next computes from modified values", construct=f"{fq.split(':')[1]} argument purity")
    ctx.floor(rule, "functions scanned for in-place updates of arguments", n, 3)
    ctx.ob(rule, fqs[0] if fqs else "", None, True, f"{n} functions scanned, {bad} with an in-place update of an argument "
           f"({len(OUT_PARAMS)} listed out-parameters)", construct="argument purity scan")
