"""C18 - bootstrap intervals (resampling call constants, seed derivation, quantile call, CI/point cache mirroring)."""
from __future__ import annotations

import ast

from ..region import Raised, Unmodelled, concrete, pc_holds, specialise
from ..terms import FALSE, NONE, TRUE, State, T, conj, const, const_value, contains, glob, mk, root_of, show, subterms
from .common import M_BS, M_DR, M_MF, Analysis, arg, calls_to, dominates, kw, pc_literals, stores_attr

MF = M_MF + ":MetricFrame"
DR = M_DR + ":DisaggregatedResult"
SINGLE = M_BS + ":generate_single_bootstrap_sample"
GEN = M_BS + ":generate_bootstrap_samples"
NP = {"np": glob("numpy"), "pd": glob("pandas")}


def check(ctx):
    ctx.guard(r181_182, ctx)
    ctx.guard(r183, ctx)
    ctx.guard(r184, ctx)


def r181_182(ctx):
    ctx.rule("R18.1", "each resample is data.sample(frac=1 | n=len(data), replace=True, axis=0, random_state=<per-sample seed>) "
                      "and is disaggregated with the same functions and feature names")
    ctx.rule("R18.2", "seeds: for an integer random_state the stream is default_rng(seed=random_state); one seed per "
                      "resample, indexed by the loop variable; exactly n_samples results; no unseeded source on the integer path")
    A = Analysis(ctx, no_inline=[DR + ".create"])
    r = A.run(SINGLE)
    P = r.params
    sm = [e for e in r.events if e.kind == "call" and e.data["fterm"].op == "attr" and e.data["fterm"].args[1] == "sample"]
    ok = len(sm) == 1 and sm[0].data["fterm"].args[0] is P["data"]
    if ok:
        k = dict(sm[0].data["kwargs"])
        size_ok = k.get("frac") is const(1) or (k.get("n") is not None and A.eq(k["n"], A.spec("len(d)", {"d": P["data"], "len": glob("builtins.len")})))
        ok = size_ok and k.get("replace") is TRUE and k.get("random_state") is P["random_state"] and k.get("axis", const(0)) is const(0) \
            and not sm[0].data["args"]
    ctx.ob("R18.1", SINGLE, sm[0].node if sm else None, ok, "n rows are drawn with replacement from the n data rows with the "
           "given seed", construct="resampling call")
    cr = calls_to(r, DR + ".create")
    ok = len(cr) == 1 and bool(sm) and kw(cr[0], "data") is sm[0].data["result"] and all(kw(cr[0], n) is P[n] for n in (
        "annotated_functions", "sensitive_feature_names", "control_feature_names")) and r.ret is cr[0].data["result"]
    ctx.ob("R18.1", SINGLE, cr[0].node if cr else None, ok, "the resample is disaggregated with the caller's functions and "
           "feature names", construct="resample disaggregation")
    A2 = Analysis(ctx, no_inline=[SINGLE])
    rg = A2.run(GEN)
    Pg = rg.params
    rs_t = None
    calls = calls_to(rg, SINGLE)
    ok = len(calls) == 1 and len(calls[0].loops) == 1
    if ok:
        c = calls[0]
        lev = [x for x in rg.events if x.kind == "loop" and x.data.get("lid") == c.loops[0]][0]
        i = lev.data["elem"]
        seed = kw(c, "random_state")
        ok = A2.eq(lev.data["iter"], A2.spec("range(n)", {"n": Pg["n_samples"], "range": glob("builtins.range")})) and seed.op == "sub" and seed.args[1] is i \
            and all(kw(c, n) is Pg[n] for n in ("data", "annotated_functions", "sensitive_feature_names", "control_feature_names"))
        rs_t = seed.args[0] if seed.op == "sub" else None
        if not ok and seed is i and all(kw(c, n) is Pg[n] for n in ("data", "annotated_functions", "sensitive_feature_names", "control_feature_names")):
            # the walk over the seed array itself: one resample per seed; that there are n_samples of them is the seed-stream
            # obligation below (size=n_samples in every accepted form)
            ok, rs_t = True, lev.data["iter"]
        apps = [e for e in rg.events if e.kind == "call" and e.data["fterm"].op == "attr" and e.data["fterm"].args[1] == "append" and e.loops == c.loops]
        ok = ok and len(apps) == 1 and arg(apps[0], 0) is c.data["result"] and apps[0].pc == c.pc
    ctx.ob("R18.2", GEN, calls[0].node if calls else None, ok, "exactly one resample per i in range(n_samples), seeded with rs[i], "
           "on the caller's frame / functions / names, appended once", construct="resample loop")
    if rs_t is not None:
        rstate = Pg["random_state"]
        is_rs = mk("call", glob("builtins.isinstance"), (rstate, glob("numpy.random.RandomState")), ())
        is_int = mk("call", glob("builtins.isinstance"), (rstate, glob("builtins.int")), ())
        bad = []
        b = {"n": Pg["n_samples"], "rs": rstate, **NP}
        high = "np.iinfo(np.uint32).max"
        for label, env, want_src in (
            ("int", {rstate: 7, is_rs: False, is_int: True},
             [f"np.random.default_rng(seed=rs).integers(low=0, high={high}, size=n, dtype=np.uint32)",
              f"np.random.default_rng(rs).integers(low=0, high={high}, size=n, dtype=np.uint32)"]),
            # the seed 0 is an integer seed like any other (it is falsy: `if not random_state` would take the unseeded path)
            ("int 0", {rstate: 0, is_rs: False, is_int: True},
             [f"np.random.default_rng(seed=rs).integers(low=0, high={high}, size=n, dtype=np.uint32)",
              f"np.random.default_rng(rs).integers(low=0, high={high}, size=n, dtype=np.uint32)"]),
            ("RandomState", {rstate: "RS", is_rs: True, is_int: False},
             [f"rs.randint(low=0, high={high}, size=n, dtype=np.uint32)"]),
            ("None", {rstate: None, is_rs: False, is_int: False},
             [f"np.random.default_rng().integers(low=0, high={high}, size=n, dtype=np.uint32)",
              # default_rng(None) is default_rng(): fresh entropy
              f"np.random.default_rng(seed=rs).integers(low=0, high={high}, size=n, dtype=np.uint32)",
              f"np.random.default_rng(rs).integers(low=0, high={high}, size=n, dtype=np.uint32)",
              f"np.random.default_rng(None).integers(low=0, high={high}, size=n, dtype=np.uint32)",
              f"np.random.default_rng(seed=None).integers(low=0, high={high}, size=n, dtype=np.uint32)"]),
        ):
            try:
                got = specialise(rs_t, env)
            except (Unmodelled, Raised) as ex:
                bad.append(f"{label}: not modelled ({ex})")
                continue
            if not any(A2.eq(got, A2.spec(s, b)) for s in want_src):
                bad.append(f"random_state {label}: seeds = {A2.show(got, 160)}")
        try:
            raised = any(e.kind == "raise" and pc_holds(e.pc, {rstate: "x", is_rs: False, is_int: False}) for e in rg.events)
        except (Unmodelled, Raised):
            raised = None
        if not raised:
            bad.append("an unsupported random_state is accepted")
        ctx.exhaustive_spaces.append("generate_bootstrap_samples: random_state None / int / RandomState / other")
        ctx.ob("R18.2", GEN, None, not bad, "n_samples 32-bit seeds are drawn from default_rng(seed=random_state) for an integer "
               "seed (the RandomState itself / a fresh generator otherwise); other types raise" if not bad else "; ".join(bad[:2]),
               construct="seed stream")
    ok = rg.ret is not None and root_of(rg.ret).op in ("list", "loopout") or contains(rg.ret, lambda s: s.op == "listappend")
    ctx.ob("R18.2", GEN, None, bool(ok), "the result is the list of the n_samples resample results", construct="result list")


def r183(ctx):
    ctx.rule("R18.3", "quantiles: np.quantile / np.nanquantile(samples, q=<the caller's list>, axis=0); one output per row of "
                      "the result, rebuilt with samples[0]'s index / columns / name")
    A = Analysis(ctx, no_inline=[M_BS + ":_align_sample_indices"])
    for fn, qf, rebuild in ((M_BS + ":_calc_series_quantiles", "numpy.quantile",
                             "pd.Series(name=S[0].name, index=S[0].index, data=R[I, :])"),
                            (M_BS + ":_calc_dataframe_quantiles", "numpy.nanquantile",
                             "pd.DataFrame(columns=S[0].columns, index=S[0].index, data=R[I, :, :])")):
        r = A.run(fn)
        P = r.params
        q = [e for e in r.events if e.kind == "call" and e.data.get("callee") in ("numpy.quantile", "numpy.nanquantile", "numpy.percentile")]
        ok = len(q) == 1
        S = None
        if ok:
            S = arg(q[0], 0)
            ok = kw(q[0], "q") is P["quantiles"] and kw(q[0], "axis") is const(0) and q[0].data.get("callee") in ("numpy.quantile", "numpy.nanquantile")
            if fn.endswith("dataframe_quantiles"):
                al = calls_to(r, M_BS + ":_align_sample_indices")
                ok = ok and len(al) == 1 and arg(al[0], 0) is P["samples"] and S is al[0].data["result"] and q[0].data["callee"] == "numpy.nanquantile"
            else:
                ok = ok and S is P["samples"]
        ctx.ob("R18.3", fn, q[0].node if q else None, ok, f"{qf.split('.')[1]}(samples, q=quantiles, axis=0) over the "
               "(index-aligned) resample results", construct="quantile call")
        if not q:
            continue
        R = q[0].data["result"]
        apps = [e for e in r.events if e.kind == "call" and e.data["fterm"].op == "attr" and e.data["fterm"].args[1] == "append" and e.loops]
        ok = len(apps) == 1
        if ok:
            lev = [x for x in r.events if x.kind == "loop" and x.data.get("lid") == apps[0].loops[-1]][0]
            I = lev.data["elem"]
            b = {"S": S, "R": R, "I": I, **NP}
            ok = A.eq(arg(apps[0], 0), A.spec(rebuild, b)) and (A.eq(lev.data["iter"], A.spec("range(R.shape[0])", {**b, "range": glob("builtins.range")}))
                                                               or A.eq(lev.data["iter"], A.spec("range(len(Q))", {"Q": P["quantiles"], "range": glob("builtins.range"), "len": glob("builtins.len")})))
            if not ok and lev.data["iter"] is R:
                # `for row in R:` - iterating the array directly yields R[0], R[1], ... (its first axis), i.e. R[i, :] / R[i, :, :]
                direct = rebuild.replace("R[I, :, :]", "I").replace("R[I, :]", "I")
                ok = A.eq(arg(apps[0], 0), A.spec(direct, b))
        ctx.ob("R18.3", fn, apps[0].node if apps else None, ok, "one result per quantile, rebuilt with the first sample's labels",
               construct="quantile results")
    # the dispatcher and the alignment are a rule group of their own (written with comprehensions where the routines above use
    # loops: each side may need its own normal form)
    ctx.guard(_r183_dispatch_align, ctx)


def _r183_dispatch_align(ctx):
    A2 = Analysis(ctx, no_inline=[M_BS + ":_calc_series_quantiles", M_BS + ":_calc_dataframe_quantiles"])
    r = A2.run(M_BS + ":calculate_pandas_quantiles")
    P = r.params
    cs, cd = calls_to(r, M_BS + ":_calc_series_quantiles"), calls_to(r, M_BS + ":_calc_dataframe_quantiles")
    ok = len(cs) == 1 and len(cd) == 1 and all(kw(e, "quantiles") is P["quantiles"] and kw(e, "samples") is P["bootstrap_samples"] for e in cs + cd)
    if ok:
        first = A2.entry(r, "bootstrap_samples[0]")
        ok = any(l is mk("call", glob("builtins.isinstance"), (first, glob("pandas.Series")), ()) for l in pc_literals(cs[0].pc)) and \
            any(l is mk("call", glob("builtins.isinstance"), (first, glob("pandas.DataFrame")), ()) for l in pc_literals(cd[0].pc))
    ctx.ob("R18.3", r.func, None, ok, "Series samples use the Series routine, DataFrame samples the DataFrame routine, with the "
           "caller's quantiles", construct="quantile dispatch")
    # alignment: union of indices, reindex each sample
    ra = A2.run(M_BS + ":_align_sample_indices")
    S = ra.params["samples"]
    ret = ra.ret
    ok = ret is not None and ret.op == "comp" and ret.args[2][0][0] is S
    if ok:
        body = ret.args[1]
        ok = body.op == "call" and body.args[0].op == "attr" and body.args[0].args[1] == "reindex" and body.args[0].args[0] is mk("elem", S)
        # the new index is the first positional argument, or index= (labels= is the same parameter); nothing else (no fill)
        kws_ = dict(body.args[2]) if ok else {}
        idx = (body.args[1][0] if body.args[1] else (kws_.get("index") if kws_.get("index") is not None else kws_.get("labels"))) if ok else None
        ok = ok and idx is not None and idx.op == "call" and idx.args[0] is glob("functools.reduce") and \
            not (set(kws_) - {"index", "labels"}) and len(body.args[1]) + len(kws_) == 1
        if ok:
            lam = idx.args[1][0]
            ok = (lam.op == "lam" and lam.args[1] is mk("call", mk("attr", mk("bv", 0), "union"), (mk("bv", 1),), ())) or \
                lam is glob("pandas.Index.union")   # the unbound method: Index.union(x, y) is x.union(y)
            seq = idx.args[1][1] if len(idx.args[1]) > 1 else None
            ok = ok and seq is not None and seq.op == "comp" and seq.args[2][0][0] is S and seq.args[1] is mk("attr", mk("elem", S), "index")
    ctx.ob("R18.3", ra.func, None, ok, "samples are re-indexed (without fill) to the union of their indices, so groups missing "
           "from a resample are NaN there and skipped by nanquantile", construct="index alignment")


def r184(ctx):
    ctx.rule("R18.4", "the CI cache mirrors the point-estimate cache: same extractor flags, same DisaggregatedResult method "
                      "per (kind, method) key, and the *_ci readers return those keys")
    ctx.rule("R18.5", "the constructor hands random_state, n_boot and the same frame / functions / feature names to the "
                      "bootstrap generator, after validating n_boot and the quantiles")
    quant = M_BS + ":calculate_pandas_quantiles"
    A = Analysis(ctx, no_inline=[quant, MF + "._extract_result", MF + "._none_to_nan", MF + "._group_ci"], max_depth=2)
    r = A.run(MF + "._populate_results_ci", cls_ctx=MF)
    fq = r.func
    P = r.params
    bs, qs = P["bootstrap_samples"], P["ci_quantiles"]
    st = [e for e in r.events if e.kind == "store" and e.data.get("tkind") == "sub" and e.func == fq]

    def extract_list(v, flag):
        # [self._extract_result(x, no_control_levels=flag) for x in <quantile result>]
        if v.op != "comp" or v.args[0] != "list":
            return None
        body, gens = v.args[1], v.args[2]
        if body.op == "call" and body.args[0].op == "boundmethod" and body.args[0].args[1] == MF + "._extract_result" \
                and body.args[1][0] is mk("elem", gens[0][0]) and dict(body.args[2]).get("no_control_levels") is flag:
            return gens[0][0]
        return None

    for key, attr, flag in (("overall_ci", "overall", FALSE), ("by_group_ci", "by_group", TRUE)):
        es = [e for e in st if e.data["key"] is const(key)]
        ok = len(es) == 1
        if ok:
            src = extract_list(es[0].data["value"], flag)
            ok = src is not None and src.op == "call" and src.args[0] is glob(quant) and src.args[1][0] is qs
            if ok:
                smp = src.args[1][1]
                ok = smp.op == "comp" and smp.args[2][0][0] is bs and smp.args[1] is mk("attr", mk("elem", bs), attr)
        ctx.ob("R18.4", fq, es[0].node if es else None, ok, f"cache['{key}'] = [extract(q, no_control_levels={const_value(flag)}) "
               f"for q in quantiles of the resamples' {attr}]", construct=f"{key} writer")
    # group_min_ci / group_max_ci
    gst = [e for e in st if e.loops and e.data["value"].op == "call" and e.data["value"].args[0].op == "boundmethod"
           and e.data["value"].args[0].args[1] == MF + "._group_ci"]
    ok = len(gst) == 1
    if ok:
        e = gst[0]
        k = e.data["key"]
        v = e.data["value"]
        kwv = dict(v.args[2])
        fn = kwv.get("grouping_function")
        ok = kwv.get("bootstrap_samples") is bs and kwv.get("ci_quantiles") is qs and k.op == "sub" and fn is not None and fn.op == "sub" \
            and k.args[0] is fn.args[0] and k.args[1] is const(0) and fn.args[1] is const(1)
        if ok:
            tbl = k.args[0].args[0].args[0].args[0]
            ok = tbl.op == "dict" and {(const_value(a), const_value(b_)) for a, b_ in tbl.args[0]} == {("group_min_ci", "min"), ("group_max_ci", "max")}
    ctx.ob("R18.4", fq, gst[0].node if gst else None, ok, "cache[group_min_ci|group_max_ci] = _group_ci(samples, quantiles, "
           "'min'|'max')", construct="group ci writer")
    # difference_ci / ratio_ci
    dst = [e for e in st if isinstance(e.data.get("target_node"), ast.Subscript) and isinstance(e.data["target_node"].value, ast.Subscript)
           and e.data["value"].op == "comp"]
    ok = len(dst) == 1
    if ok:
        e = dst[0]
        tn = e.data["target_node"]
        kind = A.at(e, ast.unparse(tn.value.slice))
        meth = e.data["key"]
        src = extract_list(e.data["value"], FALSE)
        ok = src is not None and src.op == "call" and src.args[0] is glob(quant) and dict(src.args[2]).get("quantiles") is qs
        if ok:
            smp = dict(src.args[2]).get("bootstrap_samples")
            # [none_to_nan(x) for x in raw_samples]
            ok = smp is not None and smp.op == "comp" and smp.args[1].op == "call" and smp.args[1].args[0].op == "boundmethod" \
                and smp.args[1].args[0].args[1] == MF + "._none_to_nan"
            raw = smp.args[2][0][0] if ok else None
            ok = ok and raw is not None
            if ok:
                c = A.C.canon(raw)
                alts = [c.args[1], c.args[2]] if c.op == "ite" else []
                names = []
                for a_ in alts:
                    okc = a_.op == "comp" and a_.args[2][0][0] is A.C.canon(bs)
                    body = a_.args[1] if okc else None
                    okc = okc and body.op == "mcall" and body.args[1] is A.C.canon(mk("elem", bs)) and dict(body.args[3]).get("method") is A.C.canon(meth) \
                        and dict(body.args[3]).get("errors") is const("raise")
                    names.append(body.args[0] if okc else None)
                ok = sorted(n or "?" for n in names) == ["difference", "ratio"]
                if ok:
                    cond = c.args[0]
                    first = names[0]
                    is_d = A.C.canon(mk("cmp", "==", kind, const("difference_ci")))
                    is_r = A.C.canon(mk("cmp", "==", kind, const("ratio_ci")))
                    ok = (cond is is_d and first == "difference") or (cond is is_r and first == "ratio")
                    ok = ok and kind.op == "elem" and A.eq(kind.args[0], mk("list", (const("difference_ci"), const("ratio_ci")))) \
                        and meth.op == "elem" and A.eq(meth.args[0], A.at(e, "_COMPARE_METHODS"))
    ctx.ob("R18.4", fq, dst[0].node if dst else None, ok, "cache[difference_ci|ratio_ci][method] = [extract(q) for q in quantiles "
           "of [none_to_nan(r.<difference|ratio>(control levels, method=method, errors='raise')) for r in resamples]]",
           construct="difference/ratio ci writer")
    # _group_ci
    Ag = Analysis(ctx, no_inline=[quant, MF + "._extract_result"], max_depth=2)
    rg = Ag.run(MF + "._group_ci", cls_ctx=MF)
    Pg = rg.params
    qc = calls_to(rg, quant)
    ok = len(qc) == 1 and kw(qc[0], "quantiles") is Pg["ci_quantiles"]
    if ok:
        smp = kw(qc[0], "bootstrap_samples")
        ok = smp.op == "comp" and smp.args[2][0][0] is Pg["bootstrap_samples"]
        if ok:
            body = smp.args[1]
            ok = body.op == "call" and body.args[0].op == "attr" and body.args[0].args[1] == "apply_grouping" and body.args[1][0] is Pg["grouping_function"] \
                and Ag.eq(body.args[1][1], Ag.entry(rg, "self.control_levels")) and dict(body.args[2]).get("errors") is const("raise")
        ok = ok and (lambda v: v.op == "comp" and v.args[1].op == "call" and dict(v.args[1].args[2]).get("no_control_levels") is FALSE
                     and v.args[2][0][0] is qc[0].data["result"])(rg.ret)
    ctx.ob("R18.4", rg.func, None, ok, "_group_ci = [extract(q, no_control_levels=False) for q in quantiles of "
           "[r.apply_grouping(function, control levels, errors='raise') for r in resamples]]", construct="_group_ci")
    # readers
    A2 = Analysis(ctx, no_inline=[MF + "._check_bootstrap_initialized"])
    for m, keys in (("overall_ci", ("overall_ci",)), ("by_group_ci", ("by_group_ci",)), ("group_min_ci", ("group_min_ci",)),
                    ("group_max_ci", ("group_max_ci",)), ("difference_ci", ("difference_ci", "method")), ("ratio_ci", ("ratio_ci", "method"))):
        rr = A2.run(f"{MF}.{m}", cls_ctx=MF)
        src = "self._result_cache" + "".join(f"[{k!r}]" if i == 0 else f"[{k}]" for i, k in enumerate(keys))
        ok = rr.ret is A2.entry(rr, src)
        chk = calls_to(rr, MF + "._check_bootstrap_initialized")
        ok = ok and len(chk) == 1
        if "method" in keys:
            conds = [A2.C.canon(e.pc[-1]) for e in rr.events if e.kind == "raise" and e.pc]
            ok = ok and A2.C.canon(A2.entry(rr, "method not in _COMPARE_METHODS")) in conds
        ctx.ob("R18.4", rr.func, None, ok, f"{m} checks that bootstrapping was requested and returns cache{list(keys)}",
               construct=f"{m} reader")
    # R18.5 constructor
    A3 = Analysis(ctx, no_inline=[DR + ".create", M_BS + ":generate_bootstrap_samples", MF + "._populate_results",
                                  MF + "._populate_results_ci"], max_depth=4)
    r = A3.run(MF + ".__init__", cls_ctx=MF)
    P = r.params
    gen = calls_to(r, M_BS + ":generate_bootstrap_samples")
    pop = calls_to(r, MF + "._populate_results_ci")
    ok = len(gen) == 1 and len(pop) == 1 and kw(gen[0], "n_samples") is P["n_boot"] and kw(gen[0], "random_state") is P["random_state"] \
        and arg(pop[0], 0) is gen[0].data["result"] and arg(pop[0], 1) is P["ci_quantiles"]
    ctx.ob("R18.5", r.func, gen[0].node if gen else None, ok, "n_boot and random_state reach the generator; its resamples and the "
           "caller's quantiles reach the CI cache", construct="bootstrap plumbing")
    if gen:
        lits = [A3.C.canon(x) for x in pc_literals(gen[0].pc)]
        need = A3.C.canon(A3.entry(r, "n_boot is not None and ci_quantiles is not None and len(ci_quantiles) > 0"))
        flat = set()
        for l in lits:
            flat.update(l.args[0] if l.op == "and" else (l,))
        needs = set(need.args[0]) if need.op == "and" else {need}
        ctx.ob("R18.5", r.func, gen[0].node, needs <= flat, "bootstrapping runs exactly when n_boot and a non-empty quantile list "
               "are given", construct="bootstrap condition")
