"""C06 - constraint moments measure the documented parity violations (structural clauses)."""
from __future__ import annotations

from ..region import Raised, Unmodelled, concrete, pc_holds
from ..terms import NONE, T, const, const_value, contains, glob, mk, show, subterms
from .common import (M_BGL, M_ER, M_IV, M_MOMENT, M_UP, Analysis, arg, calls_to, dominates, is_str_const, kw,
                     pc_literals, stores_attr)

PARITY = ["DemographicParity", "TruePositiveRateParity", "FalsePositiveRateParity", "EqualizedOdds", "ErrorRateParity"]


def check(ctx):
    ctx.guard(r061_matrix, ctx)
    ctx.guard(r062_gamma_bound, ctx)
    ctx.guard(r063_events, ctx)
    ctx.guard(r064_null, ctx)
    ctx.guard(r065_losses, ctx)
    ctx.guard(r066_loss_moment_wiring, ctx)
    ctx.guard(_shared_c06, ctx)
    from .c07 import r076_no_foreign_updates
    ctx.guard(r076_no_foreign_updates, ctx, "R06.8")

# ----------------------------------------------------------------------------- R06.1


def r061_matrix(ctx):
    ctx.rule("R06.1", "UtilityParity.load_data: P(e), P(e,g) are the documented group-by sizes over n; the loop ranges "
                      "over the occurring (event, group) pairs; per pair exactly one '+' and one '-' column is stored, "
                      "U[+,e,g] = 1[e]/P(e) - r*1[e]*1[g]/P(e,g), U[-,e,g] = -r*1[e]/P(e) + 1[e]*1[g]/P(e,g); the "
                      "constraint index is the +/- concatenation of the same pairs.")
    A = Analysis(ctx)
    fq = M_UP + ":UtilityParity.load_data"
    r = A.run(fq, cls_ctx=M_UP + ":UtilityParity")
    stores = [e for e in r.events if e.kind == "store" and e.data["tkind"] == "sub"
              and e.data["key"].op == "tuple" and len(e.data["key"].args[0]) == 3
              and is_str_const(e.data["key"].args[0][0]) and const_value(e.data["key"].args[0][0]) in ("+", "-")]
    ctx.floor("R06.1", "signed column stores into the U matrix", len(stores), 2)
    loops = {e.data.get("lid"): e for e in r.events if e.kind == "loop"}
    by_sign = {}
    for e in stores:
        by_sign.setdefault(const_value(e.data["key"].args[0][0]), []).append(e)
    for sign in ("+", "-"):
        evs = by_sign.get(sign, [])
        ctx.ob("R06.1", fq, evs[0].node if evs else None, len(evs) == 1,
               f"exactly one '{sign}' column store per (event, group) iteration (found {len(evs)})",
               construct=f"U[{sign},e,g] store count")
    for e in stores:
        sign = const_value(e.data["key"].args[0][0])
        ctx.require(e.loops, "U column store is not inside a loop")
        lev = loops.get(e.loops[-1])
        ctx.require(lev is not None, "loop of the U column store not found")
        # the loop ranges over the index of P(e,g) and the store is unconditional within the iteration
        it_spec = A.at(lev, "self.prob_group_event.index")
        # `for (e, g), p in self.prob_group_event.items()`: the same pairs, with p = P(e, g) of the pair at hand
        items_form = A.eq(lev.data["iter"], A.at(lev, "self.prob_group_event.items()"))
        ctx.ob("R06.1", fq, lev.node, A.eq(lev.data["iter"], it_spec) or items_form,
               "the (event, group) loop iterates over the index of P(event, group) (the occurring pairs)",
               construct="loop over prob_group_event.index")
        extra = [c for c in e.pc if c.op != "inloop" and not any(c is x for x in lev.pc)]
        ctx.ob("R06.1", fq, e.node, not extra, f"the '{sign}' column store is unconditional within the iteration",
               construct=f"U[{sign},e,g] unconditional")
        el = lev.data["elem"]
        p_pair = None
        if items_form:
            el, p_pair = mk("sub", el, const(0)), mk("sub", el, const(1))
        k = e.data["key"].args[0]
        keys_ok = A.eq(k[1], mk("sub", el, const(0))) and A.eq(k[2], mk("sub", el, const(1)))
        ctx.ob("R06.1", fq, e.node, keys_ok, f"the '{sign}' column is keyed by this iteration's (event, group)",
               construct=f"U[{sign},e,g] key")
        roles = {
            "E": A.at(e, "1 * (self.tags[_EVENT] == EV)", {"EV": k[1]}),
            "G": A.at(e, "1 * (self.tags[_GROUP_ID] == GR)", {"GR": k[2]}),
            "Pe": A.at(e, "self.prob_event[EV]", {"EV": k[1]}),
            "Peg": p_pair if p_pair is not None else A.at(e, "self.prob_group_event[EV, GR]", {"EV": k[1], "GR": k[2]}),
            "r": A.at(e, "self.ratio"),
        }
        spec_src = {"+": "E / Pe - r * E * G / Peg", "-": "-r * E / Pe + E * G / Peg"}[sign]
        A.formula("R06.1", fq, e.node, e.data["value"], A.spec(spec_src, roles), f"U[{sign},e,g]",
                  construct=f"U[{sign},e,g] formula")
    # probabilities by definition
    for attr, src in (("prob_event", "self.tags.groupby(_EVENT).size() / self.total_samples"),
                      ("prob_group_event", "self.tags.groupby([_EVENT, _GROUP_ID]).size() / self.total_samples")):
        st = list(stores_attr(r, attr))
        ctx.floor("R06.1", f"definition of {attr}", len(st), 1)
        for e in st:
            A.formula("R06.1", fq, e.node, e.data["value"], A.at(e, src), f"definition of {attr}",
                      construct=f"{attr} definition")
    # tags[EVENT] is the event argument
    ev_st = [e for e in r.events if e.kind == "store" and e.data["tkind"] == "sub"
             and A.eq(e.data["key"], A.at(e, "_EVENT"))]
    ctx.floor("R06.1", "store of the event column", len(ev_st), 1)
    for e in ev_st:
        ctx.ob("R06.1", fq, e.node, e.data["value"] is r.params["event"],
               "tags[event] is the event series handed to load_data", construct="tags[event] = event")
    # the index: +/- concatenation of the pairs
    st = list(stores_attr(r, "_index"))
    ctx.floor("R06.1", "definition of the constraint index", len(st), 1)
    for e in st:
        v = A.C.canon(e.data["value"])
        ok = False
        why = "index is not `.index` of a concat of P(event, group) with keys ['+','-']"
        if v.op == "attr" and v.args[1] == "index":
            c = v.args[0]
            if c.op == "fn" and c.args[0] == "concat":
                parts = c.args[1]
                kws = dict(c.args[-1]) if isinstance(c.args[-1], tuple) and c.args[-1] and isinstance(c.args[-1][0], tuple) else {}
                peg = A.C.canon(A.at(e, "self.prob_group_event"))
                keys = kws.get("keys")
                ok = (parts.op in ("list", "tuple") and len(parts.args[0]) == 2 and all(p is peg for p in parts.args[0])
                      and keys is not None and keys.op in ("list", "tuple")
                      and sorted(const_value(x) for x in keys.args[0] if x.op == "const") == ["+", "-"])
        ctx.ob("R06.1", fq, e.node, ok, "constraint index = index of concat([P(e,g), P(e,g)], keys=['+','-'])" if ok else why,
               construct="_index definition")
    # index property returns that attribute
    ri = A.run(M_UP + ":UtilityParity.index", cls_ctx=M_UP + ":UtilityParity")
    ctx.ob("R06.1", ri.func, None, ri.ret is not None and A.eq(ri.ret, A.entry(ri, "self._index")),
           "the index property returns the stored constraint index", construct="index property")


# ----------------------------------------------------------------------------- R06.2


def r062_gamma_bound(ctx):
    ctx.rule("R06.2", "gamma(h) = -U^T (utility_diff*h + utilities[:,0]) / n on the stored U; bound() = eps on the "
                      "constraint index; eps/ratio are set from the constructor arguments by the documented case table "
                      "(exhaustive over order cells).")
    A = Analysis(ctx)
    cls = M_UP + ":UtilityParity"
    fq = cls + ".gamma"
    r = A.run(fq, cls_ctx=cls)
    calls = [e for e in r.events if e.kind == "call" and e.data["fterm"] is r.params["predictor"]]
    ctx.floor("R06.2", "calls of the predictor in gamma", len(calls), 1)
    h = calls[0].data["result"]
    ctx.ob("R06.2", fq, calls[0].node, A.eq(arg(calls[0], 0), A.entry(r, "self.X")),
           "the predictor is evaluated on the loaded X", construct="predictor(self.X)")
    roles = {"U": A.entry(r, "self.U"), "ud": A.entry(r, "self.utility_diff"), "u0": A.entry(r, "self.utilities[:, 0]"),
             "n": A.entry(r, "self.total_samples"), "h": h}
    specs = [A.spec(s, roles) for s in ("-U.T.dot(ud * h + u0) / n", "-U.T.dot(ud.T * h + u0) / n")]
    A.formula("R06.2", fq, None, r.ret, specs, "gamma", construct="gamma formula")
    flattened_prediction(ctx, A, r, h, "R06.2", "UtilityParity.gamma")
    re_ = A.run(M_ER + ":ErrorRate.gamma", cls_ctx=M_ER + ":ErrorRate")
    ce = [e for e in re_.events if e.kind == "call" and e.data["fterm"] is re_.params["predictor"]]
    if ce:
        flattened_prediction(ctx, A, re_, ce[0].data["result"], "R06.2", "ErrorRate.gamma")
    rt = A.run(M_MOMENT + ":Moment.total_samples", cls_ctx=M_MOMENT + ":Moment")
    okn = rt.ret is not None and any(rt.ret is A.entry(rt, s_, {"len": glob("builtins.len")}) for s_ in (
        "self.X.shape[0]", "len(self.X)", "self.tags.shape[0]", "len(self.tags)", "len(self._y)", "self._y.shape[0]"))
    ctx.ob("R06.2", rt.func, None, okn, "n = total_samples is the number of rows of the loaded data" if okn else
           f"total_samples is {show(rt.ret, maxdepth=3)[:60] if rt.ret is not None else '?'}, not the number of rows",
           construct="total_samples")
    # utility_diff by definition (in load_data)
    rl = A.run(cls + ".load_data", cls_ctx=cls)
    for e in [x for x in stores_attr(rl, "utility_diff")]:
        A.formula("R06.2", e.func, e.node, e.data["value"], A.at(e, "self.utilities[:, 1] - self.utilities[:, 0]"),
                  "utility_diff = utilities[:,1] - utilities[:,0]", construct="utility_diff definition")
    ctx.floor("R06.2", "definition of utility_diff", len(stores_attr(rl, "utility_diff")), 1)
    # default utilities = [0, 1] per row
    for e in stores_attr(rl, "utilities"):
        v = A.C.canon(e.data["value"])
        y = rl.params["y"]
        d = A.C.canon(A.at(e, "np.vstack([np.zeros(y.shape, dtype=np.float64), np.ones(y.shape, dtype=np.float64)]).T",
                           {"y": y, "np": glob("numpy")}))
        given = rl.params["utilities"]
        ok = v.op == "ite" and {v.args[1], v.args[2]} == {d, given} or v is d
        # orientation of the ite: default exactly when utilities is None
        if v.op == "ite":
            c = v.args[0]
            is_none = A.C.canon(mk("cmp", "is", given, NONE))
            ok = ok and ((c is is_none and v.args[1] is d) or (c is A.C._not(is_none) and v.args[2] is d))
        ctx.ob("R06.2", e.func, e.node, ok, "utilities default to columns (0, 1) exactly when none are given",
               construct="default utilities")
    # bound
    rb = A.run(cls + ".bound", cls_ctx=cls)
    spec = A.entry(rb, "pd.Series(self.eps, index=self.index)", {"pd": glob("pandas")})
    A.formula("R06.2", rb.func, None, rb.ret, spec, "bound() = eps on every constraint", construct="bound formula")
    utility_parity_ctor_table(ctx, "R06.2")


FLATTEN_FUNCS = ("numpy.squeeze", "numpy.ravel")
FLATTEN_METHODS = ("squeeze", "ravel", "flatten")


def flattened_prediction(ctx, A, r, h: T, rule: str, what: str):
    """An ndarray prediction of shape (n, 1) must be flattened before it meets the (n,) label / utility vectors (otherwise
    broadcasting yields an (n, n) array): every use of the predictor's result h in the returned value goes through
    squeeze / ravel / flatten / reshape(-1), unconditionally or under isinstance(h, np.ndarray)."""
    nd = mk("call", glob("builtins.isinstance"), (h, glob("numpy.ndarray")), ())

    def is_flat(x):
        if x.op == "call" and x.args[0].op == "global" and x.args[0].args[0] in FLATTEN_FUNCS and x.args[1] and x.args[1][0] is h:
            return True
        if x.op == "call" and x.args[0].op == "attr" and x.args[0].args[0] is h and (
                x.args[0].args[1] in FLATTEN_METHODS or (x.args[0].args[1] == "reshape" and x.args[1] and x.args[1][0] is const(-1))):
            return True
        return False

    def is_guarded(x):
        if x.op != "ite":
            return False
        if x.args[0] is nd:
            return is_flat(x.args[1]) and x.args[2] is h
        return x.args[0].op == "not" and x.args[0].args[0] is nd and is_flat(x.args[2]) and x.args[1] is h

    bare = []
    seen = set()
    stack = [r.ret] if r.ret is not None else []
    while stack:
        x = stack.pop()
        if not isinstance(x, T) or x.uid in seen:
            if isinstance(x, tuple):
                stack.extend(x)
            continue
        seen.add(x.uid)
        if is_flat(x) or is_guarded(x):
            continue
        if x is h:
            bare.append(x)
            continue
        if x is nd:
            continue
        stack.extend(a for a in x.args if isinstance(a, (T, tuple)))
    ok = r.ret is not None and not bare
    ctx.ob(rule, r.func, None, ok, f"{what}: an ndarray prediction is flattened (squeeze) before it is combined with the per-row "
           "vectors" if ok else f"{what}: the predictor's output is used without flattening: an (n, 1) ndarray prediction broadcasts "
           "against the (n,) vectors into an (n, n) array", construct=f"{what} flattens predictions")


def utility_parity_ctor_table(ctx, rule):
    """eps / ratio case table of UtilityParity.__init__ (exhaustive over order cells); shared by C06 R06.2 and C20 R20.11."""
    A = Analysis(ctx)
    cls = M_UP + ":UtilityParity"
    ri = A.run(cls + ".__init__", cls_ctx=cls)
    p = ri.params
    slack = 0.02
    n_cells = 0
    bad = []
    for d in (None, 0.05, 0.0):
        for rb_ in (None, -0.5, 0.0, 0.5, 1.0, 1.5, float("nan"), float("inf"), float("-inf")):   # `0 < nan <= 1` is False: rejected
            env = {p["difference_bound"]: d, p["ratio_bound"]: rb_, p["ratio_bound_slack"]: slack}
            n_cells += 1
            try:
                raised = any(e.kind == "raise" and pc_holds(e.pc, env) for e in ri.events)
                if raised:
                    got = "raise"
                else:
                    got = (concrete(ri.final.heap[(ri.self_term, "eps")], env),
                           concrete(ri.final.heap[(ri.self_term, "ratio")], env))
            except Raised:
                got = "raise"
            except (Unmodelled, KeyError) as ex:
                ctx.ob(rule, ri.func, None, None, f"constructor guard not modelled: {ex}", construct="ctor table")
                return
            if d is None and rb_ is None:
                want = (0.01, 1.0)
            elif rb_ is None:
                want = (d, 1.0)
            elif d is None and 0 < rb_ <= 1:
                want = (slack, rb_)
            else:
                want = "raise"
            if got != want:
                bad.append(f"(difference_bound={d}, ratio_bound={rb_}) -> {got}, documented {want}")
    # defaults of the constructor: a moment built with ratio_bound alone has slack 0.0, one built without bounds the 0.01 difference bound
    import ast as _ast
    node = ctx.prog.functions[ri.func].node
    names = [a.arg for a in node.args.args]
    dflt = dict(zip(names[len(names) - len(node.args.defaults):], node.args.defaults))
    dflt.update({a.arg: d for a, d in zip(node.args.kwonlyargs, node.args.kw_defaults) if d is not None})
    want_d = {"difference_bound": None, "ratio_bound": None, "ratio_bound_slack": 0.0}
    def _dval(k):
        if k not in dflt:
            return "<required>"
        t = A.ev.eval_src(_ast.unparse(dflt[k]), {}, module=M_UP)
        while t.op == "modconst":
            t = t.args[1]
        if t.op == "unop" and t.args[0] == "-" and t.args[1].op == "const":
            return -const_value(t.args[1])
        return const_value(t) if t.op == "const" else "<" + show(t, maxdepth=2)[:30] + ">"
    got_d = {k: _dval(k) for k in want_d}
    okd = all(k in dflt for k in want_d) and all(got_d[k] == want_d[k] and type(got_d[k]) is type(want_d[k]) or
                                                  (want_d[k] == 0.0 and got_d[k] == 0 and not isinstance(got_d[k], bool)) for k in want_d)
    ctx.ob(rule, ri.func, None, okd, "constructor defaults: difference_bound=None, ratio_bound=None, ratio_bound_slack=0.0" if okd else
           f"constructor defaults are {got_d}, documented {want_d}: a moment built without the argument gets another bound",
           construct="ctor defaults")
    ctx.exhaustive_spaces.append(f"UtilityParity.__init__: {n_cells} order cells of (difference_bound, ratio_bound)")
    ctx.ob(rule, ri.func, None, not bad,
           f"eps/ratio case table equals the documented one on all {n_cells} cells" if not bad else "; ".join(bad[:4]),
           construct="ctor eps/ratio table")



# ----------------------------------------------------------------------------- R06.3


def _lam_str_label(A, where):
    return A.at(where, 'y_train.apply(lambda v: _LABEL + "=" + str(v))')


def r063_events(ctx):
    ctx.rule("R06.3", "each parity moment builds the documented base event (DP/ERP: constant 'all'; TPR: label string "
                      "where y==1; FPR: where y==0; EO: label string on every row), validates the caller's y / sensitive "
                      "/ control features with enforce_binary_labels=True, merges the event with the control column and "
                      "hands the validated series to UtilityParity.load_data; ERP's utilities are [y, 1-y].")
    base = M_UP + ":UtilityParity.load_data"
    merge = M_UP + ":_merge_event_and_control_columns"
    val = M_IV + ":_validate_and_reformat_input"
    A = Analysis(ctx, no_inline=[base, merge, val])
    specs = {
        "DemographicParity": "pd.Series(data=_ALL, index=y_train.index)",
        "ErrorRateParity": "pd.Series(data=_ALL, index=y_train.index)",
        # y_train is binary (enforce_binary_labels=True is checked by this rule), so `!= 0` is `== 1`
        "TruePositiveRateParity": ['y_train.apply(lambda v: _LABEL + "=" + str(v)).where(y_train == 1)',
                                   'y_train.apply(lambda v: _LABEL + "=" + str(v)).where(y_train != 0)',
                                   'y_train.apply(lambda v: _LABEL + "=" + str(v)).mask(y_train == 0)',
                                   'y_train.apply(lambda v: _LABEL + "=" + str(v)).mask(y_train != 1)'],
        "FalsePositiveRateParity": ['y_train.apply(lambda v: _LABEL + "=" + str(v)).where(y_train == 0)',
                                    'y_train.apply(lambda v: _LABEL + "=" + str(v)).where(y_train != 1)',
                                    'y_train.apply(lambda v: _LABEL + "=" + str(v)).mask(y_train == 1)',
                                    'y_train.apply(lambda v: _LABEL + "=" + str(v)).mask(y_train != 0)'],
        "EqualizedOdds": 'y_train.apply(lambda v: _LABEL + "=" + str(v))',
    }
    n = 0
    for name in PARITY:
        cls = f"{M_UP}:{name}"
        fq = cls + ".load_data"
        r = A.run(fq, cls_ctx=cls)
        vcalls = calls_to(r, val)
        mcalls = calls_to(r, merge)
        scalls = calls_to(r, base)
        if not (len(vcalls) == 1 and len(mcalls) == 1 and len(scalls) == 1):
            ctx.ob("R06.3", fq, None, None, f"{name}.load_data: expected one validator call, one merge call and one "
                   f"base load_data call (found {len(vcalls)}, {len(mcalls)}, {len(scalls)})", construct="call structure")
            continue
        n += 1
        v, m, s = vcalls[0], mcalls[0], scalls[0]
        P = r.params
        ok = (arg(v, 0) is P["X"] and arg(v, 1, "y") is P["y"] and kw(v, "sensitive_features") is P["sensitive_features"]
              and kw(v, "control_features") is P["control_features"] and kw(v, "enforce_binary_labels") is const(True))
        ctx.ob("R06.3", fq, v.node, ok, "validator receives the caller's X, y, sensitive and control features with "
               "enforce_binary_labels=True", construct="validator call")
        res = v.data["result"]
        roles = {"y_train": mk("sub", res, const(1)), "pd": glob("pandas")}
        y_train, sf_train, cf_train = (mk("sub", res, const(i)) for i in (1, 2, 3))
        st = (s.state, M_UP, cls, r.self_term)
        sp = specs[name] if isinstance(specs[name], list) else [specs[name]]
        spec = [A.at((_with(s.state, roles), M_UP, cls, r.self_term), x) for x in sp]
        A.formula("R06.3", fq, m.node, arg(m, 0, "event_col"), spec, f"{name}: base event", construct="base event")
        ctx.ob("R06.3", fq, m.node, arg(m, 1, "control_col") is cf_train,
               "the event is merged with the validated control column", construct="merge control")
        ok = (arg(s, 0) is P["X"] and arg(s, 1, "y") is y_train and kw(s, "event") is m.data["result"]
              and kw(s, "sensitive_features") is sf_train)
        ctx.ob("R06.3", fq, s.node, ok, "UtilityParity.load_data receives X, the validated y, the merged event and the "
               "validated sensitive feature", construct="base load_data call")
        if name == "ErrorRateParity":
            u = kw(s, "utilities")
            spec = A.at((_with(s.state, roles), M_UP, cls, r.self_term), "np.vstack([y_train, 1 - y_train]).T",
                        {"np": glob("numpy")})
            ctx.ob("R06.3", fq, s.node, u is not None and A.eq(u, spec), "ErrorRateParity utilities are [y, 1 - y] "
                   "(the error indicator of predicting 0 / 1)", construct="ERP utilities")
        else:
            ctx.ob("R06.3", fq, s.node, kw(s, "utilities") is None, "no custom utilities (utility = prediction)",
                   construct="default utilities used")
    ctx.floor("R06.3", "parity moments with the validator/merge/base structure", n, 5)
    # the merge helper: identity without control, element-wise combine with the combiner otherwise
    A2 = Analysis(ctx)
    rm = A2.run(merge)
    P = rm.params
    comb = glob(M_UP + ":_combine_event_and_control")
    want = A2.C.canon(mk("ite", mk("cmp", "is", P["control_col"], NONE), P["event_col"],
                         mk("call", mk("attr", P["event_col"], "combine"), (P["control_col"], comb), ())))
    ctx.ob("R06.3", merge, None, A2.C.canon(rm.ret) is want,
           "merge = event when there is no control column, else event.combine(control, combiner)",
           construct="merge helper")
    # the combiner's formatting: control first, then event, through the constant format
    rc = A2.run(M_UP + ":_combine_event_and_control")
    fmt_calls = [e for e in rc.events if e.kind == "call" and e.data["fterm"].op == "attr"
                 and e.data["fterm"].args[1] == "format"]
    for e in fmt_calls:
        recv = e.data["fterm"].args[0]
        okf = is_str_const(recv) and const_value(recv).count("{") == 2 and tuple(e.data["args"]) == (
            rc.params["control"], rc.params["event"]) and const_value(recv).index("{0}") < const_value(recv).index("{1}")
        ctx.ob("R06.3", rc.func, e.node, okf, "stratified event = format(control, event) with the control value first",
               construct="control/event format")
    ctx.floor("R06.3", "format call in the combiner", len(fmt_calls), 1)


def _with(state, extra):
    s = state.fork()
    s.loc.update(extra)
    return s


# ----------------------------------------------------------------------------- R06.4 (D-NULL)


def _stringifies(t: T, x: T) -> bool:
    """Does term t contain a stringifying use of x (format / f-string / str() / + with a string)?"""
    for s in subterms(t):
        if s.op == "call":
            f, args, kwargs = s.args
            if f.op == "attr" and f.args[1] in ("format", "join", "format_map") and (
                    any(a is x for a in args) or any(v is x for _, v in kwargs)):
                return True
            if f.op == "global" and f.args[0] in ("builtins.str", "builtins.repr", "builtins.format") and any(
                    a is x for a in args):
                return True
        if s.op == "fmtval" and s.args[0] is x:
            return True
        if s.op == "binop" and s.args[0] in ("+", "%") and (s.args[1] is x or s.args[2] is x):
            other = s.args[2] if s.args[1] is x else s.args[1]
            if other.op in ("const", "fstr") and (other.op != "const" or isinstance(const_value(other), str)):
                return True
    return False


def _null_guard(pc, x: T) -> bool:
    """Is some literal of the path condition a (positive) non-null test of x?  Decided semantically first: with x null the
    path is infeasible (covers `not (isnull(c) or isnull(x))`, guard clauses, De Morgan forms)."""
    if any(_eval_nulls(c, {x: False}, nan_only=True) is False for c in pc):
        return True
    for c in pc_literals(pc):
        pos = True
        while c.op == "not":
            pos = not pos
            c = c.args[0]
        if c.op == "call" and c.args[0].op == "global" and c.args[1] and c.args[1][0] is x:
            n = c.args[0].args[0]
            if n in ("pandas.notnull", "pandas.notna") and pos:
                return True
            if n in ("pandas.isnull", "pandas.isna", "numpy.isnan", "math.isnan") and not pos:
                return True
        if c.op == "cmp" and c.args[0] in ("==",) and c.args[1] is x and c.args[2] is x and pos:
            return True  # x == x is a NaN test
    return False


def _eval_nulls(c: T, env: dict, nan_only=False):
    """Truth value of a path literal when the values in env are known to be non-null (True) / null (False); None = unknown.
    nan_only: the null value is NaN (the result of Series.where), for which `x is None` says nothing."""
    if c.op == "not":
        v = _eval_nulls(c.args[0], env, nan_only)
        return None if v is None else not v
    if c.op in ("and", "or"):
        vs = [_eval_nulls(x, env, nan_only) for x in c.args[0]]
        if c.op == "and":
            return False if any(v is False for v in vs) else (True if all(v is True for v in vs) else None)
        return True if any(v is True for v in vs) else (False if all(v is False for v in vs) else None)
    if c.op == "call" and c.args[0].op == "global" and c.args[1] and c.args[1][0] in env:
        n = c.args[0].args[0]
        if n in ("pandas.notnull", "pandas.notna"):
            return env[c.args[1][0]]
        if n in ("pandas.isnull", "pandas.isna", "numpy.isnan", "math.isnan"):
            return not env[c.args[1][0]]
    if c.op == "cmp" and c.args[0] in ("is", "is not") and NONE in (c.args[1], c.args[2]) and not nan_only:
        x = c.args[1] if c.args[2] is NONE else c.args[2]
        if x in env:
            return (not env[x]) if c.args[0] == "is" else env[x]
    if c.op == "cmp" and c.args[0] == "==" and c.args[1] is c.args[2] and c.args[1] in env:
        return env[c.args[1]]
    return None


def r064_null(ctx):
    ctx.rule("R06.4", "a null event (a row outside the conditioned label class, produced by Series.where) stays null "
                      "through the merge with the control column: no stringification of a nullable event on a path "
                      "that is not guarded by a null test of that value.")
    A = Analysis(ctx)
    merge = M_UP + ":_merge_event_and_control_columns"
    rm = A.run(merge)
    # producers: are there moments whose base event is nullable?
    nullable_moments = []
    Ap = Analysis(ctx, no_inline=[merge, M_UP + ":UtilityParity.load_data", M_IV + ":_validate_and_reformat_input"])
    for name in PARITY:
        r = Ap.run(f"{M_UP}:{name}.load_data", cls_ctx=f"{M_UP}:{name}")
        for m in calls_to(r, merge):
            a0 = arg(m, 0, "event_col")
            if a0 is not None and contains(a0, lambda s: s.op == "call" and s.args[0].op == "attr"
                                           and s.args[0].args[1] in ("where", "mask")):
                nullable_moments.append(name)
    ctx.floor("R06.4", "moments with a nullable (where-masked) base event", len(nullable_moments), 2)
    # consumers: the element-wise combiner(s) applied to the event column
    combiners = []
    for e in rm.events:
        if e.kind == "call" and e.data["fterm"].op == "attr" and e.data["fterm"].args[1] == "combine" \
                and e.data["fterm"].args[0] is rm.params["event_col"]:
            f = arg(e, 1, "func")
            if f is not None and f.op == "global" and f.args[0] in ctx.prog.functions:
                combiners.append((f.args[0], 0))  # the event element is the combiner's first parameter
            elif f is not None:
                ctx.ob("R06.4", merge, e.node, None, "combiner is not a resolvable in-repo function", construct="combiner")
    # the event column may also be stringified directly in the merge helper
    for e in rm.events:
        if e.kind in ("return",) and _stringifies(e.data["value"], rm.params["event_col"]):
            ctx.ob("R06.4", merge, e.node, False, "the nullable event column is stringified as a whole",
                   construct="merge stringification")
    ctx.floor("R06.4", "element-wise combiners of (event, control)", len(combiners), 1)
    for fq, idx in combiners:
        rc = A.run(fq)
        fi = ctx.prog.functions[fq]
        pname = fi.params()[idx]
        x = rc.params[pname]
        n_ret = 0
        for e in rc.events:
            if e.kind != "return" or e.func != fq:
                continue
            n_ret += 1
            if _stringifies(e.data["value"], x):
                ok = _null_guard(e.pc, x)
                ctx.ob("R06.4", fq, e.node, ok,
                       "event is formatted into a string only under a non-null test of the event" if ok else
                       f"a null event (row outside the conditioned class; moments {', '.join(nullable_moments)}) is "
                       f"formatted into a string such as 'control=u,nan' and becomes a spurious event",
                       construct="stringification of nullable event")
            else:
                ctx.ob("R06.4", fq, e.node, True, "return path does not stringify the event", construct="return path " + str(n_ret))
                # completeness: with event and control both non-null this path must be infeasible, otherwise the control
                # stratum of an ordinary row is dropped from its event label
                env = {p_: True for p_ in rc.params.values()}
                vals = [_eval_nulls(c, env) for c in e.pc]
                feasible = all(v is not False for v in vals)
                ctx.ob("R06.4", fq, e.node, not feasible, "the bare event is returned only when the event or the control value is "
                       "null" if not feasible else "a row whose event and control value are both present can leave the combiner "
                       "without its control stratum: the (event, control) strata are merged", construct="control stratum kept " + str(n_ret))
        ctx.floor("R06.4", "return paths of the combiner", n_ret, 2)
    # load_data must group on the event column without filling nulls
    rl = A.run(M_UP + ":UtilityParity.load_data", cls_ctx=M_UP + ":UtilityParity")
    fills = [e for e in rl.events if e.kind == "call" and e.data["fterm"].op == "attr"
             and e.data["fterm"].args[1] in ("fillna", "ffill", "bfill") and e.func == rl.func]
    ctx.ob("R06.4", rl.func, fills[0].node if fills else None, not fills,
           "the event column is never null-filled before grouping" if not fills else "null events are filled before grouping",
           construct="no fillna on events")


# ----------------------------------------------------------------------------- R06.5


def r065_losses(ctx):
    ctx.rule("R06.5", "ConditionalLossMoment.gamma = per-group mean of loss.eval(label, prediction); SquareLoss / "
                      "AbsoluteLoss clip both arguments to the same bounds; ErrorRate.gamma = (c_fn * sum of positive "
                      "signed errors + c_fp * sum of negated negative signed errors) / n with error = y - h.")
    A = Analysis(ctx)
    cls = M_BGL + ":ConditionalLossMoment"
    r = A.run(cls + ".gamma", cls_ctx=cls)
    calls = [e for e in r.events if e.kind == "call" and e.data["fterm"] is r.params["predictor"]]
    ctx.floor("R06.5", "predictor calls in ConditionalLossMoment.gamma", len(calls), 1)
    h = calls[0].data["result"]
    ctx.ob("R06.5", r.func, calls[0].node, A.eq(arg(calls[0], 0), A.entry(r, "self.X")),
           "the predictor is evaluated on the loaded X", construct="predictor(self.X)")
    roles = {"tags": A.entry(r, "self.tags"), "h": h, "loss": A.entry(r, "self.reduction_loss")}
    mod = M_BGL
    L = A.ev.eval_src("loss.eval(tags[_LABEL], h)", roles, module=mod)
    roles["L"] = L
    specs = []
    t2 = mk("upd", mk("upd", roles["tags"], A.ev.eval_src("_PREDICTION", {}, module=mod), h),
            A.ev.eval_src("_LOSS", {}, module=mod), L)
    roles["t2"] = t2
    for s in ("t2.groupby(_GROUP_ID).mean()[_LOSS]", "t2.groupby(_GROUP_ID)[_LOSS].mean()",
              "L.groupby(t2[_GROUP_ID]).mean()"):
        specs.append(A.ev.eval_src(s, roles, module=mod))
    A.formula("R06.5", r.func, None, r.ret, specs, "group loss gamma", construct="ConditionalLossMoment.gamma")
    for lc, outer in (("SquareLoss", "({d}) ** 2"), ("AbsoluteLoss", "np.abs({d})")):
        c = f"{M_BGL}:{lc}"
        re_ = A.run(c + ".eval", cls_ctx=c)
        d = "np.clip(y_true, self.min_val, self.max_val) - np.clip(y_pred, self.min_val, self.max_val)"
        spec = A.entry(re_, outer.format(d=d), {"np": glob("numpy")})
        A.formula("R06.5", re_.func, None, re_.ret, spec, f"{lc}.eval", construct=f"{lc}.eval formula")
    # ErrorRate.gamma
    cls = M_ER + ":ErrorRate"
    r = A.run(cls + ".gamma", cls_ctx=cls)
    calls = [e for e in r.events if e.kind == "call" and e.data["fterm"] is r.params["predictor"]]
    ctx.floor("R06.5", "predictor calls in ErrorRate.gamma", len(calls), 1)
    h = calls[0].data["result"]
    ctx.ob("R06.5", r.func, calls[0].node, A.eq(arg(calls[0], 0), A.entry(r, "self.X")),
           "the predictor is evaluated on the loaded X", construct="predictor(self.X)")
    roles = {"y": A.entry(r, "self.tags[_LABEL]"), "h": h, "cfn": A.entry(r, "self.fn_cost"),
             "cfp": A.entry(r, "self.fp_cost"), "n": A.entry(r, "self.total_samples"), "np": glob("numpy"),
             "pd": glob("pandas"), "idx": A.entry(r, "self.index")}
    variants = []
    for pos in ("np.sum(e[e > 0] * cfn)", "cfn * np.sum(e[e > 0])", "np.sum(e[e > 0]) * cfn"):
        for negp in ("np.sum(-e[e < 0] * cfp)", "cfp * np.sum(-e[e < 0])", "-cfp * np.sum(e[e < 0])",
                     "np.sum(-e[e < 0]) * cfp"):
            variants.append(f"pd.Series(data=({pos} + {negp}) / n, index=idx)")
    roles["e"] = A.ev.eval_src("y - h", roles, module=M_ER)
    specs = [A.ev.eval_src(v, roles, module=M_ER) for v in variants]
    A.formula("R06.5", r.func, None, r.ret, specs, "cost-weighted error", construct="ErrorRate.gamma formula")
    # the clipping range used by eval is the constructor's (min_val, max_val); ZeroOneLoss is AbsoluteLoss(0, 1)
    Ac = Analysis(ctx, max_depth=2)
    for name in ("SquareLoss", "AbsoluteLoss"):
        c_ = f"{M_BGL}:{name}"
        ri = Ac.run(c_ + ".__init__", cls_ctx=c_)
        h = ri.final.heap if ri.final else {}
        ok = h.get((ri.self_term, "min_val")) is ri.params["min_val"] and h.get((ri.self_term, "max_val")) is ri.params["max_val"]
        ctx.ob("R06.5", ri.func, None, ok, f"{name} keeps (min_val, max_val) as given", construct=f"{name} clipping range")
    c_ = f"{M_BGL}:ZeroOneLoss"
    rz = Ac.run(c_ + ".__init__", cls_ctx=c_)
    h = rz.final.heap if rz.final else {}
    ok = h.get((rz.self_term, "min_val")) is const(0) and h.get((rz.self_term, "max_val")) is const(1)
    ctx.ob("R06.5", rz.func, None, ok, "ZeroOneLoss clips to [0, 1]", construct="ZeroOneLoss range")

def r066_loss_moment_wiring(ctx):
    ctx.rule("R06.6", "ConditionalLossMoment: bound() = upper_bound on the group index (raises when unset); with no_groups every "
                      "row belongs to the single group 'all'; the group index is that of P(g); BoundedGroupLoss uses groups, "
                      "MeanLoss none; ErrorRate's index is ['all'] and its gamma is indexed by it")
    A = Analysis(ctx, no_inline=[M_IV + ":_validate_and_reformat_input", M_MOMENT + ":Moment.load_data"])
    cls = M_BGL + ":ConditionalLossMoment"
    rb = A.run(cls + ".bound", cls_ctx=cls)
    want = A.entry(rb, "pd.Series(self.upper_bound, index=self.index)", {"pd": glob("pandas")})
    raises = [e for e in rb.events if e.kind == "raise" and e.pc and A.C.canon(e.pc[-1]) is A.C.canon(A.entry(rb, "self.upper_bound is None"))]
    rets = [e for e in rb.events if e.kind == "return" and e.func == rb.func]
    ok = bool(raises) and len(rets) == 1 and A.eq(rets[0].data["value"], want)
    ctx.ob("R06.6", rb.func, None, ok, "bound() = Series(upper_bound) on the group index; raises without an upper bound",
           construct="ConditionalLossMoment.bound")
    rl = A.run(cls + ".load_data", cls_ctx=cls)
    sup = calls_to(rl, M_MOMENT + ":Moment.load_data")
    val = calls_to(rl, M_IV + ":_validate_and_reformat_input")
    ok = len(sup) == 1 and len(val) == 1
    if ok:
        res = val[0].data["result"]
        y_tr, sf_tr = mk("sub", res, const(1)), mk("sub", res, const(2))
        sf = kw(sup[0], "sensitive_features")
        allc = A.ev.eval_src("_ALL", {}, module=M_BGL)
        c = A.C.canon(sf)
        want_none = A.C.canon(A.spec("y.apply(lambda v: A)", {"y": y_tr, "A": allc}))
        ok = c.op == "ite" and c.args[0] is A.C.canon(A.entry(rl, "self.no_groups")) and c.args[1] is want_none and c.args[2] is A.C.canon(sf_tr) \
            and arg(sup[0], 1) is y_tr and arg(sup[0], 0) is rl.params["X"] and kw(val[0], "enforce_binary_labels") is const(False)
    ctx.ob("R06.6", rl.func, sup[0].node if sup else None, ok, "groups are the validated sensitive feature, or the constant "
           "'all' when no_groups is set; labels are not forced to be binary", construct="ConditionalLossMoment groups")
    st = stores_attr(rl, "_index")
    ok = bool(st) and all(A.eq(e.data["value"], A.at(e, "self.prob_attr.index")) for e in st)
    ctx.ob("R06.6", rl.func, st[0].node if st else None, ok, "the constraint index is the index of the group frequencies",
           construct="ConditionalLossMoment index")
    for name, flag in (("BoundedGroupLoss", False), ("MeanLoss", True)):
        c2 = f"{M_BGL}:{name}"
        ri = A.run(c2 + ".__init__", cls_ctx=c2)
        v = ri.final.heap.get((ri.self_term, "no_groups")) if ri.final else None
        ok = v is const(flag) and ri.final.heap.get((ri.self_term, "reduction_loss")) is ri.params["loss"]
        ub = ri.final.heap.get((ri.self_term, "upper_bound")) if ri.final else None
        ok = ok and (ub is ri.params["upper_bound"] if name == "BoundedGroupLoss" else ub is NONE)
        ctx.ob("R06.6", ri.func, None, ok, f"{name} sets no_groups={flag}, keeps the given loss and " + ("the given upper bound" if name == "BoundedGroupLoss" else "has no bound"), construct=f"{name} constructor")
    ce = M_ER + ":ErrorRate"
    re_ = A.run(ce + ".load_data", cls_ctx=ce)
    st = stores_attr(re_, "_index")
    allc = A.ev.eval_src("_ALL", {}, module=M_ER)
    ok = bool(st) and all(e.data["value"] is mk("list", (allc,)) for e in st)
    ctx.ob("R06.6", re_.func, st[0].node if st else None, ok, "ErrorRate's constraint index is ['all']", construct="ErrorRate index")


def _shared_c06(ctx):
    from .c12 import LOAD_DATA, label_sinks
    ctx.rule("R06.7", "no caller-labelled pandas value reaches a label-aligning operation in any moment's load_data (shared with C12 R12.1)")
    label_sinks(ctx, "R06.7", [(f"{mod}:{c}.load_data", f"{mod}:{c}") for mod, c in LOAD_DATA])
