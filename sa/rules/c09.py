"""C09 - GridSearch: per-grid-point reduction, lock-step records, selection rule, grid generator."""
from __future__ import annotations

import ast

from ..terms import FALSE, NONE, TRUE, T, conj, const, const_value, contains, glob, mk, root_of, show, subterms
from .common import M_GG, M_GS, Analysis, arg, calls_to, dominates, kw, pc_literals, stores_attr

GS = M_GS + ":GridSearch"
GG = M_GG + ":_GridGenerator"


def _no_gen(fq, depth):
    return not fq.startswith(M_GG + ":")


def check(ctx):
    ctx.rule("R09.1", "for every grid column i: lambda = grid[i]; the base learner fitted is a fresh deep copy of the "
                      "configured estimator (never the estimator itself), or a constant DummyClassifier when only one "
                      "reduction label remains, and is fitted on (X, reduction labels, reduction weights)")
    ctx.rule("R09.2", "per grid point exactly one record is added to predictors_, objectives_, oracle_execution_times_, "
                      "lambda_vecs_[i] and gammas_[i], and objective / gamma are evaluated on the estimator fitted in this "
                      "iteration")
    ctx.rule("R09.3", "loss(i) = (1 - constraint_weight)*objectives_[i] + constraint_weight*max(gammas_[column i]) (the "
                      "complement taken at fit time, or an attribute that __init__ sets to 1 - constraint_weight); best_idx_ is the first argmin; predict / predict_proba "
                      "delegate to predictors_[best_idx_]")
    ctx.rule("R09.4", "the integer lattice is truncated to exactly grid_size entries, scaled by grid_limit / n_units, split "
                      "into non-negative positive / negative parts and mapped through the two bases; the recursion bounds "
                      "the remaining L1 budget by max_val - |current value|")
    ctx.rule("R09.5", "fit returns self")
    A = Analysis(ctx, inline=_no_gen, max_depth=3)
    r = A.run(GS + ".fit", cls_ctx=GS)
    fq = r.func
    bad = [(pc, v) for pc, v in r.returns if v is not r.self_term]
    ctx.ob("R09.5", fq, None, bool(r.returns) and not bad, "all normal exits return self" if not bad else
           "fit does not return self", construct="GridSearch.fit returns self")
    loops = [e for e in r.events if e.kind == "loop" and e.func == fq and not e.loops]
    grid_loop = [l for l in loops if l.data["iter"].op == "attr" and l.data["iter"].args[1] == "columns"]
    ctx.require(len(grid_loop) == 1, "anchor vanished: loop over grid.columns")
    L = grid_loop[0]
    lid, i = L.data["lid"], L.data["elem"]
    grid = L.data["iter"].args[0]
    body = [e for e in r.events if e.loops and e.loops[0] == lid and e.func == fq]
    # the grid: generated from the constraints' bases, or the supplied one
    gen = [e for e in r.events if e.kind == "call" and e.data.get("constructs") == GG]
    ok = False
    if gen:
        g = gen[0]
        want = [A.at(g, s) for s in ("self.grid_size", "self.grid_limit", "self.constraints.pos_basis", "self.constraints.neg_basis",
                                     "self.constraints.neg_basis_present",
                                     "self.constraints.default_objective_lambda_vec is not None", "self.grid_offset")]
        names7 = ("grid_size", "grid_limit", "pos_basis", "neg_basis", "neg_allowed", "force_L1_norm", "grid_offset")
        given7 = [arg(g, i_, nm_) for i_, nm_ in enumerate(names7)]   # by position or by keyword
        ok = len(g.data["args"]) + len(g.data["kwargs"]) == 7 and all(a is not None and A.eq(a, w) for a, w in zip(given7, want))
        cg = A.C.canon(grid)
        ok = ok and cg.op == "ite" and A.C.canon(A.at(L, "self.grid")) in (cg.args[1], cg.args[2])
    ctx.ob("R09.4", fq, gen[0].node if gen else None, ok, "the grid is the supplied one, or generated from (grid_size, "
           "grid_limit, the constraints' bases, objective-in-span flag, grid_offset)", construct="grid source")
    if gen:
        cg = A.C.canon(grid)
        is_none = A.C.canon(A.at(L, "self.grid is None"))
        gen_grid = mk("attr", gen[0].data["result"], "grid")
        okd = cg.op == "ite" and ((cg.args[0] is is_none and A.eq(cg.args[1], gen_grid) and A.eq(cg.args[2], A.at(L, "self.grid"))) or
                                  (cg.args[0] is A.C._not(is_none) and A.eq(cg.args[2], gen_grid) and A.eq(cg.args[1], A.at(L, "self.grid"))))
        ctx.ob("R09.4", fq, gen[0].node, okd, "a supplied grid is used as it is; the generator runs exactly when grid is None",
               construct="grid dispatch")
    # the moments are loaded with the caller's data before their bases / weights are read
    loads = [e for e in r.events if e.kind == "call" and e.func == fq and e.data["fterm"].op == "attr" and e.data["fterm"].args[1] == "load_data"]
    P = r.params

    def _data_call(e):
        return arg(e, 0, "X") is P["X"] and arg(e, 1, "y") is P["y"] and dict(e.data["kwargs"]).get("**") is P["kwargs"] and \
            not [l for l in pc_literals(e.pc) if l.op != "inloop"]
    cons = [e for e in loads if A.eq(e.data["fterm"].args[0], A.entry(r, "self.constraints"))]
    okl = len(cons) == 1 and _data_call(cons[0]) and cons[0].seq < L.seq and (not gen or cons[0].seq < gen[0].seq)
    ctx.ob("R09.1", fq, cons[0].node if cons else None, okl, "constraints.load_data(X, y, **kwargs) runs once, unconditionally, "
           "before the grid is built", construct="constraints loaded")
    objs = [e for e in loads if e not in cons]
    okl = len(objs) == 1 and _data_call(objs[0]) and objs[0].seq < L.seq and cons and \
        A.eq(objs[0].data["fterm"].args[0], A.at(objs[0], "self.constraints.default_objective()"))
    ctx.ob("R09.1", fq, objs[0].node if objs else None, okl, "the default objective of the constraints is loaded with the same "
           "data", construct="objective loaded")
    # R09.1
    fits = [e for e in body if e.kind == "call" and e.data["fterm"].op == "attr" and e.data["fterm"].args[1] == "fit"]
    sws = [e for e in body if e.kind == "call" and e.data["fterm"].op == "attr" and e.data["fterm"].args[1] == "signed_weights" and e.data["args"]]
    if len(fits) != 1 or len(sws) != 1:
        ctx.ob("R09.1", fq, L.node, False, f"expected one fit and one constraints.signed_weights(lambda) per grid point (found "
               f"{len(fits)}, {len(sws)})", construct="per-point structure")
        return
    f, sw = fits[0], sws[0]
    ok = A.eq(arg(sw, 0), mk("sub", grid, i))
    ctx.ob("R09.1", fq, sw.node, ok, "the multiplier of iteration i is grid[i]", construct="lambda = grid[i]")
    est = f.data["fterm"].args[0]
    yred = arg(f, 1)
    b = {"yr": yred, "np": glob("numpy"), "Dummy": glob("sklearn.dummy.DummyClassifier"), "deepcopy": glob("copy.deepcopy"),
         "clone": glob("sklearn.base.clone")}
    u = A.spec("np.unique(yr)", b)
    b["u"] = u
    cond = A.spec("len(u) == 1", b)
    dummy = A.spec('Dummy(strategy="constant", constant=u[0])', b)
    specs = [mk("ite", cond, dummy, A.at(f, c, b)) for c in ("deepcopy(self.estimator)", "clone(self.estimator)",
                                                             "clone(estimator=self.estimator, safe=False)")]
    okc = A.any_eq(est, specs)
    raw = A.at(f, "self.estimator")
    uses_raw = any(x is raw for x in (est, ) ) or (A.C.canon(est).op == "ite" and A.C.canon(raw) in A.C.canon(est).args[1:])
    ctx.ob("R09.1", fq, f.node, okc and not uses_raw, "the fitted learner is a fresh copy of the configured estimator (or a "
           "constant DummyClassifier for a single reduction label)" if okc and not uses_raw else
           f"the fitted learner is {A.show(est, 200)}", construct="fresh estimator per grid point")
    ctx.ob("R09.1", fq, f.node, arg(f, 0) is r.params["X"], "the learner is fitted on the caller's X", construct="fit X")
    # R09.2
    appends = {}
    for e in body:
        if e.kind == "call" and e.data["fterm"].op == "attr" and e.data["fterm"].args[1] == "append":
            recv_node = e.node.func.value if isinstance(e.node, ast.Call) and isinstance(e.node.func, ast.Attribute) else None
            if isinstance(recv_node, ast.Attribute) and isinstance(recv_node.value, ast.Name) and recv_node.value.id == "self" \
                    and recv_node.attr in ("predictors_", "objectives_", "oracle_execution_times_"):
                appends.setdefault(recv_node.attr, []).append(e)
    assigns = {}
    for e in body:
        if e.kind == "store" and e.data.get("tkind") == "sub" and isinstance(e.data.get("base_node"), ast.Attribute) \
                and e.data["base_node"].attr in ("lambda_vecs_", "gammas_"):
            assigns.setdefault(e.data["base_node"].attr, []).append(e)
    okn = all(len(appends.get(n, [])) == 1 and appends[n][0].pc == f.pc for n in ("predictors_", "objectives_", "oracle_execution_times_")) \
        and all(len(assigns.get(n, [])) == 1 and assigns[n][0].pc == f.pc and assigns[n][0].data["key"] is i for n in ("lambda_vecs_", "gammas_"))
    ctx.ob("R09.2", fq, L.node, okn, "exactly one unconditional record per grid point in each of predictors_, objectives_, "
           "oracle_execution_times_, lambda_vecs_[i], gammas_[i]" if okn else
           f"records per iteration: { {k: len(v) for k, v in {**appends, **assigns}.items()} }", construct="lock-step records")
    if not okn:
        return
    ok = arg(appends["predictors_"][0], 0) is est
    ctx.ob("R09.2", fq, appends["predictors_"][0].node, ok, "the stored predictor is the estimator fitted in this iteration",
           construct="stored predictor")
    ok = A.eq(assigns["lambda_vecs_"][0].data["value"], arg(sw, 0))
    ctx.ob("R09.2", fq, assigns["lambda_vecs_"][0].node, ok, "lambda_vecs_[i] is this iteration's multiplier", construct="stored lambda")
    # objective / gamma through a predictor of this iteration's estimator
    gam = assigns["gammas_"][0].data["value"]
    obj = arg(appends["objectives_"][0], 0)
    Xs = mk("param", "spec", "Xq")
    okg = oko = False
    want_pred = mk("call", mk("attr", est, "predict"), (Xs,), ())
    for term, kind in ((gam, "gamma"), (obj, "objective")):
        calls = [s for s in subterms(term) if s.op == "call" and s.args[0].op == "attr" and s.args[0].args[1] == "gamma" and s.args[1]]
        good = False
        for c in calls:
            fn = c.args[1][0]
            if fn.op in ("closure", "lam", "lambda"):
                out = A.ev.call_term(fn, [Xs], f.state.fork(), M_GS, GS, r.self_term)
                good = out is want_pred
            elif fn is mk("attr", est, "predict"):
                good = True     # the bound method itself: h(X) = est.predict(X)
            recv = c.args[0].args[0]
            if kind == "gamma":
                okg = good and A.eq(recv, A.at(f, "self.constraints")) and term is c
            else:
                oko = good and term.op == "sub" and term.args[1] is const(0)
    ctx.ob("R09.2", fq, assigns["gammas_"][0].node, okg, "gammas_[i] = constraints.gamma(h) with h(X) = predict of this "
           "iteration's estimator", construct="recorded gamma")
    ctx.ob("R09.2", fq, appends["objectives_"][0].node, oko, "objectives_[i] = objective.gamma(h).iloc[0] with the same h",
           construct="recorded objective")
    ctx.guard(_r093_selection, ctx)
    ctx.guard(_generator, ctx)
    ctx.guard(basis, ctx)
    ctx.guard(_shared_c09, ctx)
    ctx.rule("R09.8", "a moment that is loaded again (a second fit of the same GridSearch, or of the same moment object) recomputes "
                      "everything the reduction reads from it: no state of an earlier load survives (shared with C19 R19.5)")
    from .c19 import _reload_completeness
    ctx.aliased({"R19.5": "R09.8"}, _reload_completeness, ctx)

def _generator(ctx):
    A = Analysis(ctx, no_inline=[GG + ".build_integer_grid"], max_depth=2)
    r = A.run(GG + ".__init__", cls_ctx=GG)
    fq = r.func
    st = stores_attr(r, "grid")
    ctx.floor("R09.4", "stores of the generated grid", len(st), 1)
    e = st[0]
    P = r.params
    bg0 = calls_to(r, GG + ".build_integer_grid")
    ctx.require(bg0, "anchor vanished: build_integer_grid call")
    nun = arg(bg0[0], 0)
    b = {"pd": glob("pandas"), "relu": glob("spec.relu"), "acc": A.at(e, "self.accumulator"), "gs": P["grid_size"],
         "gl": P["grid_limit"], "nu": nun, "pb": P["pos_basis"], "nb": P["neg_basis"], "off": A.at(e, "self.grid_offset"),
         "float": glob("builtins.float")}
    pos = A.spec("pd.DataFrame(acc[:gs]).T * (float(gl) / nu)", b)
    b["pos"] = pos
    specs = [A.spec(s, b) for s in ('(pb.dot(relu(pos)) + nb.dot(relu(-pos))).add(off, axis="index")',
                                    '(pb.dot(relu(pos)) + nb.dot(relu(-pos))).add(off, axis=0)',
                                    '(pb.dot(relu(pos)) + nb.dot(relu(-pos))).add(off, axis="rows")')]
    A.formula("R09.4", fq, e.node, e.data["value"], specs, "grid = pos_basis.relu(c) + neg_basis.relu(-c) + offset with c = "
              "first grid_size lattice points * grid_limit / n_units", construct="grid formula")
    # the store happens only when the lattice has at least grid_size points
    lits = [A.C.canon(x) for x in pc_literals(e.pc)]
    bg = calls_to(r, GG + ".build_integer_grid")
    ok = bool(bg) and any(l is A.C.canon(A.spec("len(g) >= gs", {"g": bg[0].data["result"], "gs": P["grid_size"], "len": glob("builtins.len")}))
                          for l in lits)
    ctx.ob("R09.4", fq, e.node, ok, "the lattice is accepted only once it has at least grid_size points (so the truncation "
           "yields exactly grid_size)", construct="lattice size guard")
    # recursion budget
    A2 = Analysis(ctx, max_depth=1)
    ra = A2.run(GG + ".accumulate_integer_grid", cls_ctx=GG)
    rec = [x for x in ra.events if x.kind == "call" and x.data.get("callee") == GG + ".accumulate_integer_grid"]
    ctx.floor("R09.4", "recursive calls of the lattice builder", len(rec), 1)
    c = rec[0]
    lev = [x for x in ra.events if x.kind == "loop" and x.data.get("lid") == c.loops[-1]][0]
    cur = lev.data["elem"]
    # the remaining L1 budget r of this activation is whatever bounds the free coordinate: values range over
    # range(-r or 0, r + 1).  It may be a parameter (remaining budget) or computed from one (total - used).
    from ..alg import Rat, rat_subst
    rng = [x for x in subterms(lev.data["iter"]) if x.op == "call" and x.args[0] is glob("builtins.range") and len(x.args[1]) == 2]
    ctx.require(len({x.uid for x in rng}) == 1, "construct not modelled: the free coordinate does not range over range(lo, hi)")
    hi = rng[0].args[1][1]
    r_term = A2.spec("hi - 1", {"hi": hi})
    r_rat = A2.C._as_rat(A2.C.canon(r_term))
    params = [ra.params[n] for n in ctx.prog.functions[ra.func].params()[1:]]
    ctx.require(len(params) == 2 and len(c.data["args"]) == 2, "construct not modelled: the lattice recursion does not take (index, budget)")
    sub = {A2.C.canon(p_): A2.C._as_rat(A2.C.canon(a_)) for p_, a_ in zip(params, c.data["args"])}
    r_next = rat_subst(r_rat, sub)
    absv = A2.C._as_rat(A2.C.canon(A2.spec("abs(v)", {"v": cur, "abs": glob("builtins.abs")})))
    ok = A2.eq(arg(c, 0), A2.spec("i + 1", {"i": params[0]})) and r_next.equals(r_rat - absv)
    ctx.ob("R09.4", ra.func, c.node, ok, "the recursion continues with index + 1 and a remaining budget reduced by |current value|"
           if ok else "the remaining L1 budget of the next coordinate is not (this budget - |current value|): lattice points can exceed "
           "the L1 bound n_units, i.e. grid vectors with L1 norm above grid_limit", construct="L1 budget recursion")
    # the top-level call starts with the whole budget n_units
    Ab = Analysis(ctx, max_depth=1, inline=lambda f_, d_: False)
    rb = Ab.run(GG + ".build_integer_grid", cls_ctx=GG)
    top = [x for x in rb.events if x.kind == "call" and x.data["fterm"].op in ("boundmethod", "attr") and str(x.data["fterm"].args[1]).endswith("accumulate_integer_grid")]
    okt = len(top) == 1 and len(top[0].data["args"]) == 2
    if okt:
        sub0 = {A2.C.canon(p_): Ab.C._as_rat(Ab.C.canon(a_)) for p_, a_ in zip(params, top[0].data["args"])}
        # attributes of self read by r: their values at the call
        for atom in list(r_rat.num.atoms() | r_rat.den.atoms()):
            if atom.op == "attr" and atom.args[0] is ra.self_term:
                sub0[atom] = Ab.C._as_rat(Ab.C.canon(Ab.at(top[0], "self." + atom.args[1])))
        r0 = rat_subst(r_rat, sub0)
        okt = r0.equals(Ab.C._as_rat(Ab.C.canon(rb.params["n_units"]))) and top[0].data["args"][0] is const(0)
    ctx.ob("R09.4", rb.func, top[0].node if top else None, okt, "the recursion starts at coordinate 0 with the whole budget n_units",
           construct="L1 budget start")
    apps = [x for x in ra.events if x.kind == "call" and x.data["fterm"].op == "attr" and x.data["fterm"].args[1] == "append"
            and x.func == ra.func]
    rets = [x for x in ra.events if x.kind == "return" and x.func == ra.func and not x.data.get("bare", False) is False]
    early = [x for x in ra.events if x.kind == "return" and x.func == ra.func]
    base = A2.C.canon(A2.entry(ra, "i == self.dim", {"i": params[0]}))
    okb = len(apps) == 1 and [A2.C.canon(c) for c in apps[0].pc] == [base] and A2.eq(arg(apps[0], 0), A2.entry(ra, "self.entry.copy()")) \
        and not early and len(rec) == 1 and [A2.C.canon(c) for c in rec[0].pc if c.op != "inloop"] == [A2.C._not(base)]
    if apps:
        v = arg(apps[0], 0)
        entry = A2.entry(ra, "self.entry")
        is_copy = (v.op == "call" and v.args[0].op == "attr" and v.args[0].args[1] == "copy" and v.args[0].args[0] is entry) or \
                  (v.op == "call" and v.args[0].op == "global" and v.args[0].args[0] in ("numpy.array", "numpy.copy", "builtins.list",
                                                                                        "builtins.tuple", "copy.copy", "copy.deepcopy")
                   and v.args[1] and v.args[1][0] is entry)
        ctx.ob("R09.4", ra.func, apps[0].node, is_copy, "the recorded lattice point is a copy of the working vector" if is_copy else
               "the working vector itself is recorded: it is overwritten by later recursion steps, so all recorded points alias one "
               "array and the grid vectors are not distinct", construct="lattice point copied")
    ctx.ob("R09.4", ra.func, apps[0].node if apps else None, okb, "a lattice point is recorded exactly when all coordinates are "
           "set (index == dim), and otherwise every admissible value of the current coordinate is recursed into - no "
           "shortcut exits", construct="lattice recursion structure")
    vals = A2.C.canon(lev.data["iter"])
    free = A2.C.canon(A2.entry(ra, "range(-r if self.neg_allowed[i] else 0, r + 1)", {"r": r_term, "i": params[0]}))
    ok = contains(vals, lambda s: s is free)
    ctx.ob("R09.4", ra.func, lev.node, ok, "a free coordinate ranges over [-max_val (if negatives are allowed) or 0, max_val]",
           construct="coordinate range")


def _loop_init(v):
    """value of a loop-carried variable on entry to the outermost loop that carries it"""
    while v.op == "loopvar":
        v = v.args[2]
    return v


def basis(ctx):
    ctx.rule("R09.6", "the grid bases handed to the generator have one unit entry per column: UtilityParity writes the constant "
                      "1 at (('+', e, g), i) of pos_basis and (('-', e, g), i) of neg_basis with the same column counter, "
                      "advanced once per (event, non-final group); ConditionalLossMoment writes 1 at (group, i) - so grid "
                      "vectors are non-negative combinations whose L1 norm is the L1 norm of the coefficients")
    from .common import M_BGL, M_UP
    A = Analysis(ctx)
    cls = M_UP + ":UtilityParity"
    r = A.run(cls + ".load_data", cls_ctx=cls)
    fq = r.func
    st = [e for e in r.events if e.kind == "store" and e.data.get("tkind") == "sub" and e.func == fq and len(e.loops) == 2
          and isinstance(e.data.get("base_node"), ast.Attribute) and e.data["base_node"].attr == "loc"]
    names = {}
    for e in st:
        b = e.data["base_node"].value
        if isinstance(b, ast.Attribute):
            names.setdefault(b.attr, []).append(e)
    ok = set(names) == {"pos_basis", "neg_basis"} and all(len(v) == 1 for v in names.values())
    if ok:
        loops = {x.data.get("lid"): x for x in r.events if x.kind == "loop"}
        pe, ne = names["pos_basis"][0], names["neg_basis"][0]
        lo, li = loops[pe.loops[0]], loops[pe.loops[1]]
        ev_, g_ = lo.data["elem"], li.data["elem"]
        kp, kn = pe.data["key"], ne.data["key"]
        ok = pe.data["value"] is const(1) and ne.data["value"] is const(1) and kp.op == "tuple" and kn.op == "tuple" \
            and kp.args[0][0] is mk("tuple", (const("+"), ev_, g_)) and kn.args[0][0] is mk("tuple", (const("-"), ev_, g_)) \
            and kp.args[0][1] is kn.args[0][1]
        counter = kp.args[0][1]
        incs = [e for e in r.events if e.kind == "store" and e.data.get("tkind") == "name" and e.loops == pe.loops and e.func == fq
                and counter.op == "loopvar" and e.data["name"] == counter.args[0]]
        ok = ok and len(incs) == 1 and A.C._as_rat(A.C.canon(incs[0].data["value"])).equals(A.C._as_rat(A.C.canon(counter)) + A.C._as_rat(const(1))) \
            and len(incs[0].pc) == len([x for x in incs[0].pc if x.op == "inloop"])
        # groups: all but the last; events: the non-null events
        ok = ok and A.eq(li.data["iter"], A.at(li, "self.tags[_GROUP_ID].unique()[:-1]")) and A.eq(lo.data["iter"], A.at(lo, "self.tags[_EVENT].dropna().unique()"))
    if ok:
        b_ = {"pd": glob("pandas"), "E": lo.data["iter"], "G": A.at(lo, "self.tags[_GROUP_ID].unique()"), "I": A.at(lo, "self.index"),
              "len": glob("builtins.len"), "range": glob("builtins.range")}
        want = [A.spec(s_, b_) for s_ in ("pd.DataFrame(0.0, index=I, columns=range(len(E) * (len(G) - 1)))",
                                          "pd.DataFrame(0.0, index=I, columns=range(len(E) * (len(G) - 1))).sort_index()")]
        for nm in ("pos_basis", "neg_basis"):
            sts_ = stores_attr(r, nm)
            okf = len(sts_) == 1 and not sts_[0].loops and A.any_eq(sts_[0].data["value"], want)
            ctx.ob("R09.6", fq, sts_[0].node if sts_ else None, okf, f"{nm} starts as the zero frame on the constraint index with one "
                   "column per (event, non-final group)" if okf else f"{nm} does not start as zeros(index x #events*(#groups-1))",
                   construct=f"{nm} initial frame")
        for e_, sign in ((pe, "+"), (ne, "-")):
            lits = [l for l in pc_literals(e_.pc) if l.op != "inloop"]
            wantg = A.C.canon(A.spec("(sg, ev, g) in I", {"sg": const(sign), "ev": ev_, "g": g_, "I": b_["I"]}))
            okg = len(lits) == 1 and A.C.canon(lits[0]) is wantg
            ctx.ob("R09.6", fq, e_.node, okg, f"the '{sign}' entry is written exactly when ('{sign}', event, group) is a constraint",
                   construct=f"basis guard {sign}")
        ok = ok and counter.op == "loopvar" and _loop_init(counter) is const(0)
    ctx.ob("R09.6", fq, st[0].node if st else None, ok, "each basis column gets exactly one unit entry per sign, for the same "
           "(event, group) and column index; the counter advances once per pair" if ok else
           "the grid bases are not filled with one unit entry per (event, group, sign) and column", construct="UtilityParity bases")
    cls2 = M_BGL + ":ConditionalLossMoment"
    r2 = A.run(cls2 + ".load_data", cls_ctx=cls2)
    st2 = [e for e in r2.events if e.kind == "store" and e.data.get("tkind") == "sub" and e.func == r2.func and e.loops
           and isinstance(e.data.get("base_node"), ast.Attribute) and e.data["base_node"].attr == "loc"]
    ok = len(st2) == 1 and st2[0].data["value"] is const(1)
    if ok:
        lev = [x for x in r2.events if x.kind == "loop" and x.data.get("lid") == st2[0].loops[-1]][0]
        k = st2[0].data["key"]
        ok = k.op == "tuple" and k.args[0][0] is lev.data["elem"] and A.eq(lev.data["iter"], A.at(lev, "self.tags[_GROUP_ID].unique()"))
    if ok:
        cnt = k.args[0][1]
        cols = [e for e in r2.events if e.kind == "store" and e.data.get("tkind") == "sub" and e.func == r2.func and e.loops == st2[0].loops
                and e.data["key"] is cnt and e.seq < st2[0].seq]
        zero = A.spec("pd.Series(0.0, I)", {"pd": glob("pandas"), "I": A.at(lev, "self.index")})
        okz = len(cols) == 2 and all(A.eq(c.data["value"], zero) or A.eq(c.data["value"], A.spec("0 + z", {"z": zero})) for c in cols)
        incs = [e for e in r2.events if e.kind == "store" and e.data.get("tkind") == "name" and e.loops == st2[0].loops and e.func == r2.func
                and cnt.op == "loopvar" and e.data["name"] == cnt.args[0]]
        okz = okz and cnt.op == "loopvar" and _loop_init(cnt) is const(0) and len(incs) == 1 and \
            A.C._as_rat(A.C.canon(incs[0].data["value"])).equals(A.C._as_rat(A.C.canon(cnt)) + A.C._as_rat(const(1))) and \
            not [l for l in pc_literals(incs[0].pc) if l.op != "inloop" and l not in pc_literals(lev.pc)]
        ctx.ob("R09.6", r2.func, cols[0].node if cols else st2[0].node, okz, "column i of both bases starts as zeros on the group "
               "index and the column counter runs 0, 1, 2, ... (one column per group)", construct="ConditionalLossMoment columns")
    ctx.ob("R09.6", r2.func, st2[0].node if st2 else None, ok, "one unit entry (group, i) per group column", construct="ConditionalLossMoment basis")


def _shared_c09(ctx):
    """Life-cycle (history independence, pure prediction) and label-position clauses of the estimator(s) this property
    is about, shared with C19 R19.3/R19.4 and C12 R12.1 and reported under this property's rule ids."""
    from .c12 import label_sinks
    from .c19 import lifecycle_of
    ctx.rule("R09.7", "fit does not depend on state left by an earlier fit and prediction writes no state (shared with C19 R19.3 / R19.4)")
    lifecycle_of(ctx, [GS], {"R19.3": "R09.7", "R19.4": "R09.7", "R19.6": "R09.7", "R19.8": "R09.7"})
    ctx.rule("R09.8", "no caller-labelled pandas value reaches a label-aligning operation on the paths of this property (shared with C12 R12.1)")
    label_sinks(ctx, "R09.8", [(GS + ".fit", GS)])


def _r093_selection(ctx):
    """best_idx_ and the delegation of predict; a rule group of its own (the selection is often rewritten independently of the loop)."""
    A = Analysis(ctx, inline=_no_gen, max_depth=3)
    r = A.run(GS + ".fit", cls_ctx=GS)
    fq = r.func
    loops = [e for e in r.events if e.kind == "loop" and e.func == fq and not e.loops]
    grid_loop = [l for l in loops if l.data["iter"].op == "attr" and l.data["iter"].args[1] == "columns"]
    ctx.require(len(grid_loop) == 1, "anchor vanished: loop over grid.columns")
    grid = grid_loop[0].data["iter"].args[0]
    # R09.3 selection
    bi = stores_attr(r, "best_idx_")
    ctx.floor("R09.3", "stores of best_idx_", len(bi), 1)
    e = bi[0]
    v = e.data["value"]
    ok = False
    loss_ok = False
    uses_ow = True
    if v.op == "call" and v.args[0].op == "attr" and v.args[0].args[1] == "index" and v.args[1] and v.args[1][0].op == "call" \
            and v.args[1][0].args[0] is glob("builtins.min") and v.args[1][0].args[1][0] is v.args[0].args[0]:
        losses = v.args[0].args[0]
        ok = True
        if losses.op != "comp" and A.C.canon(losses).op == "comp":
            losses = A.C.canon(losses)     # list(map(loss, range(n))) and similar spellings of the comprehension
        lo = losses
        while lo.op == "assume":
            lo = lo.args[1]
        if lo.op == "loopout" and lo.args[2].op == "list" and not lo.args[2].args[0] and len(lo.args[3]) == 1 and lo.args[1].op == "elem":
            # losses = []; for ...: losses.append(elt)  - one unconditional append per element: the list [elt for ...]
            v_ = lo.args[3][0]
            while v_.op == "assume":
                v_ = v_.args[1]
            if v_.op == "listappend" and v_.args[0].op == "loopvar":
                losses = mk("comp", "list", v_.args[1], ((lo.args[1].args[0], ()),))
        if losses.op == "comp" and losses.args[0] == "list":
            elt, gens = losses.args[1], losses.args[2]
            k = mk("elem", gens[0][0])
            okr = A.eq(gens[0][0], A.at(e, "range(len(self.objectives_))"))
            want = A.at(e, "self.objective_weight * self.objectives_[K] + self.constraint_weight * self.gammas_[G.columns[K]].max()",
                        {"K": k, "G": grid})
            direct = A.at(e, "(1.0 - self.constraint_weight) * self.objectives_[K] + self.constraint_weight * self.gammas_[G.columns[K]].max()",
                          {"K": k, "G": grid})
            uses_ow = contains(elt, lambda s_: s_.op == "attr" and s_.args[1] == "objective_weight")
            loss_ok = okr and (A.eq(elt, direct) or A.eq(elt, want))
            if not loss_ok and len(gens) == 1 and not gens[0][1]:
                # other walks over the same positions: objectives_ has exactly one record per grid column in column order
                # (R09.2), so each of these visits the pairs (objectives_[i], grid.columns[i]) in order
                bi_ = {"G": grid, "zip": glob("builtins.zip"), "enumerate": glob("builtins.enumerate")}
                k0, k1 = mk("sub", k, const(0)), mk("sub", k, const(1))
                walks = [("zip(self.objectives_, G.columns)", "O0", "self.gammas_[O1]"),
                         ("enumerate(G.columns)", "self.objectives_[O0]", "self.gammas_[O1]"),
                         ("enumerate(self.objectives_)", "O1", "self.gammas_[G.columns[O0]]"),
                         ("range(len(G.columns))", "self.objectives_[K]", "self.gammas_[G.columns[K]]")]
                for it_src, obj_src, gam_src in walks:
                    if not A.eq(gens[0][0], A.at(e, it_src, bi_)):
                        continue
                    b = {"O0": k0, "O1": k1, "K": k, "G": grid}
                    forms = [A.at(e, f"{w} * {obj_src} + self.constraint_weight * {gam_src}.max()", b)
                             for w in ("self.objective_weight", "(1.0 - self.constraint_weight)")]
                    loss_ok = loss_ok or any(A.eq(elt, f_) for f_ in forms)
    np_ok = v.op == "call" and v.args[0] is glob("numpy.argmin")
    ctx.ob("R09.3", fq, e.node, ok or np_ok, "best_idx_ is the first index attaining the minimum loss", construct="first argmin")
    ctx.ob("R09.3", fq, e.node, loss_ok, "loss(i) = (1 - constraint_weight)*objectives_[i] + constraint_weight*max(gammas_[grid "
           "column i])", construct="trade-off loss")
    A2 = Analysis(ctx)
    ri = A2.run(GS + ".__init__", cls_ctx=GS)
    ow = ri.final.heap.get((ri.self_term, "objective_weight"))
    cw = ri.final.heap.get((ri.self_term, "constraint_weight"))
    P = ri.params
    ok = ow is not None and cw is not None and A2.eq(ow, A2.spec("1.0 - c", {"c": P["constraint_weight"]})) and \
        (A2.eq(cw, P["constraint_weight"]) or A2.eq(cw, A2.spec("float(c)", {"c": P["constraint_weight"], "float": glob("builtins.float")})))
    if uses_ow:
        ctx.ob("R09.3", ri.func, None, ok, "objective_weight = 1 - constraint_weight", construct="weights complement")
    else:
        okc = cw is not None and (A2.eq(cw, P["constraint_weight"]) or A2.eq(cw, A2.spec("float(c)", {"c": P["constraint_weight"], "float": glob("builtins.float")})))
        ctx.ob("R09.3", ri.func, None, okc, "constraint_weight is stored as given; the objective's weight is its complement at fit time",
               construct="weights complement")
    for m in ("predict", "predict_proba"):
        rp = A2.run(f"{GS}.{m}", cls_ctx=GS)
        want = A2.entry(rp, f"self.predictors_[self.best_idx_].{m}(X)")
        ctx.ob("R09.3", rp.func, None, rp.ret is want, f"{m} delegates to predictors_[best_idx_].{m}(X)", construct=f"{m} delegation")
