"""C17 - adversarial fit is the documented step schedule; predict stays in label space."""
from __future__ import annotations

from ..region import Raised, Unmodelled, concrete, pc_holds
from ..terms import FALSE, NONE, TRUE, T, conj, const, const_value, contains, glob, mk, root_of, show, subterms
from .common import M_ADV, M_PRE, Analysis, arg, calls_to, dominates, kw, pc_literals, stores_attr

CLS = M_ADV + ":_AdversarialFairness"
VAL = CLS + "._validate_input"


def check(ctx):
    ctx.guard(r171_172, ctx)
    ctx.guard(r173, ctx)
    ctx.guard(r176_setup_once, ctx)
    ctx.guard(r177_training_mode, ctx)
    ctx.guard(r178_raw_output, ctx)
    ctx.guard(r174, ctx)
    ctx.guard(_shared_c17, ctx)
    from .c19 import _engine_rules
    ctx.rule("R17.9", "each back end seeds its library from the estimator's random_state_ every time it is built, before the networks are "
                      "created: fit and the equivalent partial_fit sequence start from the same weights (shared with C19 R19.10)")
    ctx.aliased({"R19.10": "R17.9"}, _engine_rules, ctx)

def _train_steps(r):
    return [e for e in r.events if e.kind == "call" and e.data["fterm"].op == "attr" and e.data["fterm"].args[1] == "train_step"]


def r171_172(ctx):
    ctx.rule("R17.1", "batch arithmetic: batch_size = n when -1; batches = ceil(n / batch_size); epochs = ceil(max_iter / "
                      "batches) when -1; the b-th batch is rows [b*batch_size, min((b+1)*batch_size, n)) of X, y and A")
    ctx.rule("R17.2", "per step, in this order: exactly one train_step, n_iter_ += 1, return when max_iter is reached, then "
                      "every callback is called with step=n_iter_ and fit returns when any of them returned True; n_iter_ is "
                      "reset to 0 before the loops")
    A = Analysis(ctx, no_inline=[VAL])
    r = A.run(CLS + ".fit", cls_ctx=CLS)
    fq = r.func
    v = calls_to(r, VAL)
    ctx.require(len(v) == 1, "anchor vanished: fit calls _validate_input once")
    res = v[0].data["result"]
    X, y, Asf = (mk("sub", res, const(i)) for i in range(3))
    P = r.params
    ok = arg(v[0], 0) is P["X"] and arg(v[0], 1) is P["y"] and arg(v[0], 2) is P["sensitive_features"]
    ctx.ob("R17.1", fq, v[0].node, ok, "fit validates the caller's X, y and sensitive features", construct="fit validation call")
    ts = _train_steps(r)
    if len(ts) != 1:
        ctx.ob("R17.2", fq, None, False, f"exactly one train_step call is expected in the batch loop (found {len(ts)})",
               construct="one train_step per iteration")
        return
    t = ts[0]
    loops = {e.data.get("lid"): e for e in r.events if e.kind == "loop"}
    if len(t.loops) != 2:
        ctx.ob("R17.2", fq, t.node, False, "train_step is not inside the epoch/batch double loop", construct="train_step nesting")
        return
    outer, inner = loops[t.loops[0]], loops[t.loops[1]]
    b = {"n": A.at(t, "X.shape[0]", {"X": X}), "ceil": glob("math.ceil"), "X": X, "rng": glob("builtins.range"),
         "min": glob("builtins.min"), "slc": glob("builtins.slice")}
    bs = mk("ite", A.at(t, "self.batch_size == -1"), b["n"], A.at(t, "self.batch_size"))
    b["bs"] = bs
    batches = A.spec("ceil(n / bs)", b)
    b["batches"] = batches
    epochs = mk("ite", A.at(t, "self.epochs == -1"), A.at(t, "ceil(self.max_iter / batches)", b), A.at(t, "self.epochs"))
    b["epochs"] = epochs
    ctx.ob("R17.1", fq, outer.node, A.eq(outer.data["iter"], A.spec("rng(epochs)", b)),
           "the outer loop runs `epochs` times (ceil(max_iter / batches) when epochs == -1)", construct="epoch loop bound")
    ctx.ob("R17.1", fq, inner.node, A.eq(inner.data["iter"], A.spec("rng(batches)", b)),
           "the inner loop runs ceil(n / batch_size) times (batch_size = n when -1)", construct="batch loop bound")
    bi = inner.data["elem"]
    b["bi"] = bi
    x_here = arg(t, 0).args[0] if arg(t, 0) is not None and arg(t, 0).op == "sub" else X
    b["n_here"] = A.spec("XH.shape[0]", {"XH": x_here})  # the (possibly shuffled) X of this epoch: same row count
    sl = A.spec("slc(bi * bs, min((bi + 1) * bs, n_here))", b)
    shuffled = any(e.kind == "call" and e.data["fterm"].op == "attr" and e.data["fterm"].args[1] == "shuffle" for e in r.events)
    okx = []
    for k, base in enumerate((X, y, Asf)):
        a = arg(t, k)
        ok = a is not None and a.op == "sub" and A.eq(a.args[1], sl)
        # the sliced array is the validated one, or its shuffled version (shuffle guarded by self.shuffle)
        src = a.args[0] if a is not None and a.op == "sub" else None
        ok = ok and src is not None and (src is base or contains(src, lambda s: s is base))
        okx.append(ok)
    ctx.ob("R17.1", fq, t.node, all(okx), "train_step receives rows [b*bs, min((b+1)*bs, n)) of the validated X, y and A",
           construct="batch slice")
    # shuffle only when self.shuffle
    sh = [e for e in r.events if e.kind == "call" and e.data["fterm"].op == "attr" and e.data["fterm"].args[1] == "shuffle"]
    ok = all(any(l is A.at(e, "self.shuffle") for l in pc_literals(e.pc)) for e in sh)
    ctx.ob("R17.1", fq, sh[0].node if sh else None, ok, "rows are shuffled only when shuffle is set", construct="shuffle guard",
           nontrivial=bool(sh))
    # ---- R17.2 order
    ev_in = [e for e in r.events if e.loops[:2] == t.loops]
    incs = [e for e in ev_in if e.kind == "store" and e.data.get("tkind") == "attr" and e.data["attr"] == "n_iter_"
            and e.data["obj"] is r.self_term]
    ok_inc = len(incs) == 1 and incs[0].seq > t.seq and incs[0].pc == t.pc
    if ok_inc:
        val = A.C.canon(incs[0].data["value"])
        rat = A.C._as_rat(val)
        ok_inc = len(rat.num.terms) == 2 and rat.num.terms.get((), 0) == 1 and rat.den.is_const()
    ctx.ob("R17.2", fq, incs[0].node if incs else None, ok_inc, "n_iter_ is incremented by one, once, right after the "
           "train_step of the same iteration", construct="n_iter_ increment")
    resets = [e for e in r.events if e.kind == "store" and e.data.get("tkind") == "attr" and e.data["attr"] == "n_iter_"
              and not e.loops and e.data["value"] is const(0)]
    ok = len(resets) == 1 and resets[0].seq < outer.seq
    ctx.ob("R17.2", fq, resets[0].node if resets else None, ok, "n_iter_ is reset to 0 before the loops", construct="n_iter_ reset")
    if not incs:
        return
    inc = incs[0]
    n_now = inc.data["value"]
    rets = [e for e in ev_in if e.kind == "return" and e.func == fq]
    maxret = [e for e in rets if e.seq > inc.seq and e.pc and A.C.canon(e.pc[-1]) is A.C.canon(
        A.spec("mi != -1 and ni >= mi", {"mi": A.at(t, "self.max_iter"), "ni": n_now}))]
    ctx.ob("R17.2", fq, maxret[0].node if maxret else None, len(maxret) == 1 and maxret[0].data["value"] is r.self_term,
           "fit returns self when max_iter != -1 and n_iter_ >= max_iter, tested after the increment",
           construct="max_iter stop")
    cbs = [e for e in ev_in if e.kind == "call" and e.data["fterm"].op == "elem" and len(e.loops) == 3]
    okc = len(cbs) == 1
    if okc:
        c = cbs[0]
        cl = loops[c.loops[2]]
        okc = any(A.eq(cl.data["iter"], A.at(t, f_)) for f_ in ("self.callbacks_", "self.callbacks_ or []", "self.callbacks_ or ()")) \
            and c.data["fterm"] is cl.data["elem"] \
            and kw(c, "step") is n_now and arg(c, 0) is r.self_term and bool(maxret) and c.seq > maxret[0].seq \
            and any(l is A.C.canon(l) or True for l in c.pc)
        # callbacks are skipped on the iteration that exhausts max_iter: pc carries the negated stop test
        neg_stop = A.C._not(A.C.canon(maxret[0].pc[-1])) if maxret else None
        okc = okc and any(A.C.canon(l) is neg_stop for l in c.pc)
        # the only other guard is "there are callbacks"
        have = A.at(t, "self.callbacks_")
        present = {A.C.canon(have), A.C.canon(mk("cmp", "is not", have, NONE)),
                   A.C.canon(A.spec("len(c) > 0", {"c": have, "len": glob("builtins.len")}))}
        tl = {A.C.canon(l) for l in t.pc}
        extra = [A.C.canon(l) for l in c.pc if l.op != "inloop" and A.C.canon(l) not in tl and A.C.canon(l) is not neg_stop]
        okc = okc and all(g in present for g in extra)
    ctx.ob("R17.2", fq, cbs[0].node if cbs else None, okc, "after the max_iter test, every callback in callbacks_ is called "
           "once with (self, step=n_iter_)", construct="callback invocation")
    stopret = [e for e in rets if cbs and e.seq > cbs[0].seq and e.data["value"] is r.self_term]
    oks = False
    if stopret and cbs:
        lit = stopret[0].pc[-1]
        # stop = stop or result, accumulated over the callbacks
        flag = [s for s in subterms(lit) if s.op == "loopout"]
        oks = bool(flag) or contains(lit, lambda s: s is cbs[0].data["result"])
        fname = flag[0].args[0] if flag else None
        acc = [e for e in ev_in if e.kind == "store" and e.data.get("tkind") == "name" and e.data["name"] == fname and len(e.loops) == 3]
        res_ = cbs[0].data["result"]
        # `stop = stop or result`, or `if result: stop = True` (the flag is raised exactly under the callback's own result)
        oks = oks and len(acc) == 1 and (
            (A.C.canon(acc[0].data["value"]).op == "or" and contains(acc[0].data["value"], lambda s: s is res_))
            or (acc[0].data["value"] is TRUE and any(l is res_ for l in pc_literals(acc[0].pc))))
        # the results of the step's callbacks collected in a list that starts empty, and the exit taken on any(list)
        anyc = [s for s in subterms(lit) if s.op == "call" and s.args[0] is glob("builtins.any") and len(s.args[1]) == 1 and not s.args[2]]
        if not oks and anyc and flag:
            lo = anyc[0].args[1][0]
            if lo.op == "loopout" and lo.args[2].op == "list" and not lo.args[2].args[0] and len(lo.args[3]) == 1:
                v_ = lo.args[3][0]
                while v_.op == "assume":
                    v_ = v_.args[1]
                collected = v_.op == "listappend" and v_.args[0].op == "loopvar" and v_.args[1] is res_
                cl, ca = A.C.canon(lit), A.C.canon(anyc[0])
                on_any = cl is ca or (cl.op == "and" and ca in cl.args[0] and all(x is ca or x in present for x in cl.args[0])) \
                    or (cl.op == "ite" and cl.args[0] in present and cl.args[1] is ca and cl.args[2] is FALSE)
                if collected and on_any:
                    ctx.ob("R17.2", fq, stopret[0].node, True, "fit returns self as soon as a callback of the current step returned a true "
                           "value (any() over the list of this step's results)", construct="callback stop")
                    oks = None
        if oks:
            inits = [e for e in ev_in if e.kind == "store" and e.data.get("tkind") == "name" and e.data["name"] == fname and len(e.loops) == 2
                     and e.seq < cbs[0].seq and e.data.get("scope") == acc[0].data.get("scope")]
            cl, cf_ = A.C.canon(lit), A.C.canon(flag[0])
            # `if stop:` or `if self.callbacks_ and <stop>:` (the presence test merged into the exit condition)
            exit_on_flag = cl is cf_ or (cl.op == "and" and cf_ in cl.args[0] and all(x is cf_ or x in present for x in cl.args[0]))
            oks = len(inits) == 1 and inits[0].data["value"] is FALSE and exit_on_flag
    if oks is not None:
        ctx.ob("R17.2", fq, stopret[0].node if stopret else None, oks, "fit returns self as soon as a callback of the current step "
               "returned a true value", construct="callback stop")
    # callbacks_ is a list of callables (from __setup)
    rs = A.run(CLS + ".__setup", cls_ctx=CLS)
    st = stores_attr(rs, "callbacks_")
    vals = {A.C.canon(e.data["value"]) for e in st}
    want = {NONE, A.C.canon(A.entry(rs, "self.callbacks")), A.C.canon(A.entry(rs, "[self.callbacks]"))}
    ctx.ob("R17.2", rs.func, st[0].node if st else None, vals == want, "callbacks_ is None, the given list, or the single "
           "callable wrapped in a list", construct="callbacks_ normalisation")


def r173(ctx):
    ctx.rule("R17.3", "partial_fit performs exactly one train_step on the outputs of the same _validate_input that fit uses, "
                      "and returns self")
    A = Analysis(ctx, no_inline=[VAL])
    r = A.run(CLS + ".partial_fit", cls_ctx=CLS)
    v = calls_to(r, VAL)
    ts = _train_steps(r)
    ok = len(v) == 1 and len(ts) == 1
    if ok:
        res = v[0].data["result"]
        P = r.params
        ok = (tuple(ts[0].data["args"]) == tuple(mk("sub", res, const(i)) for i in range(3)) and not ts[0].loops
              and arg(v[0], 0) is P["X"] and arg(v[0], 1) is P["y"] and arg(v[0], 2) is P["sensitive_features"]
              and dominates(v[0], ts[0]))
    ctx.ob("R17.3", r.func, ts[0].node if ts else None, ok, "one train_step on the validated (X, y, A), outside any loop",
           construct="partial_fit single step")
    if v:
        # the networks are (re)initialised by the first partial_fit only: the flag handed to _validate_input is
        # `not hasattr(self, "classes_")`, evaluated before partial_fit itself assigns classes_
        flag = arg(v[0], 3, "reinitialize")
        has = [e for e in r.events if e.kind == "call" and e.data.get("callee") == "builtins.hasattr" and e.data["args"]
               and e.data["args"][0] is r.self_term and e.data["args"][1] is const("classes_") and e.func == r.func]
        st_ = [e for e in r.events if e.kind == "store" and e.data.get("tkind") == "attr" and e.data["attr"] == "classes_" and e.func == r.func]
        okf = flag is not None and len(has) == 1 and A.C.canon(flag) is A.C._not(A.C.canon(has[0].data["result"])) \
            and all(has[0].seq < e.seq for e in st_)
        ctx.ob("R17.3", r.func, v[0].node, okf, "the networks are initialised on the first partial_fit only (flag = not hasattr(self, "
               "'classes_'), read before classes_ is assigned)" if okf else "the initialisation flag of partial_fit is not `not "
               "hasattr(self, 'classes_')`: a later partial_fit re-initialises the networks, or the first one does not",
               construct="partial_fit initialisation flag")
        want_g = A.C.canon(mk("and", (A.C._not(A.C.canon(has[0].data["result"])), mk("cmp", "is not", r.params["classes"], NONE)))) if has else None
        okg = bool(st_) and all(e.data["value"] is r.params["classes"] and [A.C.canon(l) for l in pc_literals(e.pc)] in (
            [want_g], [A.C._not(A.C.canon(has[0].data["result"])), A.C.canon(mk("cmp", "is not", r.params["classes"], NONE))]) for e in st_)
        ctx.ob("R17.3", r.func, st_[0].node if st_ else None, okg, "classes_ is taken from the classes argument on the first call only",
               construct="partial_fit classes_")
    # both entry points drive the same back-end object
    rf = A.run(CLS + ".fit", cls_ctx=CLS)
    tf = _train_steps(rf)
    same = bool(ts) and bool(tf) and show(ts[0].data["fterm"].args[0], maxdepth=3) == show(tf[0].data["fterm"].args[0], maxdepth=3)
    ctx.ob("R17.3", r.func, None, same, "fit and partial_fit step the same backendEngine_", construct="same engine")


def r176_setup_once(ctx):
    ctx.rule("R17.6", "_validate_input builds the networks (__setup) exactly when the estimator is not fitted yet or the caller asks for "
                      "re-initialisation (fit: always; partial_fit: first call only), and records classes_ under the same kind of "
                      "test - so a partial_fit sequence trains one pair of networks from start to end")
    setup = CLS + ".__setup"
    A = Analysis(ctx, no_inline=[setup])
    r = A.run(VAL, cls_ctx=CLS)
    fq = r.func
    P = r.params
    cs = calls_to(r, setup)
    hs = [e for e in r.events if e.kind == "handler" and e.func == fq]
    cif = [e for e in r.events if e.kind == "call" and e.data.get("callee") == "sklearn.utils.validation.check_is_fitted" and e.func == fq
           and e.data["args"] and e.data["args"][0] is r.self_term]
    # several call sites (the test regrouped under if / else): the disjunction of their guards must be the documented one
    fitted_terms = [x for e_ in cs for l_ in pc_literals(e_.pc) for x in subterms(l_)
                    if x.op == "ite" and x.args[0].op == "exc" and "NotFittedError" in show(x.args[0], maxdepth=2)]
    if len(cs) > 1 and len(cif) >= 1 and fitted_terms:
        ft = fitted_terms[0]
        fitted_when_exc = ft.args[1]     # value of the flag when NotFittedError was raised
        ok_shape = (fitted_when_exc is FALSE and ft.args[2] is TRUE)
        want_fn = lambda env: (not env["fitted"]) or env["reinit"]   # noqa: E731
        okm = ok_shape and _prop_equiv([e_.pc for e_ in cs], want_fn, {"reinit": P["reinitialize"], "fitted": ft}) \
            and all(arg(e_, 0) is not None and contains(arg(e_, 0), lambda s_: s_ is P["X"]) for e_ in cs)
        ctx.ob("R17.6", fq, cs[0].node, okm, "__setup runs exactly when not fitted or reinitialize is set (over all its call sites)" if okm else
               "__setup is guarded by another test: the networks are re-built by a later partial_fit (or never built)", construct="setup guard")
        st = [e for e in r.events if e.kind == "store" and e.data.get("tkind") == "attr" and e.data["attr"] == "classes_" and e.func == fq]
        has = mk("call", glob("builtins.hasattr"), (r.self_term, const("classes_")), ())
        okc = bool(st) and _prop_equiv([e_.pc for e_ in st], lambda env: env["reinit"] or not env["has"],
                                       {"reinit": P["reinitialize"], "has": has, "fitted": ft})
        ctx.ob("R17.6", fq, st[0].node if st else None, okc, "classes_ is (re)computed exactly when reinitialize is set or none is "
               "recorded yet", construct="classes_ guard")
        Af = Analysis(ctx, no_inline=[VAL])
        rf = Af.run(CLS + ".fit", cls_ctx=CLS)
        v = calls_to(rf, VAL)
        okf = len(v) == 1 and (kw(v[0], "reinitialize") is TRUE or arg(v[0], 3) is TRUE)
        ctx.ob("R17.6", rf.func, v[0].node if v else None, okf, "fit always re-initialises (reinitialize=True)", construct="fit reinitialises")
        return
    ok = len(cs) == 1 and len(cif) >= 1
    why = ""
    if ok:
        lits = [l for l in pc_literals(cs[0].pc)]
        g = lits[-1] if lits else None
        # accepted guard: (not <fitted>) or reinitialize, with <fitted> := no NotFittedError from check_is_fitted(self)
        only_flag = g is P["reinitialize"]  # also sound for this property: fit and the first partial_fit pass True
        ok = only_flag or (g is not None and g.op == "or" and len(g.args[0]) == 2 and P["reinitialize"] in g.args[0])
        if ok and not only_flag:
            other = [x for x in g.args[0] if x is not P["reinitialize"]][0]
            ok = other.op == "not" and other.args[0].op == "ite" and other.args[0].args[0].op == "exc" and \
                other.args[0].args[1] is FALSE and other.args[0].args[2] is TRUE and \
                "NotFittedError" in show(other.args[0].args[0], maxdepth=2)
        if not ok:
            why = show(g, maxdepth=4)[:120] if g is not None else "unconditional"
        ok = ok and arg(cs[0], 0) is not None and contains(arg(cs[0], 0), lambda s_: s_ is P["X"])
    ctx.ob("R17.6", fq, cs[0].node if cs else None, ok, "__setup runs exactly when not fitted or reinitialize is set" if ok else
           f"__setup is guarded by {why or 'another test'}: the networks are re-built by a later partial_fit (or never built)",
           construct="setup guard")
    st = [e for e in r.events if e.kind == "store" and e.data.get("tkind") == "attr" and e.data["attr"] == "classes_" and e.func == fq]
    has = mk("call", glob("builtins.hasattr"), (r.self_term, const("classes_")), ())
    want = A.C.canon(mk("or", (P["reinitialize"], mk("not", has))))
    okc = len(st) == 1 and [A.C.canon(l) for l in pc_literals(st[0].pc)][-1:] == [want]
    ctx.ob("R17.6", fq, st[0].node if st else None, okc, "classes_ is (re)computed exactly when reinitialize is set or none is "
           "recorded yet", construct="classes_ guard")
    # fit asks for re-initialisation
    Af = Analysis(ctx, no_inline=[VAL])
    rf = Af.run(CLS + ".fit", cls_ctx=CLS)
    v = calls_to(rf, VAL)
    okf = len(v) == 1 and (kw(v[0], "reinitialize") is TRUE or arg(v[0], 3) is TRUE)
    ctx.ob("R17.6", rf.func, v[0].node if v else None, okf, "fit always re-initialises (reinitialize=True)", construct="fit reinitialises")


def _prop_equiv(pcs, want_fn, atoms: dict) -> bool:
    """Is the disjunction of the given path conditions equivalent to want_fn over all truth assignments of the atoms?
    Literals that mention none of the atoms are ignored (they do not separate the call sites); a literal that mixes an atom with
    something else makes the answer False."""
    import itertools
    names = list(atoms)

    def ev(t, env):
        for nm in names:
            if t is atoms[nm]:
                return env[nm]
        if t.op == "not":
            v = ev(t.args[0], env)
            return None if v is None else (not v)
        if t.op in ("and", "or"):
            vs = [ev(x, env) for x in t.args[0]]
            if any(v is None for v in vs):
                return None
            return all(vs) if t.op == "and" else any(vs)
        if t is TRUE:
            return True
        if t is FALSE:
            return False
        return "free" if not any(contains(t, lambda s_, a_=atoms[nm]: s_ is a_) for nm in names) else None
    for vals in itertools.product((False, True), repeat=len(names)):
        env = dict(zip(names, vals))
        got = False
        for pc in pcs:
            vs = [ev(l, env) for l in pc_literals(pc) if l.op not in ("inloop", "exc")]
            if any(v is None for v in vs):
                return False
            if all(v is True or v == "free" for v in vs):
                got = True
        if got != bool(want_fn(env)):
            return False
    return True


def r178_raw_output(ctx, rule="R17.8"):
    ctx.rule(rule, "the raw output that predict thresholds is the predictor network's output on X: _raw_predict returns "
                      "backendEngine_.evaluate(validated X) and both engines' evaluate() apply predictor_model (not the adversary) "
                      "to X in evaluation mode")
    from .common import M_PT, M_TF
    A = Analysis(ctx, max_depth=1, inline=lambda f_, d_: False)
    r = A.run(CLS + "._raw_predict", cls_ctx=CLS)
    ev = [e for e in r.events if e.kind == "call" and e.data["fterm"].op == "attr" and e.data["fterm"].args[1] == "evaluate"]
    ok = len(ev) == 1 and A.eq(ev[0].data["fterm"].args[0], A.entry(r, "self.backendEngine_")) and r.ret is ev[0].data["result"] \
        and arg(ev[0], 0) is not None and contains(arg(ev[0], 0), lambda s_: s_ is r.params["X"])
    ctx.ob(rule, r.func, ev[0].node if ev else None, ok, "_raw_predict = backendEngine_.evaluate(validated X)", construct="raw predict")
    for mod, cls in ((M_PT, "PytorchEngine"), (M_TF, "TensorflowEngine")):
        re_ = A.run(f"{mod}:{cls}.evaluate", cls_ctx=f"{mod}:{cls}")
        calls = [e for e in re_.events if e.kind == "call" and e.data["fterm"].op == "attr" and e.data["fterm"].args[0] is re_.self_term
                 and e.data["fterm"].args[1] in ("predictor_model", "adversary_model")]
        ok = len(calls) == 1 and calls[0].data["fterm"].args[1] == "predictor_model" and contains(arg(calls[0], 0), lambda s_: s_ is re_.params["X"]) \
            and re_.ret is not None and contains(re_.ret, lambda s_: s_ is calls[0].data["result"])
        if cls == "TensorflowEngine":
            ok = ok and kw(calls[0], "training") is FALSE
        else:
            evs = [e for e in re_.events if e.kind == "call" and e.data["fterm"].op == "attr" and e.data["fterm"].args[1] == "eval"
                   and e.data["fterm"].args[0] is mk("attr", re_.self_term, "predictor_model")]
            ok = ok and bool(evs) and evs[0].seq < calls[0].seq
        ctx.ob(rule, re_.func, calls[0].node if calls else None, ok, f"{cls}.evaluate applies predictor_model to X in evaluation mode",
               construct=f"{cls}.evaluate")


def r177_training_mode(ctx):
    ctx.rule("R17.7", "every training step runs the networks in training mode, whatever happened since the last step: the PyTorch "
                      "engine calls .train() on both models before the forward passes of train_step, the TensorFlow engine never "
                      "calls a model with training=False there (Keras takes the mode per call; torch's .eval() of evaluate() "
                      "persists, so a predict between two steps must not leak into the next step)")
    from .common import M_PT, M_TF
    A = Analysis(ctx, max_depth=1, inline=lambda f_, d_: False)
    r = A.run(M_PT + ":PytorchEngine.train_step", cls_ctx=M_PT + ":PytorchEngine")
    fwd = [e for e in r.events if e.kind == "call" and e.data["fterm"].op == "attr" and e.data["fterm"].args[0] is r.self_term
           and e.data["fterm"].args[1] in ("predictor_model", "adversary_model")]
    for m in ("predictor_model", "adversary_model"):
        tr = [e for e in r.events if e.kind == "call" and e.data["fterm"].op == "attr" and e.data["fterm"].args[1] == "train"
              and e.data["fterm"].args[0] is mk("attr", r.self_term, m) and not e.pc and not e.loops
              and (not e.data["args"] or e.data["args"][0] is TRUE)]
        first = [e for e in fwd if e.data["fterm"].args[1] == m]
        ok = bool(tr) and bool(first) and tr[0].seq < first[0].seq
        ctx.ob("R17.7", r.func, tr[0].node if tr else (first[0].node if first else None), ok,
               f"{m}.train() precedes its forward pass in every train_step" if ok else
               f"train_step does not put {m} into training mode itself: after a predict() (evaluate() calls .eval()) the next steps "
               "train in evaluation mode, so fit with a predicting callback differs from the same partial_fit sequence",
               construct=f"torch training mode {m}")
    r2 = A.run(M_TF + ":TensorflowEngine.train_step", cls_ctx=M_TF + ":TensorflowEngine")
    for m in ("predictor_model", "adversary_model"):
        calls = [e for e in r2.events if e.kind == "call" and e.data["fterm"].op == "attr" and e.data["fterm"].args[0] is r2.self_term
                 and e.data["fterm"].args[1] == m]
        # Keras takes the mode per call (nothing persists from evaluate()); a training step must not ask for inference mode
        ok = bool(calls) and all(kw(e, "training") is not FALSE for e in calls)
        ctx.ob("R17.7", r2.func, calls[0].node if calls else None, ok, f"{m} is not called in inference mode in train_step (the "
               "mode is a per-call argument in Keras, so evaluate() cannot leak into the next step)",
               construct=f"tensorflow training mode {m}")


def r174(ctx):
    ctx.rule("R17.4", "predict = inverse_transform(predictor_function_(raw output)); predictor_function_ is, by target type: "
                      "binary -> (pred >= threshold_value) as float (threshold 0.5 by default), multiclass -> one-hot of "
                      "argmax(axis=1), continuous -> identity, anything else raises (exhaustive over the type strings)")
    A = Analysis(ctx, max_depth=3, no_inline=[CLS + "._raw_predict"])
    r = A.run(CLS + ".predict", cls_ctx=CLS)
    raw = calls_to(r, CLS + "._raw_predict")
    ok = len(raw) == 1 and arg(raw[0], 0) is r.params["X"]
    want = None
    if ok:
        want = A.entry(r, "self._y_transform.inverse_transform(self.predictor_function_(RAW))", {"RAW": raw[0].data["result"]})
    ctx.ob("R17.4", r.func, None, ok and r.ret is want, "predict = _y_transform.inverse_transform(predictor_function_("
           "_raw_predict(X)))", construct="predict pipeline")
    A2 = Analysis(ctx)
    rs = A2.run(CLS + "._set_predictor_function", cls_ctx=CLS)
    pf = mk("attr", rs.self_term, "predictor_function_")
    is_callable = mk("call", glob("builtins.callable"), (pf,), ())
    is_str = mk("call", glob("builtins.isinstance"), (pf, glob("builtins.str")), ())
    final = rs.final.heap.get((rs.self_term, "predictor_function_"), pf) if rs.final else pf
    outcomes = {}
    bad = []
    cells = [("binary", False, True), ("multiclass", False, True), ("continuous", False, True),
             ("multilabel-indicator", False, True), ("unknown", False, True), (None, False, False), ("fn", True, False)]
    try:
        for val, call_, str_ in cells:
            env = {pf: val, is_callable: call_, is_str: str_}
            raised = any(e.kind == "raise" and pc_holds(e.pc, env) for e in rs.events)
            if raised:
                outcomes[val] = "raise"
                continue
            # pick the selected alternative of the final heap term structurally
            outcomes[val] = _select(final, env)
    except (Unmodelled, Raised) as ex:
        ctx.ob("R17.4", rs.func, None, None, f"predictor-function dispatch not modelled: {ex}", construct="predictor function dispatch")
        return
    ctx.exhaustive_spaces.append(f"_set_predictor_function: {len(cells)} cells of the target type")
    for val in ("multilabel-indicator", "unknown", None):
        if outcomes[val] != "raise":
            bad.append(f"target type {val!r} is accepted")
    if outcomes["fn"] is not pf:
        bad.append("a callable predictor function is replaced")
    b = outcomes["binary"]
    if not (isinstance(b, T) and b.op == "boundmethod" and b.args[1].endswith("._binary_predictor_function")):
        bad.append(f"binary -> {b}")
    else:
        rb = A2.run(b.args[1], cls_ctx=CLS)
        spec = [A2.entry(rb, s) for s in ("(pred >= self.threshold_value).astype(float)", "(self.threshold_value <= pred).astype(float)",
                                          "(pred >= self.threshold_value) * 1.0")]
        A2.formula("R17.4", rb.func, None, rb.ret, spec, "binary prediction = 1[pred >= threshold_value]", construct="binary threshold")
    c = outcomes["continuous"]
    if not (isinstance(c, T) and c.op == "lam" and c.args[0] == 1 and c.args[1] is mk("bv", 0)):
        bad.append(f"continuous -> {show(c, maxdepth=3) if isinstance(c, T) else c} (expected the identity)")
    m = outcomes["multiclass"]
    if not (isinstance(m, T) and m.op == "closure"):
        bad.append(f"multiclass -> {m}")
    else:
        info = A2.ev.closures.get(m)
        pred = mk("param", "spec", "pred")
        st = rs.final.fork()
        rv = A2.ev.call_term(m, [pred], st, M_ADV, CLS, rs.self_term)
        b_ = {"pred": pred, "argmax": glob("numpy.argmax"), "zeros": glob("numpy.zeros"), "arange": glob("numpy.arange")}
        z = A2.spec("zeros(pred.shape, dtype=float)", b_)
        want = mk("upd", z, A2.spec("(arange(pred.shape[0]), argmax(pred, axis=1))", b_), const(1))
        okm = A2.C.canon(rv) is A2.C.canon(want)
        ctx.ob("R17.4", rs.func, None, okm, "multiclass prediction = one-hot row of argmax(pred, axis=1)" if okm else
               f"multiclass prediction is {A2.show(rv, 200)}", construct="multiclass one-hot")
    ctx.ob("R17.4", rs.func, None, not bad, "dispatch on the target type: binary / multiclass / continuous / callable "
           "accepted, everything else raises" if not bad else "; ".join(bad), construct="predictor function dispatch")
    # default threshold
    fi = ctx.prog.functions[CLS + ".__init__"]
    defaults = dict(zip([a.arg for a in fi.node.args.kwonlyargs], fi.node.args.kw_defaults))
    d = defaults.get("threshold_value")
    ok = d is not None and getattr(d, "value", None) == 0.5
    clf = ctx.prog.functions.get(M_ADV + ":AdversarialFairnessClassifier.__init__")
    import ast
    for node in ast.walk(clf.node):
        if isinstance(node, ast.keyword) and node.arg == "threshold_value":
            ok = ok and isinstance(node.value, ast.Constant) and node.value.value == 0.5
    ctx.ob("R17.4", fi.fq, None, ok, "threshold_value defaults to 0.5 (and the classifier passes 0.5)", construct="default threshold")
    # predictor_function_ is initialised from the target type of y
    rset = A2.run(CLS + ".__setup", cls_ctx=CLS)
    st = [e for e in stores_attr(rset, "predictor_function_") if e.func == rset.func]
    ok = bool(st) and st[0].data["value"].op == "call" and st[0].data["value"].args[0] is glob("sklearn.utils.multiclass.type_of_target") \
        and st[0].data["value"].args[1][0] is rset.params["y"]
    ctx.ob("R17.4", rset.func, st[0].node if st else None, ok, "the prediction rule is chosen from type_of_target(y)",
           construct="predictor function source")
    # inverse_transform: identity for continuous, the encoder's inverse otherwise; 1-d inputs are flattened back
    ri = A2.run(M_PRE + ":FloatTransformer.inverse_transform", cls_ctx=M_PRE + ":FloatTransformer")
    yv = ri.params["y"]
    inv = mk("ite", A2.entry(ri, "self.inferred_type_ == 'continuous'"), yv, A2.entry(ri, "self.transform_.inverse_transform(y)"))
    want = mk("ite", A2.entry(ri, "self.input_dim_ == 1"), mk("call", mk("attr", inv, "reshape"), (const(-1),), ()), inv)
    got = A2.C.canon(ri.ret)
    okk = got is A2.C.canon(want) or contains(got, lambda s: s is A2.C.canon(inv))
    ctx.ob("R17.4", ri.func, None, okk, "inverse_transform maps encoder outputs back to the training labels (identity for "
           "continuous targets)", construct="inverse_transform")
    # shape round trip: labels that were 1-d at fit time come back 1-d (reshape(-1) exactly when input_dim_ == 1)
    raw = ri.ret
    while raw is not None and raw.op == "assume":
        raw = raw.args[1]
    one_d = A2.C.canon(A2.entry(ri, "self.input_dim_ == 1"))

    def _flat(x):
        return x.op == "call" and x.args[0].op == "attr" and x.args[0].args[1] in ("reshape", "ravel", "flatten") and (
            x.args[0].args[1] != "reshape" or (len(x.args[1]) == 1 and x.args[1][0] is const(-1)))
    oks = raw is not None and raw.op == "ite" and (
        (A2.C.canon(raw.args[0]) is one_d and _flat(raw.args[1]) and not _flat(raw.args[2])) or
        (A2.C.canon(raw.args[0]) is A2.C._not(one_d) and _flat(raw.args[2]) and not _flat(raw.args[1])))
    ctx.ob("R17.4", ri.func, None, bool(oks), "the result is flattened back to 1-d exactly when the training labels were 1-d",
           construct="inverse_transform shape")
    rk = A2.run(M_PRE + ":FloatTransformer._check", cls_ctx=M_PRE + ":FloatTransformer")
    st_ = stores_attr(rk, "input_dim_")
    okd = len(st_) == 1 and st_[0].data["value"].op == "attr" and st_[0].data["value"].args[1] == "ndim" and \
        [A2.C.canon(l) for l in pc_literals(st_[0].pc)] == [A2.C.canon(rk.params["init"])]
    ctx.ob("R17.4", rk.func, st_[0].node if st_ else None, okd, "input_dim_ records the dimensionality of the labels seen at fit "
           "time (only when init is set)", construct="input_dim_ record")
    rfit = A2.run(M_PRE + ":FloatTransformer.fit", cls_ctx=M_PRE + ":FloatTransformer")
    ck = [e for e in rfit.events if e.kind == "call" and e.data.get("callee") == M_PRE + ":FloatTransformer._check" and e.func == rfit.func]
    okf = len(ck) == 1 and kw(ck[0], "init") is TRUE
    ctx.ob("R17.4", rfit.func, ck[0].node if ck else None, okf, "fit records the label dimensionality (init=True)", construct="fit records input_dim_")


def _select(t: T, env):
    """Resolve ite/assume wrappers of a heap value under a concrete environment."""
    while True:
        if t in env:
            return t
        if t.op == "ite":
            t = t.args[1] if concrete(t.args[0], env) else t.args[2]
        elif t.op == "assume":
            t = t.args[1]
        else:
            return t


def _shared_c17(ctx):
    """Life-cycle (history independence, pure prediction) and label-position clauses of the estimator(s) this property
    is about, shared with C19 R19.3/R19.4 and C12 R12.1 and reported under this property's rule ids."""
    from .c12 import label_sinks
    from .c19 import lifecycle_of
    ctx.rule("R17.5", "fit does not depend on state left by an earlier fit and prediction writes no state (shared with C19 R19.3 / R19.4)")
    lifecycle_of(ctx, [CLS], {"R19.3": "R17.5", "R19.4": "R17.5", "R19.8": "R17.5"})
