"""C07 - reduction identity: the premises of the linearity lemma (structural clauses).

Lemma (UtilityParity): if gamma(h) = -U^T (d*h + u0)/n and w(lam) = d * (U lam) with the same stored U and
d = utilities[:,1]-utilities[:,0], then lam.gamma(h) - lam.gamma(h') = -(1/n) sum_i w_i (h_i - h'_i).
ErrorRate with y in {0,1}, h in [0,1]: gamma(h) = (c_fn sum_{y=1}(1-h) + c_fp sum_{y=0} h)/n and
w = -c_fp + (c_fp + c_fn) y give gamma(h) - gamma(h') = -(1/n) sum_i w_i (h_i - h'_i).
Loss moments: lam.gamma(h) = sum_g lam_g mean_g(loss) = (1/n) sum_i (lam_{g(i)}/P(g(i))) loss_i.
"""
from __future__ import annotations

from ..terms import NONE, T, const, const_value, contains, glob, mk, show, subterms
from .common import (M_BGL, M_ER, M_GS, M_LAG, M_UP, Analysis, arg, calls_to, inplace_updates_of_foreign_values, is_str_const, kw, pc_literals,
                     label_strips, stores_attr)

SPEC_FUNCS = {"relu": glob("spec.relu"), "np": glob("numpy"), "pd": glob("pandas")}


def check(ctx):
    ctx.guard(r071, ctx)
    ctx.guard(r072, ctx)
    ctx.guard(r073_lagrangian, ctx)
    ctx.guard(r073_gridsearch, ctx)
    ctx.guard(r074, ctx)
    ctx.guard(r075, ctx)
    ctx.guard(r076_no_foreign_updates, ctx, "R07.6")


def r071(ctx):
    ctx.rule("R07.1", "UtilityParity.signed_weights = utility_diff * (U . lambda) on the same stored U and utility_diff "
                      "attributes that gamma reads and load_data fills.")
    A = Analysis(ctx)
    cls = M_UP + ":UtilityParity"
    r = A.run(cls + ".signed_weights", cls_ctx=cls)
    spec = A.entry(r, "self.utility_diff * self.U.dot(lambda_vec)")
    A.formula("R07.1", r.func, None, r.ret, spec, "signed_weights", construct="signed_weights formula")
    rl = A.run(cls + ".load_data", cls_ctx=cls)
    u = rl.final.heap.get((rl.self_term, "U")) if rl.final is not None else None
    ok = u is not None and contains(u, lambda s: s.op == "upd" and s.args[1].op == "tuple" and s.args[1].args[0]
                                    and is_str_const(s.args[1].args[0][0]) and const_value(s.args[1].args[0][0]) in "+-")
    ctx.ob("R07.1", rl.func, None, ok, "the signed columns are stored into the attribute U that gamma and "
           "signed_weights read", construct="U attribute holds the signed columns")
    rg = A.run(cls + ".gamma", cls_ctx=cls)
    reads_g = {e.data["attr"] for e in rg.events if e.kind == "read" and e.data["obj"] is rg.self_term}
    reads_w = {e.data["attr"] for e in r.events if e.kind == "read" and e.data["obj"] is r.self_term}
    ok = {"U", "utility_diff"} <= reads_g and {"U", "utility_diff"} <= reads_w
    ctx.ob("R07.1", r.func, None, ok, "gamma and signed_weights read the same stored U / utility_diff (no second copy)",
           construct="shared U/utility_diff")


def r072(ctx):
    ctx.rule("R07.2", "ErrorRate.signed_weights = -c_fp + (c_fp + c_fn) y (times lambda[all] when given); "
                      "ConditionalLossMoment.signed_weights = lambda_g / P(g) looked up by the row's group (1 when lambda "
                      "is None) with P(g) the group frequencies that default_objective_lambda_vec exposes.")
    A = Analysis(ctx)
    cls = M_ER + ":ErrorRate"
    r = A.run(cls + ".signed_weights", cls_ctx=cls)
    w = "(-self.fp_cost + (self.fp_cost + self.fn_cost) * self.tags[_LABEL])"
    P = r.params
    spec = mk("ite", mk("cmp", "is", P["lambda_vec"], NONE), A.entry(r, w), A.entry(r, f"lambda_vec[_ALL] * {w}"))
    A.formula("R07.2", r.func, None, r.ret, spec, "ErrorRate.signed_weights", construct="ErrorRate.signed_weights formula")
    # cost roles: fp_cost <- costs['fp'], fn_cost <- costs['fn'] (default 1.0)
    ri = A.run(cls + ".__init__", cls_ctx=cls)
    for attr, key in (("fp_cost", "fp"), ("fn_cost", "fn")):
        v = ri.final.heap.get((ri.self_term, attr))
        c = A.C.canon(v) if v is not None else None
        want = A.C.canon(mk("sub", ri.params["costs"], const(key)))
        ok = c is not None and c.op == "ite" and want in (c.args[1], c.args[2]) and const(1) in (c.args[1], c.args[2])
        ctx.ob("R07.2", ri.func, None, ok, f"{attr} is costs['{key}'] (1.0 by default)", construct=f"{attr} role")
    cls = M_BGL + ":ConditionalLossMoment"
    r = A.run(cls + ".signed_weights", cls_ctx=cls)
    b = dict(SPEC_FUNCS)
    adj = mk("ite", mk("cmp", "is", r.params["lambda_vec"], NONE),
             A.entry(r, "pd.Series(1.0, index=self.index)", b), A.entry(r, "lambda_vec / self.prob_attr", b))
    b["adjust"] = adj
    spec = A.entry(r, "self.tags.apply(lambda row: adjust[row[_GROUP_ID]], axis=1)", b)
    specs = [spec, A.entry(r, "self.tags[_GROUP_ID].map(adjust)", b), A.entry(r, "self.tags[_GROUP_ID].map(lambda g: adjust[g])", b)]
    rl = A.run(cls + ".load_data", cls_ctx=cls)
    # a fast path for the single-stratum moment (no_groups): every row then carries the group id _ALL - provided load_data replaces
    # the sensitive features by that constant exactly when no_groups - so looking the factor up once is the same function
    sup = [e for e in rl.events if e.kind == "call" and str(e.data.get("callee", "")).endswith(":LossMoment.load_data")
           or (e.kind == "call" and e.data["fterm"].op == "attr" and e.data["fterm"].args[1] == "load_data" and e.func == rl.func)]
    const_all = False
    for e in sup:
        sf = kw(e, "sensitive_features")
        if sf is not None and sf.op == "ite" and A.eq(sf.args[0], A.entry(rl, "self.no_groups")):
            v_ = sf.args[1]
            const_all = v_.op == "call" and v_.args[0].op == "attr" and v_.args[0].args[1] in ("apply", "map") and len(v_.args[1]) == 1 \
                and v_.args[1][0].op == "lam" and A.eq(v_.args[1][0].args[1], A.entry(rl, "_ALL"))
    if const_all:
        b1 = dict(b)
        specs.append(mk("ite", A.entry(r, "self.no_groups"), A.entry(r, "self.tags.apply(lambda row: adjust[_ALL], axis=1)", b1), spec))
    A.formula("R07.2", r.func, None, r.ret, specs, "group-loss signed_weights", construct="ConditionalLossMoment.signed_weights formula")
    for e in stores_attr(rl, "prob_attr"):
        A.formula("R07.2", e.func, e.node, e.data["value"], A.at(e, "self.tags.groupby(_GROUP_ID).size() / self.total_samples"),
                  "P(g) definition", construct="prob_attr definition")
    ctx.floor("R07.2", "definition of P(g)", len(stores_attr(rl, "prob_attr")), 1)
    for e in stores_attr(rl, "default_objective_lambda_vec"):
        ctx.ob("R07.2", e.func, e.node, A.eq(e.data["value"], A.at(e, "self.prob_attr")),
               "default_objective_lambda_vec exposes the same P(g)", construct="default_objective_lambda_vec")
    ctx.floor("R07.2", "default_objective_lambda_vec store", len(stores_attr(rl, "default_objective_lambda_vec")), 1)


def _star_dict(e):
    for k, v in e.data["kwargs"]:
        if k == "**" and v.op == "dict":
            return v.args[0]
    return None


def _check_relabel(ctx, A, rule, r, fit, sw: T, y_fallback: T, is_cls: T, X_term: T, name_term: T, scale_ok=True):
    """Common obligations on the `estimator.fit(X, y_red, **{name: w_red})` call."""
    fq = fit.func
    y_red, w_red = arg(fit, 1), None
    sd = _star_dict(fit)
    if sd is not None and len(sd) == 1:
        w_red = sd[0][1]
        ctx.ob(rule, fq, fit.node, A.eq(sd[0][0], name_term), "the weights are passed under the configured "
               "sample-weight keyword", construct="sample weight keyword")
    else:
        swk = kw(fit, "sample_weight")
        w_red = swk
    ctx.ob(rule, fq, fit.node, arg(fit, 0) is not None and A.eq(arg(fit, 0), X_term),
           "the base learner is fitted on the loaded X", construct="fit X")
    if y_red is None or w_red is None:
        ctx.ob(rule, fq, fit.node, None, "cannot identify reduction labels / weights of the fit call", construct="fit call")
        return
    # a loop-invariant default hoisted in front of the loop: `y = Y0; for ..: if c: y = f(..)` - when every assignment to y inside the
    # loop is under the same (loop-invariant) test c that selects it here, the value on the other branch is still Y0
    if y_red.op == "ite" and any(x.op == "loopvar" for x in y_red.args[1:]):
        c_ = y_red.args[0]
        lv = y_red.args[2] if y_red.args[2].op == "loopvar" else y_red.args[1]
        positive = lv is y_red.args[2]
        inner = [e for e in r.events if e.kind == "store" and e.data.get("tkind") == "name" and e.data.get("name") == lv.args[0] and e.loops]
        invariant = not contains(c_, lambda s_: s_.op in ("loopvar", "elem"))
        guarded = bool(inner) and all(any(l is (c_ if positive else mk("not", c_)) for l in pc_literals(e.pc)) for e in inner)
        if invariant and guarded:
            from ..terms import substitute
            y_red = substitute(y_red, {lv: lv.args[2]})
    b = {"w": sw, "yf": y_fallback}
    lab_specs = []
    for cmp_ in ("w > 0", "w >= 0"):
        for form in ("1 * ({c})", "({c}).astype(int)", "({c}) * 1"):
            lab_specs.append(mk("ite", is_cls, A.spec(form.format(c=cmp_), b), y_fallback))
    A.formula(rule, fq, fit.node, y_red, lab_specs, "reduction labels = 1[w > 0] for classification moments (the "
              "original y for loss moments)", construct="reduction labels")
    # weights: |w| times a positive scalar; loss moments keep w (non-negative by construction)
    cw = A.C.canon(w_red)
    absw = A.C.canon(A.spec("w.abs()", b))
    ok = False
    detail = ""
    cands = [cw]
    if cw.op == "ite" and cw.args[0] is A.C.canon(is_cls):
        cands = [cw.args[1]]
        other = cw.args[2]
        ok_other = other is A.C.canon(sw) or _is_scaled(A, other, absw)
    else:
        ok_other = True
    for c in cands:
        ok = _is_scaled(A, c, absw)
    ctx.ob(rule, fq, fit.node, bool(ok and ok_other),
           "reduction weights = |w| up to a positive scalar" if ok and ok_other else
           f"reduction weights are {A.show(w_red, 200)}, not |w| (times a positive scalar)", construct="reduction weights")


def _is_scaled(A, c: T, absw: T) -> bool:
    """c == absw * s with s free of any element-wise dependence other than reductions of absw / scalars."""
    if c is absw:
        return True
    q = A.C._as_rat(c) / A.C._as_rat(absw)
    atoms = q.num.atoms() | q.den.atoms()
    # the quotient must not contain absw itself except inside a reduction (sum) or be built of scalars only
    for a in atoms:
        if a is absw:
            return False
        if a.op == "fn" and a.args[0] in ("sum", "len", "mean") and len(a.args) == 2:
            continue
        if a.op == "attr" and a.args[1] in ("total_samples",):
            continue
        if a.op == "sub" and a.args[0].op == "attr" and a.args[0].args[1] == "shape":
            continue
        if a.op == "const":
            continue
        return False
    # sign: cannot decide in general; accept forms with a single positive-looking monomial
    return all(cf > 0 for cf in q.num.terms.values()) and all(cf > 0 for cf in q.den.terms.values())


def r073_lagrangian(ctx):
    ctx.rule("R07.3", "_Lagrangian._call_oracle / GridSearch.fit: w = objective.signed_weights() + "
                      "constraints.signed_weights(lambda) (GridSearch: objective added exactly when it is not in the span); "
                      "the base learner is fitted on (X, 1[w>0], |w| * positive scalar) - not on the original labels.")
    A = Analysis(ctx)
    cls = M_LAG + ":_Lagrangian"
    r = A.run(cls + "._call_oracle", cls_ctx=cls)
    fits = [e for e in r.events if e.kind == "call" and e.data["fterm"].op == "attr" and e.data["fterm"].args[1] == "fit"]
    ctx.floor("R07.3", "base-learner fit calls in _call_oracle", len(fits), 1)
    sw = A.entry(r, "self.obj.signed_weights() + self.constraints.signed_weights(lambda_vec)")
    is_cls = A.entry(r, "isinstance(self.constraints, ClassificationMoment)")
    for f in fits:
        _check_relabel(ctx, A, "R07.3", r, f, sw, A.entry(r, "self.constraints._y_as_series"), is_cls,
                       A.entry(r, "self.constraints.X"), A.entry(r, "self.sample_weight_name"))
        est, yred = f.data["fterm"].args[0], arg(f, 1)
        b = {"yr": yred, "np": glob("numpy"), "Dummy": glob("sklearn.dummy.DummyClassifier"), "deepcopy": glob("copy.deepcopy"),
             "clone": glob("sklearn.base.clone")}
        b["u"] = A.spec("np.unique(yr)", b)
        cond = A.spec("len(u) == 1", b)
        dummy = A.spec('Dummy(strategy="constant", constant=u[0])', b)
        specs = [mk("ite", cond, dummy, A.entry(r, c, b)) for c in (
            "clone(estimator=self.estimator, safe=False)", "clone(self.estimator, safe=False)", "clone(self.estimator)",
            "clone(estimator=self.estimator)", "deepcopy(self.estimator)")]
        ok = A.any_eq(est, specs)
        ctx.ob("R07.3", r.func, f.node, ok, "the oracle fits a fresh copy of the configured estimator (a constant DummyClassifier "
               "only when the reduction labels have a single value)" if ok else f"the oracle fits {A.show(est, 200)}",
               construct="oracle learner")
        ok = r.ret is est
        ctx.ob("R07.3", r.func, f.node, ok, "the fitted learner is what _call_oracle returns", construct="oracle result")


def r073_gridsearch(ctx):
    A = Analysis(ctx)
    cls = M_GS + ":GridSearch"
    r = A.run(cls + ".fit", cls_ctx=cls)
    fits = [e for e in r.events if e.kind == "call" and e.data["fterm"].op == "attr" and e.data["fterm"].args[1] == "fit"
            and e.func == r.func]
    ctx.floor("R07.3", "base-learner fit calls in GridSearch.fit", len(fits), 1)
    for f in fits:
        lam = None
        # the multiplier of this iteration: argument of constraints.signed_weights in the same iteration
        sws = [e for e in r.events if e.kind == "call" and e.data["fterm"].op == "attr"
               and e.data["fterm"].args[1] == "signed_weights" and e.loops == f.loops and e.data["args"]]
        if len(sws) != 1:
            ctx.ob("R07.3", r.func, f.node, None, "expected one constraints.signed_weights(lambda) call per grid point",
                   construct="signed_weights call")
            continue
        lam = sws[0].data["args"][0]
        b = {"lam": lam}
        obj_calls = [e for e in r.events if e.kind == "call" and e.data["fterm"].op == "attr"
                     and e.data["fterm"].args[1] == "signed_weights" and not e.data["args"] and e.loops == f.loops]
        if len(obj_calls) != 1:
            ctx.ob("R07.3", r.func, f.node, None, "expected one objective.signed_weights() call per grid point",
                   construct="objective signed_weights call")
            continue
        wc, wo = sws[0].data["result"], obj_calls[0].data["result"]
        in_span = A.at(f, "self.constraints.default_objective_lambda_vec is not None")
        sw = mk("ite", in_span, wc, mk("binop", "+", wc, wo))
        ctx.ob("R07.3", r.func, sws[0].node, A.eq(sws[0].data["fterm"].args[0], A.at(f, "self.constraints")),
               "constraint weights come from the configured constraints object", construct="constraints receiver")
        is_cls = A.at(f, "isinstance(self.constraints, ClassificationMoment)")
        _check_relabel(ctx, A, "R07.3", r, f, sw, A.at(f, "self.constraints._y_as_series"), is_cls,
                       r.params["X"], A.at(f, "self.sample_weight_name"))


def r074(ctx):
    ctx.rule("R07.4", "project_lambda: for ratio == 1, lambda+ <- max(lambda+ - lambda-, 0), lambda- <- max(lambda- - "
                      "lambda+, 0) re-assembled under the '+'/'-' keys; identity otherwise.")
    A = Analysis(ctx)
    cls = M_UP + ":UtilityParity"
    r = A.run(cls + ".project_lambda", cls_ctx=cls)
    b = dict(SPEC_FUNCS)
    b["lp"] = A.entry(r, 'lambda_vec["+"] - lambda_vec["-"]')
    proj = A.entry(r, 'pd.concat([relu(lp), relu(-lp)], keys=["+", "-"], names=[_SIGN, _EVENT, _GROUP_ID])', b)
    spec = mk("ite", A.entry(r, "self.ratio == 1.0"), proj, r.params["lambda_vec"])
    A.formula("R07.4", r.func, None, r.ret, spec, "project_lambda", construct="project_lambda formula")
    for c in ("ErrorRate", ):
        rr = A.run(f"{M_ER}:{c}.project_lambda", cls_ctx=f"{M_ER}:{c}")
        ctx.ob("R07.4", rr.func, None, rr.ret is rr.params["lambda_vec"], "ErrorRate.project_lambda is the identity",
               construct="identity projection")
    rr = A.run(f"{M_BGL}:ConditionalLossMoment.project_lambda", cls_ctx=f"{M_BGL}:ConditionalLossMoment")
    ctx.ob("R07.4", rr.func, None, rr.ret is rr.params["lambda_vec"], "ConditionalLossMoment.project_lambda is the identity",
           construct="identity projection")


def r075(ctx):
    ctx.rule("R07.5", "the multiplier vector is consumed by label: signed_weights / project_lambda never take lambda_vec out of "
                      "its (sign, event, group) / group labels (np.asarray, .values, .iloc, list ...) unless the values are put "
                      "straight back under lambda_vec.index; a positional use pairs multipliers with the wrong constraint "
                      "whenever the caller's vector is not in the moment's own order")
    A = Analysis(ctx)
    n = 0
    for cls in (M_UP + ":UtilityParity", M_ER + ":ErrorRate", M_BGL + ":ConditionalLossMoment"):
        for m in ("signed_weights", "project_lambda"):
            fi = ctx.prog.lookup_method(cls, m)
            if fi is None:
                continue
            r = A.run(fi.fq, cls_ctx=cls)
            lv = r.params.get("lambda_vec")
            if lv is None or r.ret is None:
                ctx.ob("R07.5", fi.fq, None, None, f"{m} has no lambda_vec parameter / no return value", construct=f"{cls.split(':')[1]}.{m} labels")
                continue
            n += 1
            terms = [r.ret] + [e.data["value"] for e in r.events if e.kind == "store"] + \
                    [a for e in r.events if e.kind == "call" for a in e.data.get("args", ()) if isinstance(a, T)]
            hits = []
            for t in terms:
                hits += label_strips(t, lv)
            ok = not hits
            ctx.ob("R07.5", fi.fq, None, ok, f"{cls.split(':')[1]}.{m} uses lambda_vec through its labels only" if ok else
                   f"{cls.split(':')[1]}.{m} strips the labels of lambda_vec ({show(hits[0], maxdepth=3)[:80]}) and uses the values by position",
                   construct=f"{cls.split(':')[1]}.{m} consumes lambda by label")
    ctx.floor("R07.5", "signed_weights / project_lambda methods", n, 6)


def r076_no_foreign_updates(ctx, rule):
    ctx.rule(rule, "gamma / signed_weights / project_lambda never update in place a value they did not create: the predictor's "
                   "output (np.asarray of a float array is the same buffer), the caller's multiplier vector, or data stored by "
                   "load_data - otherwise a second evaluation with the same predictor / multipliers gives another value")
    A = Analysis(ctx)
    n = 0
    for cls in (M_UP + ":UtilityParity", M_ER + ":ErrorRate", M_BGL + ":ConditionalLossMoment"):
        for m in ("gamma", "signed_weights", "project_lambda"):
            fi = ctx.prog.lookup_method(cls, m)
            if fi is None:
                continue
            r = A.run(fi.fq, cls_ctx=cls)
            n += 1
            params = set(r.params.values()) - {r.self_term}

            def root(x, r=r, params=params):
                if x in params:
                    return True
                if x.op == "call" and x.args[0] in params:      # predictor(self.X)
                    return True
                if x.op == "attr" and x.args[0] is r.self_term:  # stored data (self.utilities, self.U ...)
                    return True
                if x.op == "sub" and x.args[0].op == "attr" and x.args[0].args[0] is r.self_term and x.args[1].op != "slice":
                    return False
                return False
            hits = [(e, d) for e, d in inplace_updates_of_foreign_values(r, root, ctx.prog)
                    if not (e.data.get("tkind") == "sub" and e.data["obj"].op == "attr" and e.data["obj"].args[0] is r.self_term
                            and e.data["obj"].args[1] in ("tags",))]
            # gamma of the loss moments writes its own scratch columns into self.tags (documented scratch frame): not foreign
            hits = [(e, d) for e, d in hits if not (root_is_tags(e, r))]
            ok = not hits
            ctx.ob(rule, fi.fq, hits[0][0].node if hits else None, ok, f"{cls.split(':')[1]}.{m} updates only values it created" if ok else
                   f"{cls.split(':')[1]}.{m} applies an in-place {hits[0][1]} to a value that can be the caller's own array (no copy)",
                   construct=f"{cls.split(':')[1]}.{m} no foreign update")
    ctx.floor(rule, "moment query methods", n, 8)


def root_is_tags(e, r):
    from ..terms import root_of
    o = e.data.get("obj")
    if o is None:
        return False
    ro = root_of(o)
    while ro.op in ("upd", "loopvar"):
        ro = ro.args[0] if ro.op == "upd" else ro.args[2]
    return ro.op == "attr" and ro.args[0] is r.self_term and ro.args[1] == "tags"
