"""C01 - MetricFrame disaggregation is exact (single positional frame, slicing agreement, grouping keys, plumbing)."""
from __future__ import annotations

import ast

from ..labels import CLEAN, DATA_PARAM_NAMES, USER, LabelDomain
from ..terms import FALSE, NONE, TRUE, State, T, conj, const, const_value, contains, glob, mk, root_of, show, subterms
from .common import M_AMF, M_BS, M_DR, M_GF, M_MF, Analysis, arg, calls_to, dominates, kw, pc_literals, stores_attr

MF = M_MF + ":MetricFrame"
DR = M_DR + ":DisaggregatedResult"
AMF = M_AMF + ":AnnotatedMetricFunction"
NP = {"np": glob("numpy"), "pd": glob("pandas")}


def check(ctx):
    ctx.guard(r011_frame, ctx, "R01.1")
    ctx.guard(r012_slicing, ctx, "R01.2")
    ctx.guard(r015_param_routing, ctx, "R01.5")
    ctx.guard(r016_features, ctx, "R01.6")
    ctx.guard(r013_grouping, ctx)
    ctx.guard(r014_plumbing, ctx)
    from .c02 import r024_extract
    ctx.guard(r024_extract, ctx, "R01.4")


def r011_frame(ctx, rule):
    ctx.rule(rule, "every per-sample input (y_true, y_pred, each sample parameter, each sensitive / control feature) is "
                   "stored, through a position-only conversion, as a column of the one frame that is handed to the "
                   "disaggregation (and to the bootstrap generator)")
    A = Analysis(ctx, no_inline=[DR + ".create", M_BS + ":generate_bootstrap_samples", MF + "._populate_results",
                                 MF + "._populate_results_ci"], max_depth=4)
    r = A.run(MF + ".__init__", cls_ctx=MF)
    fq = r.func
    P = r.params
    create = calls_to(r, DR + ".create")
    ctx.require(len(create) == 1, "anchor vanished: DisaggregatedResult.create call")
    c = create[0]
    data = kw(c, "data")
    frame = root_of(data)
    while frame.op in ("ite", "assume", "loopout", "loopvar"):
        frame = root_of(frame.args[1] if frame.op in ("ite", "assume") else frame.args[2])
    ok = frame.op == "call" and frame.args[0].op == "global" and frame.args[0].args[0] in ("pandas.DataFrame.from_dict", "pandas.DataFrame")
    cols = {}
    if ok and frame.args[1] and frame.args[1][0].op == "dict":
        cols = {const_value(k): v for k, v in frame.args[1][0].args[0] if k.op == "const"}
    ok = ok and set(cols) == {"y_true", "y_pred"}
    ctx.ob(rule, fq, c.node, ok, "the frame handed to create() starts as DataFrame({'y_true': ..., 'y_pred': ...})",
           construct="frame base columns")
    sources = {t: n for n, t in P.items() if n in DATA_PARAM_NAMES}
    dom = LabelDomain(sources)
    dom.learn_fields(r.events)
    if ok:
        for name, src in (("y_true", P["y_true"]), ("y_pred", P["y_pred"])):
            v = cols[name]
            good = contains(v, lambda s: s is src) and not any(contains(v, lambda s, o=o: s is o) for o in (P["y_true"], P["y_pred"]) if o is not src) \
                and dom.val(v)[0] == CLEAN
            ctx.ob(rule, fq, c.node, good, f"column {name} holds the caller's {name}, converted position-only",
                   construct=f"column {name}")
    # feature columns: stores into the same frame object, in __init__
    fst = [e for e in r.events if e.kind == "store" and e.data.get("tkind") == "sub" and e.func == fq and e.loops
           and root_of(e.data["obj"]) is frame or (e.kind == "store" and e.data.get("tkind") == "sub" and e.func == fq and e.loops
                                                    and contains(e.data["obj"], lambda s: s is frame))]
    ctx.floor(rule, "feature column stores into the frame", len(fst), 2)
    for e in fst:
        k, v = e.data["key"], e.data["value"]
        name_ok = k.op == "attr" and k.args[1] == "name_"
        val_ok = contains(v, lambda s: s.op == "attr" and s.args[1] == "raw_feature_" and s.args[0] is k.args[0]) and dom.val(v)[0] == CLEAN
        ctx.ob(rule, fq, e.node, name_ok and val_ok, "a feature is stored under its own name as a position-only copy of its raw "
               "values", construct="feature column store")
    ok = all(e.seq < c.seq for e in fst) and contains(data, lambda s: s is frame)
    ctx.ob(rule, fq, c.node, ok, "all feature columns are stored before the disaggregation, into the frame it receives",
           construct="stores precede create")
    # GroupFeature keeps the raw vector
    Ag = Analysis(ctx)
    rg = Ag.run(M_GF + ":GroupFeature.__init__", cls_ctx=M_GF + ":GroupFeature")
    ok = rg.final is not None and rg.final.heap.get((rg.self_term, "raw_feature_")) is rg.params["feature_vector"]
    ctx.ob(rule, rg.func, None, ok, "GroupFeature.raw_feature_ is the vector it was built from", construct="raw_feature_ field")
    # sample parameters: stored as columns of the same frame (all_data is passed down)
    cam = [e for e in r.events if e.kind == "call" and e.data.get("callee") == MF + "._construct_annotated_metric_function"]
    ctx.floor(rule, "annotated-function constructions", len(cam), 2)
    ok = all(contains(kw(e, "all_data"), lambda s: s is frame) or root_of(kw(e, "all_data")) is frame for e in cam)
    ctx.ob(rule, fq, cam[0].node, ok, "sample parameters are stored into the same frame", construct="sample params frame")
    pst = [e for e in r.events if e.kind == "store" and e.data.get("tkind") == "sub" and e.func == MF + "._construct_annotated_metric_function"
           and e.data["value"].op != "fstr" and contains(e.data["obj"], lambda s: s is frame)]
    ctx.floor(rule, "sample-parameter column stores", len(pst), 1)
    okp = all(dom.val(e.data["value"])[0] == CLEAN for e in pst)
    ctx.ob(rule, pst[0].func, pst[0].node, okp, "each sample parameter is stored as a position-only (ndarray) column",
           construct="sample param column is positional")
    # bootstrap gets the same frame / functions / names
    gen = calls_to(r, M_BS + ":generate_bootstrap_samples")
    ok = len(gen) == 1 and kw(gen[0], "data") is data and kw(gen[0], "annotated_functions") is kw(c, "annotated_functions") \
        and kw(gen[0], "sensitive_feature_names") is kw(c, "sensitive_feature_names") and kw(gen[0], "control_feature_names") is kw(c, "control_feature_names")
    ctx.ob(rule, fq, gen[0].node if gen else None, ok, "the bootstrap generator receives the same frame, functions and feature "
           "names as the point estimate", construct="bootstrap arguments")
    ok = A.eq(kw(c, "sensitive_feature_names"), A.at(c, "self._sf_names")) and A.eq(kw(c, "control_feature_names"), A.at(c, "self._cf_names"))
    ctx.ob(rule, fq, c.node, ok, "create() receives the sensitive / control feature names", construct="create feature names")


def _never_none(ctx):
    """_process_features returns a list on every path (no bare return, no `return None`, no fall off the end)"""
    rp = Analysis(ctx, max_depth=0).run(MF + "._process_features", cls_ctx=MF)
    rets = [e for e in rp.events if e.kind == "return" and e.func == rp.func]
    vals = [e.data.get("value") for e in rets]
    def leaves(v):
        if v is None:
            return [NONE]
        if v.op == "ite":
            return leaves(v.args[1]) + leaves(v.args[2])
        if v.op == "assume":
            return leaves(v.args[1])
        return [v]
    return bool(rets) and rp.ret is not None and all(x.op in ("list", "listappend", "listextend", "comp", "loopout", "call")
                                                      for v in vals + [rp.ret] for x in leaves(v))


def r016_features(ctx, rule):
    ctx.rule(rule, "MetricFrame.__init__: sensitive features are always processed, control features exactly when they are given; "
                   "their columns are added for every processed feature (control columns under no other condition), the names "
                   "lists come from the same processed lists, and the disaggregated result is handed to _populate_results")
    A = Analysis(ctx, no_inline=[DR + ".create", M_BS + ":generate_bootstrap_samples", MF + "._populate_results", MF + "._process_features",
                                 MF + "._populate_results_ci", MF + "._get_annotated_metric_functions"], max_depth=2)
    r = A.run(MF + ".__init__", cls_ctx=MF)
    fq = r.func
    P = r.params
    pf = calls_to(r, MF + "._process_features")
    create = calls_to(r, DR + ".create")
    ctx.require(len(create) == 1, "anchor vanished: DisaggregatedResult.create call")
    c = create[0]
    sf = [e for e in pf if arg(e, 1, "features") is P["sensitive_features"]]
    cf = [e for e in pf if arg(e, 1, "features") is P["control_features"]]
    given = A.C.canon(A.entry(r, "control_features is not None"))

    def guards(e):
        return [A.C.canon(l) for l in pc_literals(e.pc) if l.op != "inloop"]
    base = guards(c)
    ok = len(sf) == 1 and len(cf) == 1 and len(pf) == 2 and guards(sf[0]) == base[:len(guards(sf[0]))] and given not in guards(sf[0]) \
        and [g for g in guards(cf[0]) if g not in base] == [given]
    ok = ok and const_value(arg(sf[0], 0)) == "sensitive_feature_" and const_value(arg(cf[0], 0)) == "control_feature_" \
        and arg(sf[0], 2) is arg(cf[0], 2) and contains(arg(sf[0], 2), lambda s_: s_ is P["y_true"])
    ctx.ob(rule, fq, (cf[0].node if cf else c.node), bool(ok), "sensitive features are processed unconditionally, control features "
           "exactly when control_features is not None" if ok else "the control (or sensitive) features are not processed exactly "
           "when they are given", construct="feature processing dispatch")
    if not ok:
        return
    for nm, e in (("_sf_names", sf[0]), ("_cf_names", cf[0])):
        v = A.at(c, "self." + nm)
        cv = v
        if nm == "_cf_names":
            ok2 = cv.op == "ite" and A.C.canon(cv.args[0]) is given and cv.args[2] is NONE
            cv = cv.args[1] if ok2 else cv
        else:
            ok2 = True
        ok2 = ok2 and cv.op == "comp" and contains(cv, lambda s_: s_ is e.data["result"]) and contains(cv, lambda s_: s_.op == "attr" and s_.args[1] == "name_")
        ctx.ob(rule, fq, e.node, bool(ok2), f"{nm} lists the names of the processed features" + (" (None without control features)" if nm == "_cf_names" else ""),
               construct=f"{nm} value")
    stores = [e for e in r.events if e.kind == "store" and e.data.get("tkind") == "sub" and e.func == fq and e.loops
              and e.data["key"].op == "attr" and e.data["key"].args[1] == "name_"]
    loops = {x.data.get("lid"): x for x in r.events if x.kind == "loop"}
    seen = {"s": 0, "c": 0}
    okst = True
    for e in stores:
        it = loops[e.loops[-1]].data["iter"]
        extra = [g for g in guards(e) if g not in base]
        if it is sf[0].data["result"]:
            seen["s"] += 1
            # a shared helper may test its list for None: vacuous for the sensitive features, whose list is never None
            notnone = A.C.canon(mk("cmp", "is not", it, NONE))
            okst = okst and (not extra or (all(g is notnone for g in extra) and _never_none(ctx)))
        elif contains(it, lambda s_: s_ is cf[0].data["result"]):
            seen["c"] += 1
            def _cf_present(g):
                # `cf_list is not None` for the processed control list (whatever local holds it)
                if g.op == "not" and g.args[0].op == "cmp" and g.args[0].args[0] == "is":
                    g = mk("cmp", "is not", g.args[0].args[1], g.args[0].args[2])
                return g.op == "cmp" and g.args[0] == "is not" and NONE in (g.args[1], g.args[2]) and any(
                    contains(x, lambda s_: s_ is cf[0].data["result"] or s_ is A.C.canon(cf[0].data["result"]))
                    for x in (g.args[1], g.args[2]) if x is not NONE)
            okst = okst and all(g is given or g is A.C.canon(mk("cmp", "is not", it, NONE)) or _cf_present(g) for g in extra)
        else:
            okst = False
    okst = okst and seen["s"] == 1 and seen["c"] == 1
    ctx.ob(rule, fq, stores[0].node if stores else c.node, okst, "one column per processed sensitive feature and, when given, per "
           "processed control feature", construct="feature column loops")
    # _process_features: the generic array-like branch keeps the element types (dtype=object); without it numpy coerces a table of
    # mixed-type records to strings and the by_group index no longer holds the observed values
    rp = Analysis(ctx, max_depth=0).run(MF + "._process_features", cls_ctx=MF)
    feats = rp.params["features"]
    conv = [e for e in rp.events if e.kind == "call" and e.data.get("callee") in ("numpy.asarray", "numpy.array", "numpy.asanyarray")
            and e.data["args"] and e.data["args"][0] is feats]
    ctx.floor(rule, "array conversions of the features in _process_features", len(conv), 2)
    islist = A.C.canon(mk("call", glob("builtins.isinstance"), (feats, glob("builtins.list")), ()))
    for e in conv:
        scalars_only = any(A.C.canon(l) is islist for l in pc_literals(e.pc))
        dt = kw(e, "dtype")
        okd = scalars_only or dt is glob("builtins.object") or (dt is not None and dt.op == "const" and const_value(dt) in ("object", "O"))
        ctx.ob(rule, rp.func, e.node, bool(okd), "the conversion of array-like features keeps the element types (dtype=object; the list "
               "branch holds scalars only)" if okd else "array-like features are converted without dtype=object: records of mixed types "
               "are coerced to strings, so the group labels are not the observed values", construct="feature conversion dtype")
    pop = calls_to(r, MF + "._populate_results")
    ok = len(pop) == 1 and arg(pop[0], 0) is c.data["result"] and guards(pop[0]) == base
    ctx.ob(rule, fq, pop[0].node if pop else c.node, ok, "the disaggregated result is handed to _populate_results", construct="populate call")
    gam = calls_to(r, MF + "._get_annotated_metric_functions")
    ok = len(gam) == 1 and arg(gam[0], 0, "metric") is P["metrics"] and arg(gam[0], 1, "sample_params") is P["sample_params"] \
        and kw(c, "annotated_functions") is gam[0].data["result"] and contains(arg(gam[0], 2, "all_data"), lambda s_: s_.op == "call") \
        and root_of(kw(c, "data")) is not None
    ctx.ob(rule, fq, gam[0].node if gam else c.node, ok, "the metric functions and their sample parameters are wrapped against the same "
           "frame and handed to create()", construct="annotated functions wiring")


def r012_slicing(ctx, rule):
    ctx.rule(rule, "AnnotatedMetricFunction.__call__ takes every argument of the metric from the same frame df: positional "
                   "columns in constructor order, keyword columns through the mapping written by the MetricFrame (same "
                   "column name on the writer and reader side)")
    A = Analysis(ctx)
    r = A.run(AMF + ".__call__", cls_ctx=AMF)
    fq = r.func
    df = r.params["df"]
    call = [e for e in r.events if e.kind == "call" and e.data["fterm"].op == "attr" and e.data["fterm"].args[1] == "func"
            and e.data["fterm"].args[0] is r.self_term]
    ctx.require(len(call) == 1, "anchor vanished: self.func(*args, **kwargs) call")
    c = call[0]
    ok = r.ret is c.data["result"]
    ctx.ob(rule, fq, c.node, ok, "the wrapper returns the metric's value unchanged", construct="wrapper return")
    # positional args
    apps = [e for e in r.events if e.kind == "call" and e.data["fterm"].op == "attr" and e.data["fterm"].args[1] == "append" and e.loops]
    okp = len(apps) == 1
    if okp:
        lev = [x for x in r.events if x.kind == "loop" and x.data.get("lid") == apps[0].loops[-1]][0]
        nm = lev.data["elem"]
        want = A.spec("np.asarray(list(df[nm]))", {"df": df, "nm": nm, "list": glob("builtins.list"), **NP})
        okp = A.eq(arg(apps[0], 0), want) and A.eq(lev.data["iter"], A.entry(r, "self.postional_argument_names"))
    ctx.ob(rule, fq, apps[0].node if apps else None, okp, "positional arguments are df[name] for the stored positional names, "
           "in order", construct="positional columns")
    kst = [e for e in r.events if e.kind == "store" and e.data.get("tkind") == "sub" and e.loops and e.func == fq]
    okk = len(kst) == 1
    if okk:
        lev = [x for x in r.events if x.kind == "loop" and x.data.get("lid") == kst[0].loops[-1]][0]
        fa, da = mk("sub", lev.data["elem"], const(0)), mk("sub", lev.data["elem"], const(1))
        want = A.spec("np.asarray(list(df[da]))", {"df": df, "da": da, "list": glob("builtins.list"), **NP})
        it = lev.data["iter"]
        okk = kst[0].data["key"] is fa and A.eq(kst[0].data["value"], want) and it.op == "call" and it.args[0].op == "attr" \
            and it.args[0].args[1] == "items" and A.eq(it.args[0].args[0], A.entry(r, "self.kw_argument_mapping"))
    ctx.ob(rule, fq, kst[0].node if kst else None, okk, "keyword argument <k> is df[mapping[k]]", construct="keyword columns")
    # every call hands the metric arrays of its own: np.asarray(list(col)) is a new buffer, np.asarray(col) / col itself is the
    # frame's (or a cached) buffer shared by all metrics of the cell and, for ndarray-backed frames, by all cells
    from .common import may_alias
    handed = ([arg(apps[0], 0)] if len(apps) == 1 else []) + ([kst[0].data["value"]] if len(kst) == 1 else [])

    def from_df(x):
        return x is df or (x.op == "sub" and x.args[0] is df) or (x.op == "call" and x.args[0].op == "attr" and x.args[0].args[0] is df)
    shared = [t for t in handed if t is not None and may_alias(t, from_df)]
    ctx.ob(rule, fq, c.node, not shared and len(handed) == 2, "each argument handed to the metric is a newly created array" if not shared else
           "an argument handed to the metric can be the frame's own column buffer: a metric that updates its argument in place "
           "changes what the other metrics of the frame are computed from", construct="arguments are fresh arrays")
    # no data from self reaches the metric
    leak = [s for s in subterms(mk("tuple", tuple(c.data["args"]) + tuple(v for _, v in c.data["kwargs"])))
            if s.op == "attr" and s.args[0] is r.self_term and s.args[1] not in ("postional_argument_names", "kw_argument_mapping")]
    ctx.ob(rule, fq, c.node, not leak, "no per-sample data is taken from the wrapper itself", construct="arguments derive from df only")
    # the writer side is a rule group of its own: reader and writer are often rewritten independently (each may need its own normal form)
    ctx.guard(_r012_writer, ctx, rule)


def _r012_writer(ctx, rule):
    A = Analysis(ctx)
    Aw = Analysis(ctx, no_inline=[AMF + ".__init__"])
    rw = Aw.run(MF + "._construct_annotated_metric_function", cls_ctx=MF)
    st = [e for e in rw.events if e.kind == "store" and e.data.get("tkind") == "sub" and e.loops]
    cols = [e for e in st if root_of(e.data["obj"]) is rw.params["all_data"]]
    maps = [e for e in st if e not in cols]
    ok = len(cols) == 1 and len(maps) == 1 and maps[0].data["value"] is cols[0].data["key"] and cols[0].pc == maps[0].pc
    if ok:
        lev = [x for x in rw.events if x.kind == "loop" and x.data.get("lid") == cols[0].loops[-1]][0]
        pn, pv = mk("sub", lev.data["elem"], const(0)), mk("sub", lev.data["elem"], const(1))
        ok = maps[0].data["key"] is pn and contains(cols[0].data["value"], lambda s: s is pv) and contains(cols[0].data["key"], lambda s: s is pn)
    ctx.ob(rule, rw.func, cols[0].node if cols else None, ok, "writer: all_data[col] = value and mapping[param] = col use the "
           "same column name, derived from the parameter name", construct="writer/reader column agreement")
    if cols and ok:
        nm = rw.params["name"]
        b_ = {"n": nm, "p": pn}
        alts = [Aw.spec(s_, b_) for s_ in ('f"{n}_{p}"', 'str(n) + "_" + str(p)', '"{0}_{1}".format(n, p)', '"{}_{}".format(n, p)')]
        okn = any(Aw.C.canon(cols[0].data["key"]) is Aw.C.canon(a_) for a_ in alts)
        ctx.ob(rule, rw.func, cols[0].node, okn, "the column name is '<metric key>_<parameter name>', so two metrics (even of the same "
               "function) never share a sample-parameter column" if okn else
               f"the sample-parameter column is named {Aw.show(cols[0].data['key'], 120)}: metrics registered under different keys can "
               "collide and receive each other's per-sample parameters", construct="sample param column name")
    am = [e for e in rw.events if e.kind == "call" and e.data.get("constructs") == AMF]
    ok = len(am) == 1 and kw(am[0], "func") is rw.params["func"] and kw(am[0], "name") is rw.params["name"] \
        and root_of(kw(am[0], "kw_argument_mapping")).op == "dict" \
        and kw(am[0], "positional_argument_names") is mk("list", (const("y_true"), const("y_pred")))
    ctx.ob(rule, rw.func, am[0].node if am else None, ok, "the wrapper is built with the metric, positional names (y_true, "
           "y_pred) and that mapping", construct="wrapper construction")
    ri = Aw.run(AMF + ".__init__", cls_ctx=AMF)
    h = ri.final.heap
    pos = A.C.canon(h.get((ri.self_term, "postional_argument_names")))
    ok = h.get((ri.self_term, "func")) is ri.params["func"] and contains(h.get((ri.self_term, "kw_argument_mapping")), lambda s: s is ri.params["kw_argument_mapping"]) \
        and contains(pos, lambda s: s is ri.params["positional_argument_names"])
    ctx.ob(rule, ri.func, None, ok, "the wrapper stores func, the positional names and the mapping it was given",
           construct="wrapper fields")

    def given_or_default(v, param):
        """v is `param if param is not None else <default>` (either orientation)"""
        if v is None:
            return False
        cv = Aw.C.canon(v)
        notnone = Aw.C.canon(mk("cmp", "is not", param, NONE))
        if cv.op != "ite":
            return False
        if cv.args[0] is notnone:
            return cv.args[1] is Aw.C.canon(param) and not contains(cv.args[2], lambda s_: s_ is param)
        if cv.args[0] is Aw.C._not(notnone):
            return cv.args[2] is Aw.C.canon(param) and not contains(cv.args[1], lambda s_: s_ is param)
        return False
    nm = h.get((ri.self_term, "name"))
    cn = Aw.C.canon(nm) if nm is not None else None
    isnone = Aw.C.canon(mk("cmp", "is", ri.params["name"], NONE))
    okn = cn is not None and cn.op == "ite" and ((cn.args[0] is isnone and cn.args[2] is ri.params["name"]) or
                                                  (cn.args[0] is Aw.C._not(isnone) and cn.args[1] is ri.params["name"]))
    ctx.ob(rule, ri.func, None, okn, "a given name is kept (the function's own name is used only when none is given), so metrics "
           "registered under different keys stay distinct", construct="wrapper keeps given name")
    okd = given_or_default(h.get((ri.self_term, "kw_argument_mapping")), ri.params["kw_argument_mapping"]) and \
        given_or_default(h.get((ri.self_term, "postional_argument_names")), ri.params["positional_argument_names"])
    ctx.ob(rule, ri.func, None, okd, "a given mapping / list of positional names is kept; the default is used only when none is given"
           if okd else "the wrapper drops the keyword mapping (or positional names) it was given: per-sample parameters never reach "
           "the metric", construct="wrapper keeps given mapping")
    # writer loop: every non-None parameter is stored, nothing else guards the store, no early exit
    if cols and maps:
        lev = [x for x in rw.events if x.kind == "loop" and x.data.get("lid") == cols[0].loops[-1]][0]
        pv = mk("sub", lev.data["elem"], const(1))
        guards = [Aw.C.canon(l) for l in pc_literals(cols[0].pc) if l.op != "inloop" and l not in pc_literals(lev.pc)]
        want_g = Aw.C.canon(mk("cmp", "is not", pv, NONE))
        exits = [x for x in rw.events if x.kind in ("break", "return", "raise") and x.loops and x.loops[-1] == lev.data["lid"] and x.func == rw.func]
        okw = guards == [want_g] and not exits and A.eq(lev.data["iter"], Aw.entry(rw, "sample_params.items()"))
        ctx.ob(rule, rw.func, cols[0].node, okw, "every sample parameter that is not None gets its column and mapping entry (None "
               "entries are skipped, nothing ends the loop early)" if okw else "a sample parameter that is not None can be skipped "
               "(guard or early exit in the parameter loop): the metric is evaluated without it", construct="all sample params stored")


def r015_param_routing(ctx, rule):
    ctx.rule(rule, "_get_annotated_metric_functions: a single callable gets all of sample_params, the metric registered under key k "
                   "gets sample_params.get(k, {}) and k as its name; every wrapper is returned under its own name")
    A = Analysis(ctx, no_inline=[MF + "._construct_annotated_metric_function"])
    r = A.run(MF + "._get_annotated_metric_functions", cls_ctx=MF)
    fq = r.func
    P = r.params
    cs = calls_to(r, MF + "._construct_annotated_metric_function")
    single = [e for e in cs if not e.loops]
    multi = [e for e in cs if e.loops]
    ctx.require(len(single) == 1 and len(multi) == 1, "anchor vanished: the two annotated-function constructions")
    S = [A.entry(r, s_) for s_ in ("sample_params or {}", "sample_params if sample_params is not None else {}", "sample_params or dict()")]
    isd = A.C.canon(A.entry(r, "isinstance(metric, dict)"))
    e = single[0]
    lits = [A.C.canon(l) for l in pc_literals(e.pc)]
    ok = kw(e, "func") is P["metric"] and kw(e, "name") is NONE and any(A.eq(kw(e, "sample_params"), s_) for s_ in S) \
        and kw(e, "all_data") is P["all_data"] and A.C._not(isd) in lits
    ctx.ob(rule, fq, e.node, ok, "a single callable is wrapped with all the sample parameters (name taken from the function)",
           construct="single metric routing")
    e = multi[0]
    lev = [x for x in r.events if x.kind == "loop" and x.data.get("lid") == e.loops[-1]][0]
    k_, f_ = mk("sub", lev.data["elem"], const(0)), mk("sub", lev.data["elem"], const(1))
    sp = kw(e, "sample_params")
    oks = sp is not None and any(A.eq(sp, A.spec(form, {"S": s_, "k": k_})) for s_ in S
                                 for form in ("S.get(k, {})", "S.get(k, dict())", "S.get(k) or {}", "S[k] if k in S else {}"))
    lits = [A.C.canon(l) for l in pc_literals(e.pc)]
    ok = kw(e, "func") is f_ and kw(e, "name") is k_ and oks and kw(e, "all_data") is P["all_data"] and isd in lits \
        and A.eq(lev.data["iter"], A.entry(r, "metric.items()"))
    ctx.ob(rule, fq, e.node, ok, "the metric under key k is wrapped with name k and its own sample parameters sample_params.get(k, {})"
           if ok else "a metric of the dictionary is not wrapped with (its function, its key, its own sample parameters)",
           construct="dict metric routing")
    for c_ in cs:
        st = [x for x in r.events if x.kind == "store" and x.data.get("tkind") == "sub" and x.func == fq and x.data["value"] is c_.data["result"]]
        ok = len(st) == 1 and st[0].data["key"] is mk("attr", c_.data["result"], "name") and st[0].pc == c_.pc
        ctx.ob(rule, fq, st[0].node if st else c_.node, ok, "the wrapper is registered under its own name", construct=f"registration {c_.line}")
    def _alts(v):
        if v.op == "ite":
            return _alts(v.args[1]) + _alts(v.args[2])
        if v.op == "assume":
            return _alts(v.args[1])
        return [v]
    ok = bool(r.returns) and all(x.op in ("upd", "loopout", "dict") for _, v in r.returns for x in _alts(v))
    ctx.ob(rule, fq, None, ok, "the dictionary of wrappers is returned", construct="routing result")
    # the flag that makes the public results scalars / Series (single callable) or frames (dictionary)
    fl = [x for x in r.events if x.kind == "store" and x.data.get("tkind") == "attr" and x.data["attr"] == "_user_supplied_callable" and x.func == fq]
    okf = len(fl) == 2
    for x in fl:
        lits = [A.C.canon(l) for l in pc_literals(x.pc)]
        okf = okf and ((x.data["value"] is TRUE and A.C._not(isd) in lits) or (x.data["value"] is FALSE and isd in lits))
    ctx.ob(rule, fq, fl[0].node if fl else None, okf, "_user_supplied_callable is True exactly for a bare callable",
           construct="callable flag")


def r013_grouping(ctx):
    ctx.rule("R01.3", "create(): overall is grouped by the control features only, by_group by control + sensitive features "
                      "(control first); _apply_functions applies the functions to the whole frame when there is nothing to "
                      "group by, else to data.groupby(names); for more than one grouping column the result is re-indexed to "
                      "the Cartesian product of the observed unique values of exactly those columns, in that order, without "
                      "fill value / method, and without dropna / fillna afterwards")
    A = Analysis(ctx, no_inline=[DR + "._apply_functions", DR + ".__init__"])
    r = A.run(DR + ".create", cls_ctx=DR)
    P = r.params
    ap = calls_to(r, DR + "._apply_functions")
    ctx.require(len(ap) == 2, "anchor vanished: two _apply_functions calls in create()")
    byg = [e for e in ap if contains(kw(e, "grouping_names"), lambda s: s is P["sensitive_feature_names"])]
    ov = [e for e in ap if e not in byg]
    ok = len(byg) == 1 and len(ov) == 1 and kw(ov[0], "grouping_names") is P["control_feature_names"]
    ctx.ob("R01.3", r.func, ov[0].node if ov else None, ok, "overall groups by the control features", construct="overall grouping")
    if byg:
        want = A.spec("(cf or []) + sf", {"cf": P["control_feature_names"], "sf": P["sensitive_feature_names"]})
        ok = A.eq(kw(byg[0], "grouping_names"), want)
        ctx.ob("R01.3", r.func, byg[0].node, ok, "by_group groups by control features followed by sensitive features",
               construct="by_group grouping")
    ok = all(kw(e, "data") is P["data"] and kw(e, "annotated_functions") is P["annotated_functions"] for e in ap)
    ctx.ob("R01.3", r.func, ap[0].node, ok, "both evaluations use the same frame and functions", construct="same data and functions")
    cons = [e for e in r.events if e.kind == "call" and e.data.get("constructs") == DR]
    ok = len(cons) == 1 and bool(ov) and bool(byg) and tuple(cons[0].data["args"]) == (ov[0].data["result"], byg[0].data["result"])
    ctx.ob("R01.3", r.func, cons[0].node if cons else None, ok, "the result object is (overall, by_group) in that order",
           construct="result construction")
    A2 = Analysis(ctx, no_inline=[M_DR + ":apply_to_dataframe"])
    ra = A2.run(DR + "._apply_functions", cls_ctx=DR)
    Pa = ra.params
    data, fns, names = Pa["data"], Pa["annotated_functions"], Pa["grouping_names"]
    atd = glob(M_DR + ":apply_to_dataframe")
    b = {"data": data, "fns": fns, "names": names, "atd": atd, "len": glob("builtins.len"), **NP}
    whole = A2.spec("atd(data, metric_functions=fns)", b)
    temp = A2.spec("data.groupby(names).apply(atd, metric_functions=fns, include_groups=False)", b)
    temp2 = A2.spec("data.groupby(names).apply(atd, metric_functions=fns)", b)
    from ..region import specialise
    bad = []
    for nv in (None, [], ["a"], ["a", "b"], ["a", "b", "c"]):
        got = specialise(ra.ret, {names: nv})
        if not nv:
            wants = [whole]
        else:
            wants = []
            for tmp in (temp, temp2):
                b["temp"] = tmp
                if len(nv) > 1:
                    wants.append(A2.spec("temp.reindex(index=pd.MultiIndex.from_product([np.unique(data[col]) for col in names], "
                                         "names=names))", b))
                else:
                    wants.append(tmp)
        if not any(A2.eq(got, w) for w in wants):
            bad.append(f"grouping_names={nv}: {A2.show(got, 200)}")
    ok = not bad
    ctx.exhaustive_spaces.append("_apply_functions: grouping names None / empty / 1 / 2 / 3 columns")
    ctx.ob("R01.3", ra.func, None, ok, "_apply_functions = whole-frame evaluation without grouping names, else "
           "groupby(names).apply(...), re-indexed to the product of the observed values when there are several names" if ok else
           "; ".join(bad[:2]), construct="_apply_functions formula")
    # no fill / drop anywhere in the module's result path
    bad = []
    for fqn in (DR + "._apply_functions", DR + ".create", M_DR + ":apply_to_dataframe"):
        rr = A2.run(fqn, cls_ctx=DR if ":Disagg" in fqn else None)
        for e in rr.events:
            if e.kind == "call" and e.data["fterm"].op == "attr" and e.data["fterm"].args[1] in ("dropna", "fillna", "ffill", "bfill", "interpolate"):
                bad.append(f"{fqn.split(':')[1]}:{e.line} .{e.data['fterm'].args[1]}()")
            if e.kind == "call" and e.data["fterm"].op == "attr" and e.data["fterm"].args[1] == "reindex" and (
                    kw(e, "fill_value") is not None or kw(e, "method") is not None):
                bad.append(f"{fqn.split(':')[1]}:{e.line} reindex with fill")
    ctx.ob("R01.3", DR + "._apply_functions", None, not bad, "empty intersections stay NaN: no fill value / dropna / fillna on the "
           "result path" if not bad else "; ".join(bad), construct="no fill or drop")
    ctx.guard(_r013_apply_to_dataframe, ctx)


def _r013_apply_to_dataframe(ctx):
    A2 = Analysis(ctx, no_inline=[M_DR + ":apply_to_dataframe"])
    rd = A2.run(M_DR + ":apply_to_dataframe")
    st = [e for e in rd.events if e.kind == "store" and e.data.get("tkind") == "sub" and e.loops]
    ok = len(st) == 1
    if ok:
        lev = [x for x in rd.events if x.kind == "loop" and x.data.get("lid") == st[0].loops[-1]][0]
        nm, fn = mk("sub", lev.data["elem"], const(0)), mk("sub", lev.data["elem"], const(1))
        ok = st[0].data["key"] is nm and st[0].data["value"] is mk("call", fn, (rd.params["data"],), ()) and \
            lev.data["iter"].op == "call" and lev.data["iter"].args[0].args[0] is rd.params["metric_functions"]
    ctx.ob("R01.3", rd.func, st[0].node if st else None, ok, "every metric is evaluated on the (sub-)frame it is given and "
           "recorded under its own name", construct="apply_to_dataframe")


def r014_plumbing(ctx):
    ctx.rule("R01.4", "_populate_results stores raw.overall / raw.by_group under the keys the public properties read, with "
                      "no_control_levels=False for overall and True for by_group")
    A = Analysis(ctx, no_inline=[MF + "._extract_result", MF + "._none_to_nan", MF + "._group"], max_depth=2)
    r = A.run(MF + "._populate_results", cls_ctx=MF)
    st = [e for e in r.events if e.kind == "store" and e.data.get("tkind") == "sub" and e.func == r.func]
    for key, attr, flag in (("overall", "overall", FALSE), ("by_group", "by_group", TRUE)):
        es = [e for e in st if e.data["key"] is const(key)]
        ok = len(es) == 1
        if ok:
            v = es[0].data["value"]
            ok = v.op == "call" and v.args[0].op == "boundmethod" and v.args[0].args[1] == MF + "._extract_result" \
                and A.eq(v.args[1][0], A.at(es[0], f"raw_result.{attr}")) and dict(v.args[2]).get("no_control_levels") is flag
        ctx.ob("R01.4", r.func, es[0].node if es else None, ok, f"cache['{key}'] = extract(raw.{attr}, no_control_levels="
               f"{const_value(flag)})", construct=f"{key} cache writer")
    A2 = Analysis(ctx)
    for prop in ("overall", "by_group"):
        rr = A2.run(f"{MF}.{prop}", cls_ctx=MF)
        ok = rr.ret is A2.entry(rr, f"self._result_cache['{prop}']")
        ctx.ob("R01.4", rr.func, None, ok, f"{prop} returns cache['{prop}']", construct=f"{prop} reader")
    rd = A2.run(DR + ".__init__", cls_ctx=DR)
    ok = rd.final.heap.get((rd.self_term, "_overall")) is rd.params["overall"] and rd.final.heap.get((rd.self_term, "_by_group")) is rd.params["by_group"]
    for prop, attr in (("overall", "_overall"), ("by_group", "_by_group")):
        rp = A2.run(f"{DR}.{prop}", cls_ctx=DR)
        ok = ok and rp.ret is A2.entry(rp, f"self.{attr}")
    ctx.ob("R01.4", rd.func, None, ok, "DisaggregatedResult keeps overall / by_group under matching fields", construct="result fields")
