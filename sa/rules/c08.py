"""C08 - ExponentiatedGradient: early-stop certificate, lock-step records, gap arithmetic, weight padding."""
from __future__ import annotations

from ..terms import FALSE, NONE, TRUE, T, conj, const, const_value, contains, glob, mk, root_of, show, subterms
from .common import M_EG, M_LAG, Analysis, arg, calls_to, dominates, kw, pc_literals, stores_attr

EG = M_EG + ":ExponentiatedGradient"
LAG = M_LAG + ":_Lagrangian"
GAP = M_LAG + ":_GapResult"


def check(ctx):
    ctx.guard(r081_082, ctx)
    ctx.guard(r083, ctx)
    ctx.guard(_shared_c08, ctx)
    ctx.guard(_mixture, ctx)
    ctx.guard(r088_best_h, ctx)
    ctx.guard(r089_eval_gap, ctx)
    ctx.guard(r0812_precision, ctx)
    ctx.guard(r0813_callable, ctx)
    ctx.guard(r0810_linprog, ctx)
    ctx.guard(r0811_setup, ctx)
    ctx.rule("R08.14", "the constraint vector the guarantee is stated for is the documented one: eps / ratio case table and constructor "
                       "defaults of the parity moments (shared with C06 R06.2)")
    from .c06 import utility_parity_ctor_table
    ctx.guard(utility_parity_ctor_table, ctx, "R08.14")

def _peel(o):
    """(series, accessor) of the target of  series.at[k] = v / series.loc[k] = v / series[k] = v"""
    o = root_of(o)
    return (o.args[0], o.args[1]) if o.op == "attr" and o.args[1] in ("at", "loc", "iat", "iloc") else (o, None)


def _no_lag(fq, depth):
    return not fq.startswith(M_LAG + ":")


def r081_082(ctx):
    ctx.rule("R08.1", "every exit of the training loop other than exhausting range(max_iter) is dominated by the test "
                      "gaps[t] < nu on the value appended in the same iteration; best_iter_ is the last index within "
                      "_PRECISION of min(gaps), best_gap_ = gaps[best_iter_], weights_ = Qs[best_iter_] (same index). Hence "
                      "on early exit best_gap_ <= gaps[t] + _PRECISION-slack < nu.")
    ctx.rule("R08.2", "in every iteration exactly one element is appended to each of Qs and gaps, and both come from the "
                      "same source (the EG pair or the LP pair) in each branch")
    ctx.rule("R08.4", "predictors absent from the selected Q receive weight 0.0, so weights_ is indexed by all predictors")
    A = Analysis(ctx, inline=_no_lag, max_depth=3)
    r = A.run(EG + ".fit", cls_ctx=EG)
    fq = r.func
    loops = [e for e in r.events if e.kind == "loop" and e.func == fq]
    main = [l for l in loops if l.data["iter"].op == "call" and l.data["iter"].args[0] is glob("builtins.range")
            and contains(l.data["iter"], lambda s: s.op == "attr" and s.args[1] == "max_iter")]
    ctx.require(len(main) == 1, "anchor vanished: training loop over range(max_iter)")
    L = main[0]
    lid = L.data["lid"]
    t = L.data["elem"]
    ok = A.eq(L.data["iter"], A.at(L, "range(0, self.max_iter)")) or A.eq(L.data["iter"], A.at(L, "range(self.max_iter)"))
    ctx.ob("R08.1", fq, L.node, ok, "the training loop ranges over max_iter iterations", construct="loop bound")
    in_loop = [e for e in r.events if e.loops and e.loops[0] == lid]
    # ---- lock-step appends
    apps = {}
    for e in in_loop:
        if e.kind == "call" and e.data["fterm"].op == "attr" and e.data["fterm"].args[1] == "append" and len(e.loops) == 1:
            recv = root_of(e.data["fterm"].args[0])
            apps.setdefault(recv.uid, []).append(e)
    lists = {}
    for e in r.events:
        if e.kind == "store" and e.data.get("tkind") == "name" and e.func == fq and not e.loops and e.data["value"].op == "list" \
                and not e.data["value"].args[0]:
            lists[e.data["name"]] = e.data["value"]
    # identify Qs / gaps by how they are used after the loop
    post = {e.data["attr"]: e for e in r.events if e.kind == "store" and e.data.get("tkind") == "attr" and not e.loops
            and e.data["obj"] is r.self_term and e.func == fq}
    for need in ("best_iter_", "best_gap_", "weights_"):
        ctx.require(need in post, f"anchor vanished: store of {need}")
    bi = post["best_iter_"].data["value"]
    bg, w = post["best_gap_"].data["value"], post["weights_"].data["value"]
    # best_gap_ read as the last entry of the filtered series whose last index is best_iter_: X.iloc[-1] with best_iter_ = X.index[-1]
    # and X = S[mask], S = pd.Series(gaps) (default index, so S[i] is gaps[i])
    if bg.op == "sub" and bg.args[0].op == "attr" and bg.args[0].args[1] == "iloc" and bg.args[1] is const(-1) and bi.op == "sub" \
            and bi.args[1] is const(-1) and bi.args[0].op == "attr" and bi.args[0].args[1] == "index" and bi.args[0].args[0] is bg.args[0].args[0]:
        X_ = bg.args[0].args[0]
        S_ = X_.args[0] if X_.op == "sub" else None
        if S_ is not None and S_.op == "call" and S_.args[0] is glob("pandas.Series") and len(S_.args[1]) == 1 and not S_.args[2]:
            bg = mk("sub", S_.args[1][0], bi)
    ok_idx = bg.op == "sub" and w.op == "sub" and bg.args[1] is bi and w.args[1] is bi
    ctx.ob("R08.1", fq, post["best_gap_"].node, ok_idx, "best_gap_ and weights_ are read at the same index best_iter_",
           construct="same best index")
    if not ok_idx:
        return
    gaps_out, Qs_out = bg.args[0], w.args[0]
    # the per-iteration grown lists
    def grown(term):
        # loopout(name, key, init, (values at end of body...))
        if term.op == "loopout":
            return term.args[0], term.args[2], term.args[3]
        return None, None, ()
    gname, ginit, gvals = grown(gaps_out)
    qname, qinit, qvals = grown(Qs_out)
    ok = gname is not None and qname is not None and ginit.op == "list" and not ginit.args[0] and qinit.op == "list" \
        and not qinit.args[0]
    ctx.ob("R08.2", fq, L.node, ok, "gaps and Qs start empty before the loop and are only grown inside it",
           construct="lists start empty")
    if not ok:
        return
    def appended(vals):
        out = []
        for v in vals:
            # ite(c, listappend(loopvar, a), listappend(loopvar, b))
            cv = v
            if cv.op == "ite":
                br = [cv.args[1], cv.args[2]]
                c = cv.args[0]
            else:
                br, c = [cv], None
            items = []
            for b_ in br:
                while b_.op == "assume":
                    b_ = b_.args[1]
                if b_.op == "listappend" and b_.args[0].op == "loopvar":
                    items.append(b_.args[1])
                else:
                    items.append(None)
            if c is None and len(items) == 1 and items[0] is not None and items[0].op == "ite":
                # one append of a value chosen by a conditional expression: the same two alternatives
                c, items = items[0].args[0], [items[0].args[1], items[0].args[2]]
            out.append((c, items))
        return out
    ga, qa = appended(gvals), appended(qvals)
    ok = len(ga) == 1 and len(qa) == 1 and all(x is not None for x in ga[0][1]) and all(x is not None for x in qa[0][1]) \
        and len(ga[0][1]) == len(qa[0][1]) and ga[0][0] is qa[0][0]
    ctx.ob("R08.2", fq, L.node, ok, "each iteration appends exactly one element to gaps and one to Qs, under the same "
           "branch condition", construct="lock-step appends")
    if not ok:
        return
    cond, gitems, qitems = ga[0][0], ga[0][1], qa[0][1]
    # sources: EG pair = (Qsum/Qsum.sum(), eval_gap(Q_EG, ...).gap()); LP pair = (solve_linprog[0], solve_linprog[2].gap())
    def src(g, q):
        # returns 'EG' / 'LP' / None
        if g.op == "call" and g.args[0].op == "attr" and g.args[0].args[1] == "gap":
            res = g.args[0].args[0]
            if res.op == "call" and res.args[0].op == "boundmethod" and res.args[0].args[1].endswith(".eval_gap"):
                return "EG" if res.args[1] and res.args[1][0] is q else None
            if res.op == "sub" and res.args[1] is const(2) and res.args[0].op == "call" and res.args[0].args[0].op == "boundmethod" \
                    and res.args[0].args[0].args[1].endswith(".solve_linprog"):
                return "LP" if q.op == "sub" and q.args[0] is res.args[0] and q.args[1] is const(0) else None
        return None
    kinds = []
    for g, q in zip(gitems, qitems):
        g2 = g
        # gap_LP may be inf on the first iteration / without the LP step
        if g2.op == "ite":
            alts = [x for x in (g2.args[1], g2.args[2]) if not (x.op == "global" and x.args[0] == "numpy.inf")]
            g2 = alts[0] if len(alts) == 1 else g2
        q2 = q
        if q2.op == "ite":
            alts = [x for x in (q2.args[1], q2.args[2]) if x.op != "undef" and not (x.op == "loopvar")]
            q2 = alts[0] if len(alts) == 1 else q2
        kinds.append(src(g2, q2))
    ok = sorted(k or "?" for k in kinds) == ["EG", "LP"] if len(kinds) == 2 else False
    ctx.ob("R08.2", fq, L.node, ok, "the appended (Q, gap) pairs are (Q_EG, gap of eval_gap(Q_EG, ...)) and (Q_LP, gap of "
           "the LP result): never a Q from one source with the gap of the other" if ok else
           f"appended pairs mix sources: {kinds}", construct="paired sources")
    # the branch picks the smaller gap
    if cond is not None and len(gitems) == 2:
        c = A.C.canon(cond)
        ge, gl = (gitems[0], gitems[1]) if kinds and kinds[0] == "EG" else (gitems[1], gitems[0])
        want1 = A.C.canon(mk("cmp", "<", ge, gl))
        want2 = A.C.canon(mk("cmp", "<=", ge, gl))
        first_is_eg = kinds and kinds[0] == "EG"
        okc = (c in (want1, want2)) if first_is_eg else (A.C._not(c) in (want1, want2))
        ctx.ob("R08.2", fq, L.node, okc, "the pair with the smaller gap is kept", construct="smaller gap kept")
    # ---- early exit certificate
    breaks = [e for e in in_loop if e.kind in ("break", "return") and e.func == fq and len(e.loops) == 1]
    raises = []
    gaps_now = gvals[0]
    nu_now = A.at(breaks[0], "self.nu") if breaks else None
    ctx.floor("R08.1", "early exits of the training loop", len(breaks), 1)
    for b in breaks:
        lits = [A.C.canon(x) for x in pc_literals(b.pc)]
        want = {A.C.canon(mk("cmp", "<", mk("sub", gaps_now, t), A.at(b, "self.nu")))}
        # gaps[t] is the smaller of the two candidate gaps, so a candidate below nu implies gaps[t] below nu
        for g in gitems:
            want.add(A.C.canon(mk("cmp", "<", g, A.at(b, "self.nu"))))
        for v in gvals:
            # the appended value itself, under whatever local name it has (gap_t = gap_EG if ... else gap_LP)
            while v.op == "assume":
                v = v.args[1]
            if v.op == "listappend":
                want.add(A.C.canon(mk("cmp", "<", v.args[1], A.at(b, "self.nu"))))
        ok = any(l in want for l in lits)
        ctx.ob("R08.1", fq, b.node, ok, "the early exit is taken only when gaps[t] < nu for the gap appended in this "
               "iteration" if ok else "an exit of the training loop is not guarded by gaps[t] < nu on this iteration's gap: "
               "fitting can stop before max_iter with best_gap_ >= nu", construct="early exit guard")
    # best_iter_: last index within _PRECISION of the minimum
    b_ = {"pd": glob("pandas"), "gaps": gaps_out}
    gs = A.at(post["best_iter_"], "pd.Series(gaps)", b_)
    b_["gs"] = gs
    specs = [A.at(post["best_iter_"], s, b_) for s in ("gs[gs <= gs.min() + _PRECISION].index[-1]",
                                                       "gs[gs <= _PRECISION + gs.min()].index[-1]")]
    A.formula("R08.1", fq, post["best_iter_"].node, bi, specs, "best_iter_ = last index with gap <= min(gaps) + _PRECISION",
              construct="best_iter_ formula")
    # ---- padding of weights
    pads = [e for e in r.events if e.kind == "store" and e.data.get("tkind") == "sub" and e.func == fq
            and e.data["value"] is const(0.0) and e.seq > post["weights_"].seq]
    okp = False
    if pads:
        e = pads[0]
        lev = [x for x in r.events if x.kind == "loop" and x.data.get("lid") == e.loops[-1]][0]
        hs_index = A.at(post["weights_"], "self._hs.index") if "_hs" in post else None
        okp = (e.data["key"] is lev.data["elem"] and hs_index is not None and A.eq(lev.data["iter"], A.at(e, "self._hs.index"))
               and _peel(e.data["obj"])[1] in (None, "at", "loc")
               and any(A.C.canon(l) is A.C.canon(A.at(e, "K not in W.index", {"K": lev.data["elem"], "W": W_}))
                       # membership in the table as it grows, or as it was before the padding (the ids of _hs.index are distinct, so
                       # an id added by the padding is not met again)
                       for W_ in (_peel(e.data["obj"])[0], root_of(_peel(e.data["obj"])[0]) if _peel(e.data["obj"])[0].op == "loopvar" else _peel(e.data["obj"])[0])
                       for l in pc_literals(e.pc)))
    ctx.ob("R08.4", fq, pads[0].node if pads else None, okp, "every predictor id missing from the selected Q gets weight 0.0",
           construct="weight padding")
    hs = post.get("_hs")
    preds = post.get("predictors_")
    ok = hs is not None and preds is not None and hs.data["value"].op == "attr" and hs.data["value"].args[1] == "hs" \
        and preds.data["value"].op == "attr" and preds.data["value"].args[1] == "predictors" \
        and preds.data["value"].args[0] is hs.data["value"].args[0]
    ctx.ob("R08.4", fq, hs.node if hs else None, ok, "_hs and predictors_ come from the same Lagrangian", construct="predictor tables")


def r083(ctx):
    ctx.rule("R08.3", "B = 1/eps; L = error + sum(lambda*(gamma - bound)); L_high = error + B*max(gamma - bound) when that "
                      "max is positive, else error; gap = max(L - L_low, L_high - L); L_low = min of L over best responses "
                      "evaluated at the same lambda_hat; lambda_t = B*exp(theta)/(1 + sum(exp(theta))); theta += eta*(gamma "
                      "- bound); Q_EG = Qsum/sum(Qsum); the LP has the simplex equality row")
    A = Analysis(ctx, inline=_no_lag, max_depth=3)
    r = A.run(EG + ".fit", cls_ctx=EG)
    fq = r.func
    np_ = {"np": glob("numpy")}
    # B and the Lagrangian construction
    lag = [e for e in r.events if e.kind == "call" and e.data.get("constructs") == LAG]
    ctx.require(len(lag) == 1, "anchor vanished: _Lagrangian construction")
    lg = lag[0]
    B = kw(lg, "B")
    A.formula("R08.3", fq, lg.node, B, A.at(lg, "1 / self.eps"), "B = 1/eps", construct="B formula")
    ok = (kw(lg, "X") is r.params["X"] and kw(lg, "y") is r.params["y"] and A.eq(kw(lg, "constraints"), A.at(lg, "self.constraints"))
          and A.eq(kw(lg, "estimator"), A.at(lg, "self.estimator")) and A.eq(kw(lg, "objective"), A.at(lg, "self.objective")))
    ctx.ob("R08.3", fq, lg.node, ok, "the Lagrangian is built from the caller's data and the configured estimator / constraints "
           "/ objective", construct="Lagrangian arguments")
    loopev = [e for e in r.events if e.kind == "loop" and contains(e.data["iter"], lambda s: s.op == "attr" and s.args[1] == "max_iter")][0]
    lid = loopev.data["lid"]
    body = [e for e in r.events if e.loops and e.loops[0] == lid]
    bh = [e for e in body if e.kind == "call" and e.data["fterm"].op == "boundmethod" and e.data["fterm"].args[1].endswith(".best_h")]
    ctx.require(len(bh) == 1, "anchor vanished: best_h call in the loop")
    lam = arg(bh[0], 0)
    lagr = bh[0].data["fterm"].args[0]  # the Lagrangian object the loop works with
    # theta: the loop-carried vector the multiplier is computed from (whatever it is called)
    carried = [s for s in subterms(lam) if s.op == "loopvar"]
    ctx.require(len({c.uid for c in carried}) == 1, "lambda_t does not depend on exactly one loop-carried vector")
    theta = carried[0]
    theta_name = theta.args[0]
    spec = A.spec("B * np.exp(theta) / (1 + np.exp(theta).sum())", {"B": B, "theta": theta, **np_})
    A.formula("R08.3", fq, bh[0].node, lam, spec, "lambda_t", construct="lambda_t formula")
    ok0 = A.eq(theta.args[2], A.spec("pd.Series(0, L.constraints.index)", {"L": lagr, "pd": glob("pandas")}))
    ctx.ob("R08.3", fq, bh[0].node, ok0, "theta starts at 0 on the constraint index", construct="theta initial value")
    # theta update
    th = [e for e in body if e.kind == "store" and e.data.get("tkind") == "name" and e.data["name"] == theta_name]
    ctx.floor("R08.3", "theta updates in the loop", len(th), 1)
    gam_want = A.spec("L.gammas[IDX]", {"L": lagr, "IDX": mk("sub", bh[0].data["result"], const(1))})
    for e in th:
        bound = A.at(e, "self.constraints.bound()")
        # value = theta + eta * (gamma - bound): solve for eta
        step = A.C._as_rat(A.C.canon(e.data["value"])) - A.C._as_rat(A.C.canon(theta))
        slack = A.C._as_rat(A.C.canon(gam_want)) - A.C._as_rat(A.C.canon(bound))
        from ..alg import Rat, rat_subst
        cg, cb = A.C.canon(gam_want), A.C.canon(bound)
        # step is linear in (gamma - bound): its value at gamma = 1, bound = 0 is the step size eta
        eta = rat_subst(step, {cg: Rat.const(1), cb: Rat.const(0)})
        atoms = eta.num.atoms() | eta.den.atoms()
        okf = not step.num.is_zero() and step.equals(eta * slack) and not any(
            a is cg or a is cb or a is A.C.canon(theta) for a in atoms)
        ctx.ob("R08.3", fq, e.node, okf, "theta <- theta + eta * (gamma - bound) with gamma the constraint vector of this "
               "iteration's best response and eta a step size independent of gamma / bound" if okf else
               f"theta update is {A.show(e.data['value'], 200)}", construct="theta update formula")
        ok = dominates(bh[0], e) and len(e.loops) == 1
        ctx.ob("R08.3", fq, e.node, ok, "theta is updated once per iteration after the best response", construct="theta update placement")
    # Q_EG
    eg = [e for e in body if e.kind == "call" and e.data["fterm"].op == "boundmethod" and e.data["fterm"].args[1].endswith(".eval_gap")]
    ctx.require(len(eg) == 1, "anchor vanished: eval_gap call in the loop")
    Q = arg(eg[0], 0)
    cq = A.C._as_rat(A.C.canon(Q))
    okq_ = False
    for x in cq.num.atoms():
        if A.eq(Q, A.spec("X / X.sum()", {"X": x})):
            okq_ = True
    ctx.ob("R08.3", fq, eg[0].node, okq_, "Q_EG = Qsum / sum(Qsum)", construct="Q_EG formula")
    lam_eg = arg(eg[0], 1)
    ok = lam_eg.op == "call" and lam_eg.args[0].op == "attr" and lam_eg.args[0].args[1] == "mean" and dict(lam_eg.args[2]).get("axis") is const(1)
    ctx.ob("R08.3", fq, eg[0].node, ok, "lambda_EG is the running mean of the multiplier vectors", construct="lambda_EG")
    # Qsum counts the chosen predictor
    def _qroot(o):
        o = root_of(o)
        if o.op == "attr" and o.args[1] in ("at", "loc"):
            o = root_of(o.args[0])
        return o
    inc = [e for e in body if e.kind == "store" and e.data.get("tkind") == "sub" and _qroot(e.data["obj"]).op == "call"
           and e.data["key"] is mk("sub", bh[0].data["result"], const(1))]
    okq = any(A.C._as_rat(A.C.canon(e.data["value"])).num.terms.get((), 0) == 1 for e in inc)
    ctx.ob("R08.3", fq, inc[-1].node if inc else None, okq, "Qsum[h_idx] is incremented by 1 for the best response",
           construct="Qsum increment")
    # ---- _Lagrangian._eval
    A2 = Analysis(ctx, max_depth=2)
    re_ = A2.run(LAG + "._eval", cls_ctx=LAG)
    ret = re_.ret
    ctx.require(ret is not None and ret.op == "tuple" and len(ret.args[0]) == 4, "_eval does not return a 4-tuple")
    Lt, Lh, gam, err = ret.args[0]
    P = re_.params
    lamv = mk("ite", A2.entry(re_, "self.opt_lambda"), A2.entry(re_, "self.constraints.project_lambda(lambda_vec)"), P["lambda_vec"])
    b = {"err": err, "gam": gam, "lam": lamv, "bound": A2.entry(re_, "self.constraints.bound()"), "B": A2.entry(re_, "self.B"), **np_}
    A2.formula("R08.3", re_.func, None, Lt, [A2.spec(s, b) for s in ("err + np.sum(lam * (gam - bound))", "err + (lam * (gam - bound)).sum()",
                                                                  "err + lam.dot(gam - bound)")], "L", construct="L formula")
    mc = A2.spec("(gam - bound).max()", b)
    b["mc"] = mc
    A2.formula("R08.3", re_.func, None, Lh, mk("ite", A2.spec("mc > 0", b), A2.spec("err + B * mc", b), err), "L_high",
               construct="L_high formula")
    # error / gamma by case
    wantg = mk("ite", A2.entry(re_, "callable(Q)"), A2.entry(re_, "self.constraints.gamma(Q)"), A2.entry(re_, "self.gammas[Q.index].dot(Q)"))
    wante = mk("ite", A2.entry(re_, "callable(Q)"), A2.entry(re_, "self.obj.gamma(Q).iloc[0]"), A2.entry(re_, "self.errors[Q.index].dot(Q)"))
    ctx.ob("R08.3", re_.func, None, A2.eq(gam, wantg) and A2.eq(err, wante), "error and gamma are those of the predictor (or "
           "the Q-weighted mixture of the stored ones)", construct="error/gamma of Q")
    # gap
    rg = A2.run(GAP + ".gap", cls_ctx=GAP)
    A2.formula("R08.3", rg.func, None, rg.ret, [A2.entry(rg, s_) for s_ in (
        "max(self.L - self.L_low, self.L_high - self.L)", "max(self.L_high - self.L, self.L - self.L_low)",
        # max(a, b) spelled out: b if a < b else a (the same value also when a comparison involves NaN)
        "(self.L_high - self.L) if (self.L - self.L_low) < (self.L_high - self.L) else (self.L - self.L_low)",
        "(self.L_high - self.L) if (self.L_high - self.L) > (self.L - self.L_low) else (self.L - self.L_low)")], "gap",
               construct="gap formula")
    ri = A2.run(GAP + ".__init__", cls_ctx=GAP)
    okf = all(ri.final.heap.get((ri.self_term, k)) is ri.params[k] for k in ("L", "L_low", "L_high", "gamma", "error"))
    ctx.ob("R08.3", ri.func, None, okf, "_GapResult stores its five fields under their own names", construct="_GapResult fields")
    # eval_gap: L_low = min over best responses evaluated at lambda_hat
    A3 = Analysis(ctx, max_depth=2, no_inline=[LAG + "._eval", LAG + ".best_h"])
    rv = A3.run(LAG + ".eval_gap", cls_ctx=LAG)
    evs = calls_to(rv, LAG + "._eval")
    ctx.floor("R08.3", "_eval calls in eval_gap", len(evs), 2)
    P = rv.params
    first = evs[0]
    ok = arg(first, 0) is P["Q"] and arg(first, 1) is P["lambda_hat"]
    ctx.ob("R08.3", rv.func, first.node, ok, "L, L_high are evaluated at (Q, lambda_hat)", construct="eval_gap primary evaluation")
    gr = [e for e in rv.events if e.kind == "call" and e.data.get("constructs") == GAP]
    okg = bool(gr) and tuple(arg(gr[0], i_) for i_ in range(5)) == tuple([mk("sub", first.data["result"], const(0)), mk("sub", first.data["result"], const(0)),
                                                           mk("sub", first.data["result"], const(1)), mk("sub", first.data["result"], const(2)),
                                                           mk("sub", first.data["result"], const(3))])
    ctx.ob("R08.3", rv.func, gr[0].node if gr else None, okg, "the result starts as (L, L_low = L, L_high, gamma, error)",
           construct="gap result initialisation")
    inner = [e for e in evs[1:] if e.loops]
    okl = bool(inner)
    for e in inner:
        okl = okl and arg(e, 1) is P["lambda_hat"]
        q = arg(e, 0)
        bhc = [x for x in rv.events if x.kind == "call" and x.data.get("callee") == LAG + ".best_h" and x.loops == e.loops]
        okl = okl and len(bhc) == 1 and contains(q, lambda s: s is mk("sub", bhc[0].data["result"], const(1)))
    ctx.ob("R08.3", rv.func, inner[0].node if inner else None, okl, "each candidate L_low is the Lagrangian of a best response "
           "evaluated at the same lambda_hat (not at the scaled multiplier)", construct="L_low evaluation point")
    low = [e for e in rv.events if e.kind == "store" and e.data.get("tkind") == "attr" and e.data["attr"] == "L_low" and e.loops]
    okm = bool(low) and bool(inner)
    for e in low:
        v_ = e.data["value"]
        if v_.op == "call" and v_.args[0] is glob("builtins.min") and len(v_.args[1]) == 2 and not v_.args[2] and inner:
            # result.L_low = min(result.L_low, candidate): the running minimum written with min()
            cand = mk("sub", inner[0].data["result"], const(0))
            cur = [x for x in v_.args[1] if x is not cand]
            okm = okm and len(cur) == 1 and any(x is cand for x in v_.args[1]) and cur[0].op == "loopvar" \
                and not contains(cur[0], lambda s: s is cand) and len(pc_literals(e.pc)) == len(pc_literals(inner[0].pc))
            continue
        lit = A3.C.canon(pc_literals(e.pc)[-1])
        new_v = A3.C.canon(e.data["value"])
        # canonical orientation is `<` / `<=` with the smaller side first: the new candidate must be on the small side
        okm = okm and lit.op == "cmp" and lit.args[0] in ("<", "<=") and lit.args[1] is new_v and not contains(lit.args[2], lambda s: s is new_v) \
            and e.data["value"] is mk("sub", inner[0].data["result"], const(0))
    ctx.ob("R08.3", rv.func, low[0].node if low else None, okm, "L_low is replaced only by a smaller value (running minimum)",
           construct="L_low minimum")
    # LP simplex row
    rl = A2.run(LAG + ".solve_linprog", cls_ctx=LAG)
    lp = [e for e in rl.events if e.kind == "call" and e.data.get("callee") == "scipy.optimize.linprog"]
    ctx.floor("R08.3", "linprog calls", len(lp), 2)
    prim = lp[0]
    b = {"n_hs": A2.at(prim, "len(self.hs)"), **np_}
    okA = A2.eq(kw(prim, "A_eq"), A2.spec("np.concatenate((np.ones((1, n_hs)), np.zeros((1, 1))), axis=1)", b)) and \
        A2.eq(kw(prim, "b_eq"), A2.spec("np.ones(1)", b))
    ctx.ob("R08.3", rl.func, prim.node, okA, "the primal LP constrains the weights to sum to one (row of ones, rhs 1)",
           construct="simplex equality row")
    c = arg(prim, 0)
    okc = A2.eq(c, A2.at(prim, "np.concatenate((self.errors, [self.B]))", np_))
    ctx.ob("R08.3", rl.func, prim.node, okc, "the primal objective is (errors, B)", construct="LP objective")
    ub = kw(prim, "A_ub")
    okub = A2.eq(ub, A2.at(prim, "np.concatenate((self.gammas.sub(self.constraints.bound(), axis=0), -np.ones((len(self.constraints.index), 1))), axis=1)", np_))
    ctx.ob("R08.3", rl.func, prim.node, okub, "the inequality rows are gamma - bound - slack <= 0", construct="LP inequality rows")


def _mixture(ctx):
    from . import c10
    ctx.rule("R08.7", "the certified classifier Q is what predict evaluates: the weights_-weighted mixture of the stored predictors, "
                      "aligned by predictor id (shared with C10 R10.1)")
    ctx.aliased({"R10.1": "R08.7"}, c10.r101, ctx)


def _shared_c08(ctx):
    """Life-cycle (history independence, pure prediction) and label-position clauses of the estimator(s) this property
    is about, shared with C19 R19.3/R19.4 and C12 R12.1 and reported under this property's rule ids."""
    from .c12 import label_sinks
    from .c19 import lifecycle_of
    ctx.rule("R08.5", "fit does not depend on state left by an earlier fit and prediction writes no state (shared with C19 R19.3 / R19.4)")
    lifecycle_of(ctx, [EG], {"R19.3": "R08.5", "R19.4": "R08.5", "R19.6": "R08.5", "R19.8": "R08.5"})
    ctx.rule("R08.6", "no caller-labelled pandas value reaches a label-aligning operation on the paths of this property (shared with C12 R12.1)")
    label_sinks(ctx, "R08.6", [(EG + ".fit", EG)])


def r088_best_h(ctx):
    ctx.rule("R08.8", "best_h: the candidate's value is error + gamma . lambda; it is recorded - predictor, callable, error, gamma, "
                      "lambda under one new index len(hs) - exactly when it improves on the best stored value by more than "
                      "_PRECISION; the stored best is the arg-min of errors + gammas^T lambda; the returned pair is (hs[best], best)")
    A = Analysis(ctx, no_inline=[LAG + "._call_oracle", M_LAG + ":_PredictorAsCallable.__init__"], max_depth=2)
    r = A.run(LAG + ".best_h", cls_ctx=LAG)
    fq = r.func
    P = r.params
    lam = P["lambda_vec"]
    orc = calls_to(r, LAG + "._call_oracle")
    ctx.require(len(orc) == 1, "anchor vanished: _call_oracle call in best_h")
    ok = arg(orc[0], 0) is lam
    ctx.ob("R08.8", fq, orc[0].node, ok, "the oracle is called with the given multiplier vector", construct="oracle call")
    clf = orc[0].data["result"]
    wraps = [e for e in r.events if e.kind == "call" and e.data.get("constructs") == M_LAG + ":_PredictorAsCallable"]
    ok = len(wraps) == 1 and arg(wraps[0], 0) is clf
    ctx.ob("R08.8", fq, wraps[0].node if wraps else None, ok, "the callable wraps the classifier the oracle returned",
           construct="callable wraps oracle result")
    if not wraps:
        return
    h = wraps[0].data["result"]
    st = [e for e in r.events if e.kind == "store" and e.data.get("tkind") == "sub" and e.func == fq]
    by = {}
    import ast as _ast
    for e in st:
        b = e.data.get("base_node")
        name = None
        if isinstance(b, _ast.Attribute) and b.attr == "at" and isinstance(b.value, _ast.Attribute):
            name = b.value.attr
        elif isinstance(b, _ast.Attribute):
            name = b.attr
        if name:
            by.setdefault(name, []).append(e)
    need = {"hs", "predictors", "errors", "gammas", "lambdas"}
    ok = need <= set(by) and all(len(by[n]) == 1 for n in need)
    if ok:
        keys = {by[n][0].data["key"] for n in need}
        idx = A.at(by["hs"][0], "len(HS)", {"HS": root_of(by["hs"][0].data["obj"]), "len": glob("builtins.len")})
        ok = len(keys) == 1 and A.eq(next(iter(keys)), A.entry(r, "len(self.hs)")) and len({tuple(x.uid for x in by[n][0].pc) for n in need}) == 1
        herr = A.spec("O.gamma(h).iloc[0]", {"O": A.entry(r, "self.obj"), "h": h})
        hgam = A.spec("C.gamma(h)", {"C": A.entry(r, "self.constraints"), "h": h})
        vals_ok = by["hs"][0].data["value"] is h and by["predictors"][0].data["value"] is clf and A.eq(by["errors"][0].data["value"], herr) \
            and A.eq(by["gammas"][0].data["value"], hgam) and A.eq(by["lambdas"][0].data["value"], A.spec("l.copy()", {"l": lam}))
        ok = ok and vals_ok
        # improvement test
        lit = A.C.canon(by["hs"][0].pc[-1]) if by["hs"][0].pc else None
        hval = A.spec("e + g.dot(l)", {"e": herr, "g": hgam, "l": lam})
        values = A.entry(r, "self.errors + self.gammas.transpose().dot(lambda_vec)")
        bestv = mk("ite", A.entry(r, "not self.hs.empty"), A.spec("v[v.idxmin()]", {"v": values}), glob("numpy.inf"))
        want = A.C.canon(A.spec("hv < bv - P", {"hv": hval, "bv": bestv, "P": A.ev.eval_src("_PRECISION", {}, module=M_LAG)}))
        ok = ok and lit is want
    ctx.ob("R08.8", fq, by["hs"][0].node if "hs" in by else None, ok, "an improving candidate is recorded in all five tables under "
           "the same new index len(hs), with its own error / gamma / lambda" if ok else
           "the five best-response tables are not updated in lock-step under one new index (or the improvement test differs)",
           construct="best-response records")
    ret = r.ret
    def _pair_ok(h_, i_):
        # (hs[i], i); with an early return the two components are conditionals over the same test
        if h_.op == "ite" and i_.op == "ite" and h_.args[0] is i_.args[0]:
            return _pair_ok(h_.args[1], i_.args[1]) and _pair_ok(h_.args[2], i_.args[2])
        return h_.op == "sub" and h_.args[1] is i_
    ok = ret is not None and ret.op == "tuple" and len(ret.args[0]) == 2 and _pair_ok(ret.args[0][0], ret.args[0][1])
    ctx.ob("R08.8", fq, None, ok, "best_h returns (hs[best_idx], best_idx)", construct="best_h return")


def r0813_callable(ctx):
    ctx.rule("R08.13", "the callable h that gamma / error are evaluated on is the stored classifier's own predict: "
                       "_PredictorAsCallable(c)(X) = c.predict(X)")
    A = Analysis(ctx, max_depth=1, inline=lambda f_, d_: False)
    cls = M_LAG + ":_PredictorAsCallable"
    ri = A.run(cls + ".__init__", cls_ctx=cls)
    rc = A.run(cls + ".__call__", cls_ctx=cls)
    stored = ri.final.heap.get((ri.self_term, "_classifier")) if ri.final else None
    want = A.entry(rc, "self._classifier.predict(X)")
    ok = stored is ri.params["classifier"] and rc.ret is want
    ctx.ob("R08.13", rc.func, None, ok, "h(X) is the wrapped classifier's predict(X)" if ok else
           f"h(X) is {show(rc.ret, maxdepth=4)[:80] if rc.ret is not None else '?'}: errors and constraint values are not those of the stored predictor",
           construct="predictor as callable")


def r0812_precision(ctx):
    ctx.rule("R08.12", "_PRECISION is a small tolerance (0 <= _PRECISION <= 1e-6): best_h keeps a stored classifier whose Lagrangian is "
                       "within _PRECISION of the new best response, so L_low - and with it the certified gap - is exact only up to "
                       "that amount")
    A = Analysis(ctx)
    v = A.ev.eval_src("_PRECISION", {}, module=M_LAG)
    while v.op == "modconst":
        v = v.args[1]
    val = const_value(v) if v.op == "const" else None
    ok = isinstance(val, (int, float)) and not isinstance(val, bool) and 0 <= val <= 1e-6
    ctx.ob("R08.12", M_LAG + ":<module>", None, ok, f"_PRECISION = {val}" if ok else f"_PRECISION = {val}: the certificate can be "
           "understated by that much", construct="_PRECISION magnitude")


def r089_eval_gap(ctx):
    ctx.rule("R08.9", "eval_gap: the best response at lambda_hat itself (multiplier 1) is evaluated before any exit of the "
                      "multiplier loop; each candidate is the point mass Series({idx: 1.0}) on the index best_h returned for "
                      "mul * lambda_hat; so L_low <= L(best response at lambda_hat, lambda_hat) and the gap is never understated")
    A3 = Analysis(ctx, max_depth=2, no_inline=[LAG + "._eval", LAG + ".best_h"])
    rv = A3.run(LAG + ".eval_gap", cls_ctx=LAG)
    fq = rv.func
    P = rv.params
    loops = [e for e in rv.events if e.kind == "loop" and e.func == fq]
    ctx.require(len(loops) == 1, "anchor vanished: multiplier loop of eval_gap")
    L = loops[0]
    it = L.data["iter"]
    vals = None
    if it.op in ("list", "tuple"):
        vals = [const_value(x) if x.op == "const" else None for x in it.args[0]]
    ok = bool(vals) and vals[0] is not None and vals[0] == 1
    ctx.ob("R08.9", fq, L.node, ok, f"the multipliers are the literal sequence {vals}; the first one is 1" if ok else
           f"the first multiplier tried is not 1 ({show(it, maxdepth=3)[:60]}): the best response at lambda_hat is not (or not "
           "first) evaluated, so L_low can exceed the true minimum and the gap is understated", construct="multiplier sequence")
    lid = L.data["lid"]
    body = [e for e in rv.events if e.loops and e.loops[0] == lid]
    bh = [e for e in body if e.kind == "call" and e.data.get("callee") == LAG + ".best_h"]
    evs = [e for e in body if e.kind == "call" and e.data.get("callee") == LAG + "._eval"]
    ok = len(bh) == 1 and len(evs) == 1 and A3.eq(arg(bh[0], 0), A3.spec("m * lam", {"m": L.data["elem"], "lam": P["lambda_hat"]}))
    ctx.ob("R08.9", fq, bh[0].node if bh else L.node, ok, "the best response is computed for mul * lambda_hat",
           construct="best response argument")
    if len(bh) == 1 and len(evs) == 1:
        want = A3.spec("pd.Series({i: 1.0})", {"pd": glob("pandas"), "i": mk("sub", bh[0].data["result"], const(1))})
        want2 = A3.spec("pd.Series({i: 1})", {"pd": glob("pandas"), "i": mk("sub", bh[0].data["result"], const(1))})
        q = arg(evs[0], 0)
        ok = q is want or q is want2 or A3.eq(q, want)
        ctx.ob("R08.9", fq, evs[0].node, ok, "the candidate is the point mass on the returned predictor index" if ok else
               f"the candidate evaluated for L_low is {show(q, maxdepth=4)[:100]}, not the point mass Series({{idx: 1.0}})",
               construct="point-mass candidate")
    low = [e for e in body if e.kind == "store" and e.data.get("tkind") == "attr" and e.data["attr"] == "L_low"]
    exits = [e for e in body if e.kind in ("break", "return", "continue", "raise") and e.func == fq]
    ok = bool(low) and all(x.seq > max(l.seq for l in low) for x in exits)
    ctx.ob("R08.9", fq, (exits[0].node if exits else L.node), ok, f"all {len(exits)} exits of the multiplier loop come after the "
           "L_low update of the same iteration", construct="exit after update")


def r0810_linprog(ctx):
    ctx.rule("R08.10", "solve_linprog: primal min (errors, B).(Q, t) s.t. (gammas - bound) Q - t <= 0, sum Q = 1, x >= 0; Q = x[:-1] "
                       "on hs.index; the dual is its transpose (c = (b_ub, -b_eq), A = (-A_ub^T | A_eq^T), b = primal c, "
                       "multipliers >= 0, equality multiplier free); lambda = x_dual[:-1] on constraints.index; the result is "
                       "(Q, lambda, eval_gap(Q, lambda, nu)) and is cached only for an unchanged number of predictors")
    A = Analysis(ctx, max_depth=2, no_inline=[LAG + ".eval_gap"])
    rl = A.run(LAG + ".solve_linprog", cls_ctx=LAG)
    fq = rl.func
    np_ = {"np": glob("numpy"), "pd": glob("pandas")}
    lp = [e for e in rl.events if e.kind == "call" and e.data.get("callee") == "scipy.optimize.linprog"]
    ctx.require(len(lp) == 2, "anchor vanished: the two linprog calls")
    prim, dual = lp
    n = A.at(prim, "len(self.constraints.index)")
    b = dict(np_, n=n)
    okb = kw(prim, "b_ub") is not None and A.eq(kw(prim, "b_ub"), A.spec("np.zeros(n)", b))
    ctx.ob("R08.10", fq, prim.node, okb, "the inequality right-hand side is zero", construct="LP b_ub")
    ok = kw(prim, "bounds") is None
    ctx.ob("R08.10", fq, prim.node, ok, "the primal variables keep linprog's default bounds (x >= 0)", construct="LP primal bounds")
    bq = dict(np_, R=prim.data["result"], S=rl.self_term)
    qs = [e for e in rl.events if e.kind == "call" and e.data.get("callee") == "pandas.Series" and e.func == fq]
    Qw = A.spec("pd.Series(R.x[:-1], S.hs.index)", bq)
    Qw2 = A.spec("pd.Series(R.x[:-1], index=S.hs.index)", bq)
    Qe = [e for e in qs if contains(e.data["result"], lambda s: s is prim.data["result"]) and not contains(e.data["result"], lambda s: s is dual.data["result"])]
    ok = len(Qe) == 1 and (Qe[0].data["result"] is Qw or Qe[0].data["result"] is Qw2)
    ctx.ob("R08.10", fq, Qe[0].node if Qe else prim.node, ok, "Q is the primal solution without the slack variable, labelled by "
           "the predictor ids" if ok else f"Q is {show(Qe[0].data['result'], maxdepth=3)[:120] if Qe else '?'}", construct="LP Q")
    if not (kw(prim, "A_ub") is not None and kw(prim, "A_eq") is not None and kw(prim, "b_eq") is not None and kw(prim, "b_ub") is not None):
        ctx.ob("R08.10", fq, prim.node, False, "the primal LP lacks A_ub / b_ub / A_eq / b_eq", construct="LP primal keywords")
        return
    bd = dict(np_, c=arg(prim, 0), A_ub=kw(prim, "A_ub"), b_ub=kw(prim, "b_ub"), A_eq=kw(prim, "A_eq"), b_eq=kw(prim, "b_eq"), n=n)
    okd = A.eq(arg(dual, 0), A.spec("np.concatenate((b_ub, -b_eq))", bd))
    ctx.ob("R08.10", fq, dual.node, okd, "dual objective = (b_ub, -b_eq)", construct="dual objective")
    okd = kw(dual, "A_ub") is not None and A.eq(kw(dual, "A_ub"), A.spec("np.concatenate((-A_ub.transpose(), A_eq.transpose()), axis=1)", bd))
    ctx.ob("R08.10", fq, dual.node, okd, "dual rows = (-A_ub^T | A_eq^T)", construct="dual matrix")
    okd = kw(dual, "b_ub") is not None and A.eq(kw(dual, "b_ub"), bd["c"]) and kw(dual, "A_eq") is None
    ctx.ob("R08.10", fq, dual.node, okd, "dual right-hand side = primal objective", construct="dual rhs")
    wantb = A.spec("[(None, None) if i == n else (0, None) for i in range(n + 1)]", bd)
    wantb2 = A.spec("[(0, None)] * n + [(None, None)]", bd)
    wantb3 = A.spec("[(0, None) for _i in range(n)] + [(None, None)]", bd)
    gb = kw(dual, "bounds")
    okd = gb is not None and (gb is wantb or A.eq(gb, wantb) or A.eq(gb, wantb2) or A.eq(gb, wantb3))
    ctx.ob("R08.10", fq, dual.node, okd, "the n multipliers are non-negative and the multiplier of the simplex row is free" if okd else
           f"dual bounds are {show(gb, maxdepth=4)[:120] if gb is not None else 'missing'}", construct="dual bounds")
    bl = dict(np_, R=dual.data["result"], S=rl.self_term)
    Lw = (A.spec("pd.Series(R.x[:-1], S.constraints.index)", bl), A.spec("pd.Series(R.x[:-1], index=S.constraints.index)", bl))
    Le = [e for e in qs if contains(e.data["result"], lambda s: s is dual.data["result"])]
    ok = len(Le) == 1 and Le[0].data["result"] in Lw
    ctx.ob("R08.10", fq, Le[0].node if Le else dual.node, ok, "lambda is the dual solution without the free multiplier, labelled by "
           "the constraint index", construct="LP lambda")
    if not (Qe and Le):
        return
    Q, lam = Qe[0].data["result"], Le[0].data["result"]
    eg = calls_to(rl, LAG + ".eval_gap")
    ok = len(eg) == 1 and arg(eg[0], 0, "Q") is Q and arg(eg[0], 1, "lambda_hat") is lam and arg(eg[0], 2, "nu") is rl.params["nu"]
    ctx.ob("R08.10", fq, eg[0].node if eg else None, ok, "the LP pair is certified by eval_gap(Q, lambda, nu)", construct="LP certificate")
    fresh = [(pc, v) for pc, v in rl.returns if not (v.op == "attr" and v.args[1] == "last_linprog_result")]
    cached = [(pc, v) for pc, v in rl.returns if v.op == "attr" and v.args[1] == "last_linprog_result" and v.args[0] is rl.self_term]
    want = mk("tuple", (Q, lam, eg[0].data["result"])) if eg else None
    st = stores_attr(rl, "last_linprog_result")
    okr = len(fresh) == 1 and eg and (fresh[0][1] is want or (st and fresh[0][1] is st[-1].data["value"] and st[-1].data["value"] is want))
    ctx.ob("R08.10", fq, None, bool(okr), "the fresh result is (Q, lambda, certificate) in that order", construct="LP result tuple")
    nh = A.entry(rl, "len(self.hs)")
    okc = True
    for pc, v in cached:
        lits = [A.C.canon(x) for x in pc_literals(pc)]
        okc = okc and A.C.canon(A.entry(rl, "self.last_linprog_n_hs == len(self.hs)")) in lits
    sn = stores_attr(rl, "last_linprog_n_hs")
    okc = okc and len(sn) == 1 and A.eq(sn[0].data["value"], nh) and len(st) == 1 and (want is None or st[0].data["value"] is want) \
        and len(sn[0].pc) == len(st[0].pc)
    ctx.ob("R08.10", fq, None, okc, f"the cached result ({len(cached)} exit) is returned only when the number of predictors is "
           "unchanged, and the cache key and value are stored together", construct="LP cache")


def r0811_setup(ctx):
    ctx.rule("R08.11", "_Lagrangian.__init__ loads the caller's data into the constraints and into the objective (the constraints' "
                       "default objective unless one of the same moment type is given); fit records lambda_t in lambda_vecs_EG_[t] "
                       "before averaging and the LP multiplier in lambda_vecs_LP_[t]; nu is assigned only when it was None; new "
                       "predictor ids start with count 0 in Qsum; sample_weight_name is passed on")
    A = Analysis(ctx, max_depth=1, inline=lambda fq, d: False)
    ri = A.run(LAG + ".__init__", cls_ctx=LAG)
    fq = ri.func
    P = ri.params
    loads = [e for e in ri.events if e.kind == "call" and e.data["fterm"].op == "attr" and e.data["fterm"].args[1] == "load_data"]
    def is_data_call(e):
        kws = dict(e.data["kwargs"])
        return arg(e, 0, "X") is P["X"] and arg(e, 1, "y") is P["y"] and kws.get("**") is P["kwargs"]
    cons = [e for e in loads if e.data["fterm"].args[0] is P["constraints"] or A.eq(e.data["fterm"].args[0], P["constraints"])]
    ok = len(cons) == 1 and is_data_call(cons[0]) and not cons[0].pc
    ctx.ob("R08.11", fq, cons[0].node if cons else None, ok, "constraints.load_data(X, y, **kwargs) is called unconditionally",
           construct="constraints loaded")
    obj = ri.final.heap.get((ri.self_term, "obj")) if ri.final is not None else None
    want = mk("ite", A.entry(ri, "objective is None"), A.entry(ri, "constraints.default_objective()"), P["objective"])
    oko = obj is not None and (A.eq(obj, want) or _ite_equal(A, obj, A.entry(ri, "objective is None"), A.entry(ri, "constraints.default_objective()"), P["objective"]))
    ctx.ob("R08.11", fq, None, oko, "obj = constraints.default_objective() when objective is None, else the given objective" if oko else
           f"obj is {show(obj, maxdepth=4)[:120] if obj is not None else 'not stored'}", construct="objective choice")
    objl = [e for e in loads if e not in cons]
    ok = len(objl) == 1 and is_data_call(objl[0]) and obj is not None and A.eq(objl[0].data["fterm"].args[0], obj)
    ctx.ob("R08.11", fq, objl[0].node if objl else None, ok, "obj.load_data(X, y, **kwargs) loads the same data into the objective",
           construct="objective loaded")
    raises = [e for e in ri.events if e.kind == "raise"]
    mt = A.C.canon(A.entry(ri, "objective._moment_type() == constraints._moment_type()"))
    ok = bool(raises) and all(any(A.C.canon(l) is A.C._not(mt) for l in pc_literals(e.pc)) for e in raises)
    ctx.ob("R08.11", fq, raises[0].node if raises else None, ok, "an objective of a different moment type is refused",
           construct="objective type check")
    for a in ("B", "opt_lambda", "estimator", "sample_weight_name"):
        v = ri.final.heap.get((ri.self_term, a)) if ri.final is not None else None
        ctx.ob("R08.11", fq, None, v is P[a], f"self.{a} is the constructor argument", construct=f"Lagrangian.{a}")
    # ---- fit records
    A2 = Analysis(ctx, inline=_no_lag, max_depth=3)
    r = A2.run(EG + ".fit", cls_ctx=EG)
    fq = r.func
    lag = [e for e in r.events if e.kind == "call" and e.data.get("constructs") == LAG]
    ctx.require(len(lag) == 1, "anchor vanished: _Lagrangian construction")
    ok = A2.eq(kw(lag[0], "sample_weight_name"), A2.at(lag[0], "self.sample_weight_name")) and dict(lag[0].data["kwargs"]).get("**") is r.params.get("kwargs")
    ctx.ob("R08.11", fq, lag[0].node, ok, "sample_weight_name and the extra fit keywords are passed to the Lagrangian",
           construct="Lagrangian keyword pass-through")
    loopev = [e for e in r.events if e.kind == "loop" and contains(e.data["iter"], lambda s: s.op == "attr" and s.args[1] == "max_iter")][0]
    lid = loopev.data["lid"]
    t = loopev.data["elem"]
    body = [e for e in r.events if e.loops and e.loops[0] == lid]
    bh = [e for e in body if e.kind == "call" and e.data["fterm"].op == "boundmethod" and e.data["fterm"].args[1].endswith(".best_h")]
    eg = [e for e in body if e.kind == "call" and e.data["fterm"].op == "boundmethod" and e.data["fterm"].args[1].endswith(".eval_gap")]
    ctx.require(len(bh) == 1 and len(eg) == 1, "anchor vanished: best_h / eval_gap in the loop")
    lam = arg(bh[0], 0)
    rec = [e for e in body if e.kind == "store" and e.data.get("tkind") == "sub" and e.func == fq and e.data["key"] is t
           and e.data["value"] is lam and len(e.loops) == 1 and not [l for l in pc_literals(e.pc) if l.op != "inloop"]]
    lam_eg = arg(eg[0], 1)
    ok = len(rec) == 1 and rec[0].seq < eg[0].seq and lam_eg.op == "call" and lam_eg.args[0].op == "attr" \
        and contains(lam_eg.args[0].args[0], lambda s: s.op == "upd" and s.args[1] is t and s.args[2] is lam)
    ctx.ob("R08.11", fq, rec[0].node if rec else eg[0].node, ok, "lambda_t is stored as column t of the frame whose row mean is "
           "lambda_EG, before the mean is taken" if ok else "the multiplier of this iteration is not recorded in the averaged frame "
           "before eval_gap: the certificate refers to a multiplier vector that is not the recorded one", construct="lambda_EG record")
    ok = ok and rec and root_of(rec[0].data["obj"]) is not None
    lp = [e for e in body if e.kind == "call" and e.data["fterm"].op == "boundmethod" and e.data["fterm"].args[1].endswith(".solve_linprog")]
    if lp:
        res = lp[0].data["result"]
        st = [e for e in body if e.kind == "store" and e.data.get("tkind") == "sub" and e.func == fq and e.data["value"] is mk("sub", res, const(1))]
        ok = len(st) == 1 and st[0].data["key"] is t
        ctx.ob("R08.11", fq, lp[0].node, ok, "the LP multiplier (second component of solve_linprog) is recorded as lambda_vecs_LP_[t]",
               construct="lambda_LP record")
    # nu assigned only when None
    for e in [x for x in r.events if x.kind == "store" and x.data.get("tkind") == "attr" and x.data["attr"] == "nu" and x.data["obj"] is r.self_term]:
        raw = mk("attr", r.self_term, "nu")

        def _nu_is_none(l):
            l = A2.C.canon(l)
            if not (l.op == "cmp" and l.args[0] == "is" and NONE in (l.args[1], l.args[2])):
                return False
            x = l.args[1] if l.args[2] is NONE else l.args[2]
            return x is raw or (x.op == "loopvar" and x.args[2] is raw)
        ok = any(_nu_is_none(l) for l in pc_literals(e.pc))
        ctx.ob("R08.11", fq, e.node, ok, "nu is given its default only when the caller requested none" if ok else
               "self.nu is overwritten although the caller requested a threshold: 'stops early => best_gap_ < requested nu' is lost",
               construct="nu default guard")
    # Qsum: new ids start at 0
    hidx = mk("sub", bh[0].data["result"], const(1))
    init = [e for e in body if e.kind == "store" and e.data.get("tkind") == "sub" and e.func == fq and e.data["key"] is hidx
            and e.data["value"].op == "const"]
    def _series(o):
        o = root_of(o)
        return (o.args[0], o.args[1]) if o.op == "attr" and o.args[1] in ("at", "loc", "iat", "iloc") else (o, None)
    ok = len(init) == 1 and const_value(init[0].data["value"]) == 0 and _series(init[0].data["obj"])[1] in (None, "at", "loc") and any(
        A2.C.canon(l) is A2.C.canon(A2.spec("k not in q.index", {"k": hidx, "q": _series(init[0].data["obj"])[0]})) for l in pc_literals(init[0].pc))
    if not init:
        # no separate initialisation: the increment reads the previous count with a default, q.get(k, 0) + 1
        for e in body:
            if e.kind == "store" and e.data.get("tkind") == "sub" and e.func == fq and e.data["key"] is hidx:
                q = _series(e.data["obj"])[0]
                forms = [A2.spec(f_, {"k": hidx, "q": q}) for f_ in ("q.get(k, 0.0) + 1.0", "q.get(k, default=0.0) + 1.0")]
                if any(A2.eq(e.data["value"], f_) for f_ in forms):
                    ok = True
                    init = [e]
    ctx.ob("R08.11", fq, init[0].node if init else None, ok, "a predictor id seen for the first time starts with count 0",
           construct="Qsum initial count")


def _ite_equal(A, v, c, a, b):
    cv = A.C.canon(v)
    return cv.op == "ite" and ((cv.args[0] is A.C.canon(c) and A.eq(cv.args[1], a) and _leaf_or(A, cv.args[2], b)) or
                               (cv.args[0] is A.C._not(A.C.canon(c)) and A.eq(cv.args[2], a) and _leaf_or(A, cv.args[1], b)))


def _leaf_or(A, v, b):
    """v is b, or ite(_, b, <undefined / raising path>)"""
    if A.eq(v, b):
        return True
    cv = A.C.canon(v)
    if cv.op == "ite":
        alts = [x for x in (cv.args[1], cv.args[2]) if x.op not in ("undef", "noreturn") and not (x.op == "attr" and x.args[1] == "obj")]
        return len(alts) == 1 and A.eq(alts[0], b)
    return False
