"""C15 - CorrelationRemover (per-column centring, least-squares / blend formulas, fit/transform agreement)."""
from __future__ import annotations

from ..shape import Arr, Scalar, ShapeEval, Top
from ..terms import NONE, T, const, const_value, contains, glob, mk, show, subterms
from .common import M_CR, Analysis, arg, calls_to, kw, stores_attr

CLS = M_CR + ":CorrelationRemover"
SPLIT = CLS + "._split_X"


def check(ctx):
    ctx.rule("R15.1", "the centring statistic of the n x m_s sensitive block is a reduction over the rows only: it has one "
                      "entry per sensitive column (D-SHAPE, for m_s = 1 and m_s >= 2)")
    ctx.rule("R15.2", "beta_ = lstsq(S - mean, Z)[0]; transform = alpha*(Z - (S - sensitive_mean_) beta_) + (1 - alpha)*Z")
    ctx.rule("R15.3", "transform applies the stored training statistics (sensitive_mean_, beta_, lookup_) and computes no "
                      "statistic of its own argument")
    ctx.rule("R15.4", "_split_X returns (non-sensitive columns in ascending order, sensitive columns in id order) and "
                      "fit / transform use the two parts in those roles")
    A = Analysis(ctx, no_inline=[SPLIT])
    r = A.run(CLS + ".fit", cls_ctx=CLS)
    sp = calls_to(r, SPLIT)
    ctx.require(len(sp) == 1, "anchor vanished: CorrelationRemover.fit no longer calls _split_X once")
    res = sp[0].data["result"]
    Z, S = mk("sub", res, const(0)), mk("sub", res, const(1))
    # R15.1
    st = stores_attr(r, "sensitive_mean_")
    ctx.floor("R15.1", "stores of sensitive_mean_", len(st), 1)
    if len(st) > 1 and r.final is not None and (r.self_term, "sensitive_mean_") in r.final.heap:
        # assigned on several branches (if/else instead of a conditional expression): judge the merged value once
        from ..terms import Event as _Ev
        merged = _Ev(st[-1].seq, "store", (), st[-1].node, st[-1].func, st[-1].cls_ctx, (), (),
                     {"value": r.final.heap[(r.self_term, "sensitive_mean_")]}, None, r.self_term)
        st = [merged]
    for e in st:
        bad = []
        for ms_kind in ("one", "many"):
            env = {S: Arr([("n", "many"), ("m_s", ms_kind)]), Z: Arr([("n", "many"), ("m_z", "many")])}
            v = ShapeEval(env).ev(e.data["value"])
            if isinstance(v, Top):
                ctx.ob("R15.1", r.func, e.node, None, f"shape of the centring statistic not modelled ({v.why})",
                       construct="sensitive_mean_ shape")
                bad = None
                break
            ok = isinstance(v, Arr) and v.rank == 1 and v.ext[0][0] == "m_s"
            if not ok:
                bad.append(f"m_s {'= 1' if ms_kind == 'one' else '>= 2'}: statistic has shape {v}, expected one entry per "
                           "sensitive column")
        if bad is not None:
            ctx.ob("R15.1", r.func, e.node, not bad, "the centring vector has one entry per sensitive column (reduction over "
                   "axis 0 only)" if not bad else "; ".join(bad) + " - with several sensitive columns of different means "
                   "the residual keeps a non-zero covariance", construct="sensitive_mean_ is per column")
        # it is a mean of the sensitive block
        ok = contains(A.C.canon(e.data["value"]), lambda s: s.op == "fn" and s.args[0] == "mean" and s.args[1] is A.C.canon(S))
        ctx.ob("R15.1", r.func, e.node, ok, "the statistic is the mean of the sensitive block", construct="sensitive_mean_ is a mean of S")
        means = [s for s in subterms(A.C.canon(e.data["value"])) if s.op == "fn" and s.args[0] == "mean" and s.args[1] is A.C.canon(S)]
        def _float_dtype(v):
            return (v.op == "global" and v.args[0] in ("builtins.float", "numpy.float64", "numpy.float32", "numpy.floating")) or \
                   (v.op == "const" and const_value(v) in ("float", "float64", "float32", "f8"))
        extra = sorted({k for m_ in means for k, v_ in (m_.args[-1] if isinstance(m_.args[-1], tuple) else ())
                        if k not in ("axis", "keepdims") and not (k == "dtype" and _float_dtype(v_))})
        ctx.ob("R15.1", r.func, e.node, not extra, "the mean is taken in floating point over all rows (no dtype / where / out argument)"
               if not extra else f"the mean is taken with {extra}: an integer dtype truncates the column means (and `where` drops rows), so "
               "the centred columns no longer have zero mean", construct="sensitive_mean_ plain mean")
    # R15.2 fit
    bt = stores_attr(r, "beta_")
    ctx.floor("R15.2", "stores of beta_", len(bt), 1)
    for e in bt:
        spec = A.at(e, "np.linalg.lstsq(S - self.sensitive_mean_, Z, rcond=None)[0]", {"S": S, "Z": Z, "np": glob("numpy")})
        A.formula("R15.2", r.func, e.node, e.data["value"], spec, "beta_ = least squares of Z on the centred S",
                  construct="beta_ formula")
    ok = arg(sp[0], 0) is not None and contains(arg(sp[0], 0), lambda s: s is r.params["X"])
    ctx.ob("R15.4", r.func, sp[0].node, ok, "fit splits the validated X", construct="fit split input")
    # transform
    rt = A.run(CLS + ".transform", cls_ctx=CLS)
    spt = calls_to(rt, SPLIT)
    ctx.require(len(spt) == 1, "anchor vanished: transform no longer calls _split_X once")
    rest = spt[0].data["result"]
    Zt, St = mk("sub", rest, const(0)), mk("sub", rest, const(1))
    b = {"S": St, "Z": Zt, "np": glob("numpy")}
    spec = A.entry(rt, "self.alpha * (Z - (S - self.sensitive_mean_).dot(self.beta_)) + (1 - self.alpha) * Z", b)
    A.formula("R15.2", rt.func, None, rt.ret, spec, "transform = alpha * residual + (1 - alpha) * original",
              construct="transform formula")
    stats = [s for s in subterms(A.C.canon(rt.ret)) if s.op == "fn" and s.args[0] in ("mean", "lstsq", "sum", "std", "var")]
    ctx.ob("R15.3", rt.func, None, not stats, "transform computes no statistic of its argument; it uses the stored "
           "sensitive_mean_ and beta_" if not stats else f"transform recomputes {stats[0].args[0]} on its own argument",
           construct="transform uses training statistics")
    reads = {e.data["attr"] for e in rt.events if e.kind == "read" and e.data["obj"] is rt.self_term}
    ctx.ob("R15.3", rt.func, None, {"sensitive_mean_", "beta_", "alpha"} <= reads, "transform reads sensitive_mean_, beta_ "
           "and alpha", construct="transform reads fitted state")
    # R15.4 split
    A2 = Analysis(ctx)
    rs = A2.run(SPLIT, cls_ctx=CLS)
    X = rs.params["X"]
    b = {"X": X}
    sens = A2.entry(rs, "[self.lookup_[i] for i in self.sensitive_feature_ids]")
    b["sens"] = sens
    non = A2.entry(rs, "[i for i in range(X.shape[1]) if i not in sens]", b)
    b["non"] = non
    want = A2.entry(rs, "(X[:, non], X[:, sens])", b)
    ok = A2.C.canon(rs.ret) is A2.C.canon(want)
    ctx.ob("R15.4", SPLIT, None, ok, "_split_X = (X[:, ascending non-sensitive ids], X[:, sensitive ids in the given order])"
           if ok else f"_split_X returns {A2.show(rs.ret, 200)}", construct="_split_X formula")
    # lookup_: name -> position
    rl = A2.run(CLS + "._create_lookup", cls_ctx=CLS)
    from ..region import specialise
    Xl = rl.params["X"]
    is_df = mk("call", glob("builtins.isinstance"), (Xl, glob("pandas.DataFrame")), ())
    final = rl.final.heap.get((rl.self_term, "lookup_")) if rl.final is not None else None
    bad = []
    if final is None:
        bad.append("lookup_ is not assigned")
    else:
        got_df = specialise(final, {is_df: True})
        want_df = A2.entry(rl, "{c: i for i, c in enumerate(X.columns)}")
        alt_df = [A2.entry(rl, s_) for s_ in ("dict(zip(X.columns, range(len(X.columns))))", "dict(zip(X.columns, range(X.shape[1])))",
                                              "dict((c, i) for i, c in enumerate(X.columns))",
                                              "{X.columns[i]: i for i in range(len(X.columns))}")]
        if not A2.eq(got_df, want_df) and not any(A2.eq(got_df, a_) for a_ in alt_df):
            bad.append(f"DataFrame input: lookup_ = {A2.show(got_df, 160)} (documented: column label -> position for every DataFrame)")
        got_arr = specialise(final, {is_df: False})
        arr_ok = any(s_.op == "comp" and s_.args[0] == "dict" and s_.args[1].op == "kv" and s_.args[1].args[0] is s_.args[1].args[1]
                     for s_ in subterms(got_arr))
        def _ident(s_):
            # dict(zip(r, r)) / dict((i, i) for i in r): the identity on r, like {i: i for i in r}
            if not (s_.op == "call" and s_.args[0] is glob("builtins.dict") and len(s_.args[1]) == 1):
                return False
            a_ = s_.args[1][0]
            if a_.op == "call" and a_.args[0] is glob("builtins.zip") and len(a_.args[1]) == 2:
                return a_.args[1][0] is a_.args[1][1] and a_.args[1][0].op == "call" and a_.args[1][0].args[0] is glob("builtins.range")
            return a_.op == "comp" and a_.args[1].op == "tuple" and len(a_.args[1].args[0]) == 2 and \
                a_.args[1].args[0][0] is a_.args[1].args[0][1]
        arr_ok = arr_ok or any(_ident(s_) for s_ in subterms(got_arr))

        def _enum_range(s_):
            # {label: position for position, label in enumerate(range(n))}: position == label for a range starting at 0
            if not (s_.op == "comp" and s_.args[0] == "dict" and s_.args[1].op == "kv" and len(s_.args[2]) == 1 and not s_.args[2][0][1]):
                return False
            it_ = s_.args[2][0][0]
            if not (it_.op == "call" and it_.args[0] is glob("builtins.enumerate") and len(it_.args[1]) == 1 and not it_.args[2]):
                return False
            rg = it_.args[1][0]
            if not (rg.op == "call" and rg.args[0] is glob("builtins.range") and len(rg.args[1]) == 1):
                return False
            el_ = mk("elem", it_)
            pair = {s_.args[1].args[0], s_.args[1].args[1]}
            return pair == {mk("sub", el_, const(0)), mk("sub", el_, const(1))}
        arr_ok = arr_ok or any(_enum_range(s_) for s_ in subterms(got_arr))
        if not arr_ok:
            bad.append(f"array input: lookup_ = {A2.show(got_arr, 120)} (documented: identity on column positions)")
    ctx.ob("R15.4", rl.func, None, not bad, "lookup_ maps each column label of a DataFrame to its position (identity for arrays)"
           if not bad else "; ".join(bad), construct="lookup_ definition")
    ctx.guard(_shared_c15, ctx)

def _shared_c15(ctx):
    """Life-cycle (history independence, pure prediction) and label-position clauses of the estimator(s) this property
    is about, shared with C19 R19.3/R19.4 and C12 R12.1 and reported under this property's rule ids."""
    from .c12 import label_sinks
    from .c19 import lifecycle_of
    ctx.rule("R15.5", "fit does not depend on state left by an earlier fit and prediction writes no state (shared with C19 R19.3 / R19.4)")
    lifecycle_of(ctx, [CLS], {"R19.3": "R15.5", "R19.4": "R15.5", "R19.8": "R15.5"})
