"""C02 - MetricFrame aggregates are the documented functions of by_group and overall.

Lemma (not checked on values, follows from R02.2/R02.3): with d_g = |v_g - s|, max_g d_g >= 0; min/max <= 1 for
non-negative entries; max_g |v_g - o| <= max - min <= 2 max_g |v_g - o| whenever min <= o <= max (true for weighted means).
"""
from __future__ import annotations

import ast

from ..region import Raised, Unmodelled, concrete, pc_holds, specialise
from ..terms import FALSE, NONE, TRUE, State, T, conj, const, const_value, contains, glob, mk, root_of, show, subterms
from .c17 import _select
from .common import M_DR, M_MF, Analysis, arg, calls_to, dominates, kw, pc_literals, stores_attr

DR = M_DR + ":DisaggregatedResult"
MF = M_MF + ":MetricFrame"
AG = DR + ".apply_grouping"
NP = {"np": glob("numpy"), "pd": glob("pandas")}
COERCE = "self.by_group.apply(lambda x: x.apply(lambda y: y if np.isscalar(y) else np.nan))"


def check(ctx):
    ctx.guard(r021, ctx)
    ctx.guard(r022_023, ctx)
    ctx.guard(r024, ctx)


def r021(ctx):
    ctx.rule("R02.1", "apply_grouping passes its grouping function unchanged to .agg on all four paths (control x errors), "
                      "grouped by the control levels when present; the group_min/group_max table maps to 'min'/'max'")
    ctx.rule("R02.5", "under errors='coerce' (and always inside difference) by_group is mapped cell-wise by: scalar -> "
                      "itself, non-scalar -> NaN; both error modes then apply the same aggregator")
    A = Analysis(ctx)
    r = A.run(AG, cls_ctx=DR)
    P = r.params
    gf, cf, er = P["grouping_function"], P["control_feature_names"], P["errors"]
    bad = []
    cells = 0
    mfc = A.entry(r, COERCE, NP)
    for cfv, cname in ((None, "no control"), (["c"], "control")):
        for erv in ("raise", "coerce"):
            env = {cf: cfv, er: erv, gf: "min"}
            cells += 1
            try:
                raised = any(e.kind == "raise" and e.func == AG and not any(l.op == "exc" for l in e.pc) and pc_holds(e.pc, env)
                             for e in r.events)
                got = specialise(r.ret, env)
            except (Unmodelled, Raised) as ex:
                ctx.ob("R02.1", AG, None, None, f"apply_grouping dispatch not modelled: {ex}", construct="apply_grouping cells")
                return
            base = mfc if erv == "coerce" else A.entry(r, "self.by_group")
            b = {"B": base, "gf": gf, "cf": cf}
            want = A.spec("B.agg(gf, axis=0)", b) if cfv is None else A.spec("B.groupby(level=cf).agg(gf)", b)
            alt = A.spec("B.agg(gf)", b) if cfv is None else want
            if raised or not (A.eq(got, want) or A.eq(got, alt)):
                bad.append(f"{cname}, errors={erv}: {A.show(got, 140)}")
    ctx.exhaustive_spaces.append(f"apply_grouping: {cells} cells of (control features, errors)")
    ctx.ob("R02.1", AG, None, not bad, "all four paths aggregate by_group (coerced cell-wise under 'coerce') with the given "
           "grouping function, per control level when controls exist" if not bad else "; ".join(bad[:2]),
           construct="apply_grouping cells")
    # argument validation uses the constant tables
    okv = any(e.kind == "raise" and A.C.canon(e.pc[-1]) is A.C.canon(A.entry(r, "grouping_function not in _VALID_GROUPING_FUNCTION"))
              for e in r.events if e.pc) and any(
        e.kind == "raise" and A.C.canon(e.pc[-1]) is A.C.canon(A.entry(r, "errors not in _VALID_ERROR_STRING")) for e in r.events if e.pc)
    ctx.ob("R02.1", AG, None, okv, "unknown grouping functions / error modes raise", construct="apply_grouping validation")
    # coerce map
    lam = None
    for s in subterms(mfc):
        if s.op == "lam" and s.args[1].op in ("ite",):
            lam = s
    okl = False
    if lam is not None:
        body = A.C.canon(lam.args[1])
        y = mk("bv", 0)
        want = A.C.canon(mk("ite", mk("call", glob("numpy.isscalar"), (y,), ()), y, glob("numpy.nan")))
        okl = body is want
    used = contains(r.ret, lambda s: s is mfc) if r.ret is not None else False
    ctx.ob("R02.5", AG, None, okl and used, "the coerce map is identity on scalar cells and NaN otherwise",
           construct="coerce map")
    # MetricFrame table + _group
    Am = Analysis(ctx, no_inline=[AG, MF + "._extract_result"], max_depth=2)
    rg = Am.run(MF + "._group", cls_ctx=MF)
    ag = calls_to(rg, AG) or [e for e in rg.events if e.kind == "call" and e.data["fterm"].op == "attr" and e.data["fterm"].args[1] == "apply_grouping"]
    ok = len(ag) == 1 and arg(ag[0], 0) is rg.params["grouping_function"] and Am.eq(arg(ag[0], 1), Am.entry(rg, "self.control_levels")) \
        and kw(ag[0], "errors") is rg.params["errors"]
    ex = calls_to(rg, MF + "._extract_result")
    ok = ok and len(ex) == 1 and arg(ex[0], 0) is ag[0].data["result"] and kw(ex[0], "no_control_levels") is FALSE and rg.ret is ex[0].data["result"]
    ctx.ob("R02.1", rg.func, None, ok, "_group = extract(apply_grouping(function, control levels, errors))", construct="_group wiring")


def r022_023(ctx):
    ctx.rule("R02.2", "difference: between_groups -> max_g |by_group - s| with s a group extreme from apply_grouping (min or "
                      "max: both equal max - min); to_overall -> max_g |by_group - overall|; per control level when control "
                      "features exist; any other method raises")
    ctx.rule("R02.3", "ratio: between_groups -> apply_grouping('min') / apply_grouping('max'); to_overall -> min_g f(by_group "
                      "/ overall) with f(x) = 1/x for x > 1 and x otherwise, per control level; any other method raises")
    A = Analysis(ctx, no_inline=[AG])
    for name in ("difference", "ratio"):
        fq = f"{DR}.{name}"
        r = A.run(fq, cls_ctx=DR)
        P = r.params
        cf, me, er = P["control_feature_names"], P["method"], P["errors"]
        mfc = A.entry(r, COERCE, NP)
        bad = []
        cells = 0
        # control_feature_names: None, a non-empty list, and the empty list (control features given with zero columns: one, empty,
        # control combination - grouped like a list, but nothing to un-stack at the end)
        for cfv in (None, ["c"], []):
            for mev in ("between_groups", "to_overall", "bogus"):
                for erv in ("raise", "coerce"):
                    env = {cf: cfv, me: mev, er: erv}
                    cells += 1
                    try:
                        raised = any(e.kind == "raise" and e.func == fq and pc_holds(e.pc, env) for e in r.events)
                        got = None if raised else specialise(r.ret, env)
                    except (Unmodelled, Raised) as ex:
                        ctx.ob("R02.2" if name == "difference" else "R02.3", fq, None, None, f"{name} dispatch not modelled: {ex}",
                               construct=f"{name} cells")
                        bad = None
                        break
                    if mev == "bogus":
                        if not raised:
                            bad.append(f"method={mev!r} is accepted")
                        continue
                    if raised:
                        bad.append(f"method={mev} errors={erv} control={cfv}: raises")
                        continue
                    b = {"mf": mfc, "cf": cf, "er": er, "S": A.entry(r, "self"), "ov": A.entry(r, "self.overall"),
                         "bg": A.entry(r, "self.by_group")}
                    if name == "difference":
                        subs = []
                        if mev == "between_groups":
                            subs = [A.entry(r, f"self.apply_grouping('{g}', control_feature_names, errors=errors)") for g in ("min", "max")]
                        else:
                            subs = [b["ov"]]
                        wants = []
                        for s_ in subs:
                            b["s"] = s_
                            wants.append(A.spec("(mf - s).abs().max()" if cfv is None else "(mf - s).abs().groupby(level=cf).max()", b))
                        if not any(A.eq(got, w) for w in wants):
                            bad.append(f"method={mev} errors={erv} control={cfv!r}: {A.show(got, 160)}")
                    else:
                        if mev == "between_groups":
                            want = A.entry(r, "self.apply_grouping('min', control_feature_names, errors=errors) / "
                                           "self.apply_grouping('max', control_feature_names, errors=errors)")
                            if not A.eq(got, want):
                                bad.append(f"between_groups errors={erv}: {A.show(got, 160)}")
                        else:
                            rso = [s for s in subterms(got) if s.op == "closure"]
                            if not rso:   # the fold as a module-level helper (summarised as a lambda) or written as a lambda
                                rso = [s for s in subterms(got) if s.op == "lam" and s.args[0] == 1 and s.args[1].op == "ite"
                                       and not contains(s.args[1], lambda z: z.op == "call" and z.args[0] is glob("numpy.isscalar"))]
                            if len(rso) != 1:
                                bad.append("to_overall: the fold function was not found")
                                continue
                            f = rso[0]
                            b["f"] = f
                            if cfv is None:
                                want = A.spec("(bg / ov).apply(lambda x: x.transform(f)).min()", b)
                            elif not cfv:
                                want = A.spec("(bg.unstack(level=cf) / ov.unstack(level=cf)).apply(lambda x: x.transform(f)).min()", b)
                            else:
                                want = A.spec("(bg.unstack(level=cf) / ov.unstack(level=cf)).apply(lambda x: x.transform(f)).min().unstack(0)", b)
                            if not A.eq(got, want):
                                bad.append(f"to_overall control={cfv!r}: {A.show(got, 200)}")
                            # the fold itself
                            x = mk("param", "spec", "x")
                            if f.op == "lam":
                                from ..terms import substitute
                                fv = substitute(f.args[1], {mk("bv", 0): x})
                            else:
                                fv = A.ev.call_term(f, [x], State({}, {}, ()), M_DR)
                            wf = mk("ite", A.spec("x > 1", {"x": x}), A.spec("1 / x", {"x": x}), x)
                            if not A.eq(fv, wf):
                                bad.append(f"fold f(x) = {A.show(fv, 100)} (documented 1/x for x > 1, x otherwise)")
                if bad is None:
                    break
            if bad is None:
                break
        if bad is None:
            continue
        ctx.exhaustive_spaces.append(f"DisaggregatedResult.{name}: {cells} cells of (control, method, errors)")
        rule = "R02.2" if name == "difference" else "R02.3"
        ctx.ob(rule, fq, None, not bad, f"{name} equals the documented aggregate on all {cells} cells" if not bad else
               "; ".join(sorted(set(bad))[:3]), construct=f"{name} cells")


def _subscript_keys(A, e):
    """Keys of a nested subscript store target, outermost container first."""
    node = e.data.get("target_node")
    keys = []
    while isinstance(node, ast.Subscript):
        keys.append(node.slice)
        node = node.value
    keys.reverse()
    return node, [A.at(e, ast.unparse(k)) for k in keys]


def r024(ctx):
    ctx.rule("R02.4", "the cache entry [kind][method][errors] is computed by the DisaggregatedResult method named kind with "
                      "method= and errors= the same loop variables, and difference()/ratio()/group_min()/group_max() read "
                      "exactly those keys after validating against the same constant lists")
    A = Analysis(ctx, no_inline=[MF + "._extract_result", MF + "._none_to_nan", MF + "._group", DR + ".difference", DR + ".ratio", AG],
                 max_depth=2)
    r = A.run(MF + "._populate_results", cls_ctx=MF)
    fq = r.func
    raw = r.params["raw_result"]
    st = [e for e in r.events if e.kind == "store" and e.data.get("tkind") == "sub" and e.func == fq]
    # triple-keyed stores
    n3 = n2 = 0
    for e in st:
        base, keys = _subscript_keys(A, e)
        if not (isinstance(base, ast.Attribute) and base.attr == "_result_cache"):
            continue
        v = e.data["value"]
        if v.op in ("call",) and v.args[0] is glob("builtins.dict"):
            continue
        if v.op == "exception":
            continue
        if len(keys) == 3:
            n3 += 1
            kind, meth, err = keys
            ok = True
            cv = v
            ex = [s for s in subterms(cv) if s.op == "call" and s.args[0].op == "attr" and s.args[0].args[0] is raw
                  and s.args[0].args[1] in ("difference", "ratio")]
            which = {s.args[0].args[1]: s for s in ex}
            ok = set(which) == {"difference", "ratio"}
            if ok:
                for nm, s in which.items():
                    ok = ok and dict(s.args[2]).get("method") is meth and dict(s.args[2]).get("errors") is err \
                        and len(s.args[1]) == 1 and A.eq(s.args[1][0], A.at(e, "self.control_levels"))
                sel = [s for s in subterms(cv) if s.op == "ite" and {s.args[1], s.args[2]} == set(which.values())]
                ok = ok and len(sel) == 1
                if ok:
                    c = sel[0]
                    is_diff = A.C.canon(mk("cmp", "==", kind, const("difference")))
                    is_ratio = A.C.canon(mk("cmp", "==", kind, const("ratio")))
                    cc = A.C.canon(c.args[0])
                    ok = (cc is is_diff and c.args[1] is which["difference"]) or (cc is is_ratio and c.args[1] is which["ratio"])
                    ok = ok and kind.op == "elem" and A.eq(kind.args[0], mk("list", (const("difference"), const("ratio"))))
                    ok = ok and meth.op == "elem" and err.op == "elem" and A.eq(meth.args[0], A.at(e, "_COMPARE_METHODS")) \
                        and A.eq(err.args[0], A.at(e, "_VALID_ERROR_STRING"))
                    # the stored value is extract(none_to_nan(<that>))
                    ok = ok and cv.op == "call" and cv.args[0].op == "boundmethod" and cv.args[0].args[1] == MF + "._extract_result" \
                        and cv.args[1][0].op == "call" and cv.args[1][0].args[0].op == "boundmethod" \
                        and cv.args[1][0].args[0].args[1] == MF + "._none_to_nan" and cv.args[1][0].args[1][0] is c
            ctx.ob("R02.4", fq, e.node, ok, "cache[kind][method][errors] = extract(none_to_nan(raw.<kind>(control levels, "
                   "method=method, errors=errors))) for kind in (difference, ratio), all methods and error modes",
                   construct="difference/ratio cache writer")
            exr = [s for s in subterms(cv) if s.op == "call" and s.args[0].op == "boundmethod" and s.args[0].args[1] == MF + "._extract_result"]
            okx = bool(exr) and all(dict(s.args[2]).get("no_control_levels") is FALSE for s in exr)
            ctx.ob("R02.4", fq, e.node, okx, "aggregates are unwrapped with no_control_levels=False", construct="aggregate extract flag")
        elif len(keys) == 2:
            n2 += 1
            kind, err = keys
            okg = v.op == "call" and v.args[0].op == "boundmethod" and v.args[0].args[1] == MF + "._group" \
                and v.args[1][0] is raw and v.args[1][2] is err
            fn = v.args[1][1] if okg else None
            # (kind, fn) iterate over the items of the constant table {"group_min": "min", "group_max": "max"}
            okt = False
            if okg and kind.op == "sub" and fn.op == "sub" and kind.args[0] is fn.args[0] and kind.args[1] is const(0) and fn.args[1] is const(1):
                it = kind.args[0].args[0]
                if it.op == "call" and it.args[0].op == "attr" and it.args[0].args[1] == "items":
                    tbl = it.args[0].args[0]
                    okt = tbl.op == "dict" and {(const_value(k), const_value(v_)) for k, v_ in tbl.args[0]} == {("group_min", "min"), ("group_max", "max")}
            ctx.ob("R02.4", fq, e.node, okg and okt, "cache[group_min|group_max][errors] = _group(raw, 'min'|'max', errors)",
                   construct="group_min/group_max cache writer")
    ctx.floor("R02.4", "three-key cache writers", n3, 1)
    ctx.floor("R02.4", "two-key cache writers", n2, 1)
    # overall / by_group
    for key, attr, flag in (("overall", "overall", FALSE), ("by_group", "by_group", TRUE)):
        es = [e for e in st if e.data["key"] is const(key)]
        ok = len(es) == 1
        if ok:
            v = es[0].data["value"]
            ok = v.op == "call" and v.args[0].op == "boundmethod" and v.args[0].args[1] == MF + "._extract_result" \
                and A.eq(v.args[1][0], A.at(es[0], f"raw_result.{attr}")) and dict(v.args[2]).get("no_control_levels") is flag
        ctx.ob("R02.4", fq, es[0].node if es else None, ok, f"cache['{key}'] = extract(raw.{attr}, no_control_levels={const_value(flag)})",
               construct=f"{key} cache writer")
    # readers
    A2 = Analysis(ctx)
    for m, keys in (("difference", ("difference", "method", "errors")), ("ratio", ("ratio", "method", "errors")),
                    ("group_min", ("group_min", "errors")), ("group_max", ("group_max", "errors"))):
        rr = A2.run(f"{MF}.{m}", cls_ctx=MF)
        src = "self._result_cache" + "".join(f"[{k!r}]" if i == 0 else f"[{k}]" for i, k in enumerate(keys))
        want = A2.entry(rr, src)
        rets = [e for e in rr.events if e.kind == "return" and e.func == rr.func]
        ok = len(rets) == 1 and rets[0].data["value"] is want
        conds = [A2.C.canon(e.pc[-1]) for e in rr.events if e.kind == "raise" and e.pc]
        need = [A2.C.canon(A2.entry(rr, "errors not in _VALID_ERROR_STRING"))]
        if "method" in keys:
            need.append(A2.C.canon(A2.entry(rr, "method not in _COMPARE_METHODS")))
        ok = ok and all(n in conds for n in need)
        ctx.ob("R02.4", rr.func, rets[0].node if rets else None, ok, f"{m}() validates its arguments against the writer's "
               f"constant lists and returns cache{list(keys)}", construct=f"{m} reader")
    for prop, key in (("overall", "overall"), ("by_group", "by_group")):
        rr = A2.run(f"{MF}.{prop}", cls_ctx=MF)
        ok = rr.ret is A2.entry(rr, f"self._result_cache['{key}']")
        ctx.ob("R02.4", rr.func, None, ok, f"{prop} returns cache['{key}']", construct=f"{prop} reader")
    rn = A2.run(MF + "._none_to_nan", cls_ctx=MF)
    tgt = rn.params["target"]
    want_n = A2.spec("t.where(t.notna(), np.nan)", {"t": tgt, **NP})
    alt_n = A2.spec("t.where(t.notnull(), np.nan)", {"t": tgt, **NP})
    ctx.ob("R02.4", rn.func, None, A2.eq(rn.ret, want_n) or A2.eq(rn.ret, alt_n) or A2.eq(rn.ret, A2.spec("t.fillna(np.nan)", {"t": tgt, **NP})),
           "_none_to_nan keeps every non-null entry and turns None into NaN", construct="_none_to_nan")
    r024_extract(ctx)


def r024_extract(ctx, rule="R02.4"):
    """_extract_result, exhaustive over its 8 cells; shared with C01 (R01.4): by_group / overall of a bare callable metric are
    the single column / cell selected by position, never a shape-dependent squeeze."""
    A2 = Analysis(ctx)
    # _extract_result: callable metrics are unwrapped
    rx = A2.run(MF + "._extract_result", cls_ctx=MF)
    u = rx.params["underlying_result"]
    usc = A2.entry(rx, "self._user_supplied_callable")
    cl = A2.entry(rx, "self.control_levels")
    ncl = rx.params["no_control_levels"]
    bad = []
    for uv in (True, False):
        for cv in (None, ["c"]):
            for nv in (True, False):
                try:
                    got = specialise(rx.ret, {usc: uv, cl: cv, ncl: nv})
                except (Unmodelled, Raised) as ex:
                    bad.append(f"not modelled: {ex}")
                    continue
                if not uv:
                    want = u
                elif cv or nv:
                    want = A2.entry(rx, "underlying_result.iloc[:, 0]")
                else:
                    want = A2.entry(rx, "underlying_result.iloc[0]")
                if not A2.eq(got, want):
                    bad.append(f"callable={uv} control={cv} no_control_levels={nv}: {A2.show(got, 80)}")
    ctx.exhaustive_spaces.append("_extract_result: 8 cells of (callable metric, control levels, no_control_levels)")
    ctx.ob(rule, rx.func, None, not bad, "_extract_result unwraps the single column (or cell) for a bare callable and is the "
           "identity for dict metrics" if not bad else "; ".join(bad[:3]), construct="_extract_result")
