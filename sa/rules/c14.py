"""C14 - base rate metrics (sibling agreement, label ordering, scalar results, formulas)."""
from __future__ import annotations

import types

from ..region import Raised, Unmodelled, concrete, pc_holds
from ..shape import Arr, NoneV, Scalar, ShapeEval, Top
from ..terms import NONE, T, const, const_value, contains, glob, mk, show, subterms
from .common import M_BM, M_IM, Analysis, arg, calls_to, kw

RATES = {"true_negative_rate": 0, "false_positive_rate": 1, "false_negative_rate": 2, "true_positive_rate": 3}
HELPER = M_BM + ":_get_labels_for_confusion_matrix"
CM = "sklearn.metrics.confusion_matrix"
INT64_MIN = -(2 ** 63)


def check(ctx):
    ctx.guard(r141_siblings, ctx)
    ctx.guard(r142_labels, ctx)
    ctx.guard(r144_scalar, ctx)
    ctx.guard(r145_formulas, ctx)
    ctx.guard(r146_pure, ctx)


def r141_siblings(ctx, rule="R14.1"):
    ctx.rule(rule, "the four rate functions agree: labels from the label helper applied to vstack((y_true, y_pred)) and "
                   "pos_label, confusion_matrix(y_true, y_pred, sample_weight=sample_weight, labels=<those>, "
                   "normalize='true').ravel(), and the k-th entry fixed by the function's role (tnr 0, fpr 1, fnr 2, tpr 3)")
    A = Analysis(ctx, no_inline=[HELPER])
    n = 0
    # sibling agreement on the interface: one signature for the four rates (a caller that passes sample_weight or pos_label by
    # position gets the same binding from each of them)
    import ast as _ast
    sigs = {}
    for name in RATES:
        a_ = ctx.prog.functions[f"{M_BM}:{name}"].node.args
        sigs[name] = (tuple(x.arg for x in a_.posonlyargs), tuple(x.arg for x in a_.args), tuple(x.arg for x in a_.kwonlyargs),
                      tuple(_ast.dump(d) for d in a_.defaults), tuple(_ast.dump(d) if d is not None else None for d in a_.kw_defaults))
    from collections import Counter
    major, _cnt = Counter(sigs.values()).most_common(1)[0]
    for name, sg in sigs.items():
        okg = sg == major and _cnt >= 3
        ctx.ob(rule, f"{M_BM}:{name}", None, okg, f"{name} has the signature shared by the rate functions {major[1] + major[2]}" if okg else
               f"{name}{sg[1] + sg[2]} deviates from the signature of its siblings {major[1] + major[2]}: positional callers bind "
               "sample_weight / pos_label differently", construct=f"{name}: signature")
    for name, k in RATES.items():
        fq = f"{M_BM}:{name}"
        r = A.run(fq)
        P = r.params
        h = calls_to(r, HELPER)
        cm = calls_to(r, CM)
        if len(h) != 1 or len(cm) != 1:
            ctx.ob(rule, fq, None, None, f"expected one label-helper call and one confusion_matrix call (found {len(h)}, "
                   f"{len(cm)})", construct=f"{name} structure")
            continue
        n += 1
        h, cm = h[0], cm[0]
        stacked = arg(h, 0, "labels")
        ok = stacked.op == "call" and stacked.args[0] is glob("numpy.vstack") and stacked.args[1] \
            and stacked.args[1][0].op in ("tuple", "list") and set(stacked.args[1][0].args[0]) == {P["y_true"], P["y_pred"]} \
            and arg(h, 1, "pos_label") is P["pos_label"]
        ctx.ob(rule, fq, h.node, ok, "the label list is computed from both y_true and y_pred and the caller's pos_label",
               construct=f"{name}: label helper call")
        ok = (arg(cm, 0, "y_true") is P["y_true"] and arg(cm, 1, "y_pred") is P["y_pred"]
              and kw(cm, "sample_weight") is P["sample_weight"] and kw(cm, "labels") is h.data["result"]
              and kw(cm, "normalize") is const("true"))
        ctx.ob(rule, fq, cm.node, ok, "confusion_matrix receives y_true, y_pred, the caller's sample_weight, the helper's "
               "labels and normalize='true'", construct=f"{name}: confusion_matrix call")
        rav = mk("call", mk("attr", cm.data["result"], "ravel"), (), ())
        alt = mk("call", mk("attr", cm.data["result"], "flatten"), (), ())
        want = [mk("sub", rav, const(k)), mk("sub", alt, const(k)),
                mk("sub", cm.data["result"], mk("tuple", (const(k // 2), const(k % 2))))]
        ok = any(r.ret is w for w in want)
        ctx.ob(rule, fq, None, ok, f"{name} returns entry {k} of the row-normalised matrix (tnr, fpr, fnr, tpr order)" if ok
               else f"{name} returns {show(r.ret, maxdepth=3)[:90]}, expected entry {k} of the ravelled matrix",
               construct=f"{name}: selected entry")
    ctx.floor(rule, "rate functions with the helper + confusion_matrix structure", n, 4)


def _reference_labels(uniq, pos):
    """Documented behaviour of the label helper (positive label last, two elements)."""
    uniq = list(uniq)
    if pos is None:
        if set(uniq) <= {0, 1} or set(uniq) <= {-1, 1}:
            pos = 1
        else:
            return "raise"
    if len(uniq) == 1:
        if uniq[0] == pos:
            return [INT64_MIN, pos]
        return [uniq[0], pos]
    if len(uniq) == 2:
        if pos == uniq[0]:
            return [uniq[1], uniq[0]]
        if pos == uniq[1]:
            return uniq
        return "raise"
    return "raise"


def r142_labels(ctx, rule="R14.2"):
    ctx.rule(rule, "on every non-raising path the label helper returns two labels with the positive label last; the "
                   "default pos_label is 1 exactly when the labels are a subset of {0,1} or {-1,1} (else it raises); "
                   "more than two labels, or a pos_label that is not among two labels, raise (exhaustive over cells)")
    A = Analysis(ctx)
    r = A.run(HELPER)
    P = r.params
    uniq_t = None
    for e in r.events:
        if e.kind == "call" and e.data.get("callee") == "builtins.list" and e.data["args"] \
                and contains(e.data["args"][0], lambda s: s.op == "call" and s.args[0] is glob("numpy.unique")):
            uniq_t = e.data["result"]
            ok = e.data["args"][0].args[1] and e.data["args"][0].args[1][0] is P["labels"]
            ctx.ob(rule, HELPER, e.node, bool(ok), "unique labels are taken from the labels argument", construct="np.unique(labels)")
            break
    ctx.require(uniq_t is not None, "anchor vanished: list(np.unique(labels)) in the label helper")
    funcs = {"numpy.iinfo": lambda t: types.SimpleNamespace(min=INT64_MIN, max=2 ** 63 - 1), "numpy.int64": int}
    cells = []
    for uniq in ([0], [1], [-1], [5], ["a"], [0, 1], [-1, 1], [0, 5], [2, 5], ["a", "b"], [-1, 0], [0, 1, 2], [-1, 0, 1]):
        for pos in (None, 0, 1, -1, 5, 2, "a", "b", "z"):
            if pos is not None and isinstance(pos, str) != isinstance(uniq[0], str):
                continue
            cells.append((uniq, pos))
    bad = []
    for uniq, pos in cells:
        env = {uniq_t: list(uniq), P["pos_label"]: pos}
        try:
            raised = any(e.kind == "raise" and pc_holds(e.pc, env, funcs) for e in r.events)
            got = "raise" if raised else list(concrete(r.ret, env, funcs))
        except Raised:
            got = "raise"
        except Unmodelled as ex:
            ctx.ob(rule, HELPER, None, None, f"label helper not modelled: {ex}", construct="label helper cells")
            return
        want = _reference_labels(uniq, pos)
        if got != want:
            bad.append(f"unique={uniq} pos_label={pos!r}: {got}, documented {want}")
    ctx.exhaustive_spaces.append(f"label helper: {len(cells)} cells of (unique labels, pos_label)")
    ctx.ob(rule, HELPER, None, not bad, f"label helper agrees with the documented ordering on all {len(cells)} cells" if not bad
           else "; ".join(bad[:3]), construct="label helper cells")


def _classes():
    n1, nm = ("n", "one"), ("n", "many")
    out = []
    for nm_, e in (("length 1", n1), ("length >= 2", nm)):
        out.append((f"1-d, {nm_}", Arr([e])))
        out.append((f"column vector, {nm_}", Arr([e, ("1", "one")])))
    return out


def r144_scalar(ctx, rule="R14.4"):
    ctx.rule(rule, "every base metric returns a scalar for every admissible input class (length 1 / >= 2; 1-d / column "
                   "vector; weights absent / present with the same layout) - in particular for a single weighted row")
    A = Analysis(ctx, no_inline=[HELPER])
    metrics = list(RATES) + ["selection_rate", "mean_prediction", "count"]
    n = 0
    for name in metrics:
        fq = f"{M_BM}:{name}"
        r = A.run(fq)
        P = r.params
        bad = []
        ncls = 0
        for cname, shp in _classes():
            for wname, w in (("no weights", NoneV()), ("weights", shp)):
                if "sample_weight" not in P and wname == "weights":
                    continue
                env = {P["y_true"]: shp, P["y_pred"]: shp}
                if "sample_weight" in P:
                    env[P["sample_weight"]] = w
                if "pos_label" in P:
                    env[P["pos_label"]] = Scalar()
                se = ShapeEval(env)
                res = se.ev(r.ret)
                ncls += 1
                if isinstance(res, Top):
                    ctx.ob(rule, fq, None, None, f"{name}: shape of the result not modelled ({res.why}) for {cname}, {wname}",
                           construct=f"{name} result shape")
                    bad = None
                    break
                if not isinstance(res, (Scalar,)) and not (res.__class__.__name__ == "Num"):
                    bad.append(f"{cname}, {wname}: returns {res}")
            if bad is None:
                break
        if bad is None:
            continue
        n += 1
        ctx.ob(rule, fq, None, not bad, f"{name} returns a scalar in all {ncls} input classes" if not bad else
               f"{name} does not return a scalar: " + "; ".join(bad[:3]) + " (MetricFrame then treats the group value as "
               "non-scalar: difference()/ratio() of fairness metrics are wrong for single-row groups)",
               construct=f"{name} returns scalar")
    ctx.floor(rule, "base metrics with a modelled result shape", n, 7)
    ctx.exhaustive_spaces.append("input classes: {1-d, column} x {length 1, length >= 2} x {weights absent, present}")


def r145_formulas(ctx, rule="R14.5"):
    ctx.rule(rule, "selection_rate = dot(1[y_pred == pos_label], w) / sum(w); mean_prediction = dot(y_pred, w) / sum(w); "
                   "w = ones(len) when no weights are given, else the given weights; count = len(y_true); pos_label "
                   "defaults to 1")
    A = Analysis(ctx, no_inline=[M_IM + ":_convert_to_ndarray_and_squeeze"])
    np_ = {"np": glob("numpy")}
    for name, vsrc in (("selection_rate", "(np.asarray(y_pred) == pos_label)"), ("mean_prediction", "np.asarray(y_pred)")):
        fq = f"{M_BM}:{name}"
        r = A.run(fq)
        P = r.params
        v = A.entry(r, vsrc, np_)
        b = dict(np_)
        b["v"] = v
        w_def = A.entry(r, "np.ones(len(v))", b)
        w_giv = A.entry(r, "np.asarray(sample_weight)", np_)
        specs = []
        for w in (mk("ite", mk("cmp", "is not", P["sample_weight"], NONE), w_giv, w_def),):
            b2 = dict(b)
            b2["w"] = w
            for s in ("np.dot(v, w) / w.sum()", "np.dot(v, w) / np.sum(w)", "np.dot(w, v) / w.sum()", "(v * w).sum() / w.sum()"):
                specs.append(A.entry(r, s, b2))
        A.formula(rule, fq, None, r.ret, specs, f"{name} = weighted mean", construct=f"{name} formula")
        if name == "selection_rate":
            fi = ctx.prog.functions[fq]
            d = dict(zip([a.arg for a in fi.node.args.kwonlyargs], fi.node.args.kw_defaults))
            dv = d.get("pos_label")
            ok = dv is not None and getattr(dv, "value", None) == 1
            ctx.ob(rule, fq, None, ok, "pos_label defaults to 1", construct="selection_rate default pos_label")
            # empty prediction guard
            raises = [e for e in r.events if e.kind == "raise" and e.func == fq]
            ok = any(A.C.canon(e.pc[-1]) is A.C.canon(A.entry(r, "len(v) == 0", b)) for e in raises if e.pc)
            ctx.ob(rule, fq, raises[0].node if raises else None, ok, "empty predictions are rejected", construct="selection_rate empty guard")
    r = A.run(f"{M_BM}:count")
    ok = r.ret is mk("call", glob("builtins.len"), (r.params["y_true"],), ())
    ctx.ob(rule, r.func, None, ok, "count = len(y_true)", construct="count formula")


def r146_pure(ctx, rule="R14.6"):
    ctx.rule(rule, "the base metrics do not update their inputs in place (np.asarray / squeeze of an ndarray argument is the caller's "
                   "own buffer: `w *= mask`, `w[idx] = 0` would change the weights / labels the caller passes to the next metric)")
    from .common import inplace_updates_of_foreign_values
    A = Analysis(ctx)
    n = 0
    for name in list(RATES) + ["selection_rate", "mean_prediction", "count"]:
        fq = f"{M_BM}:{name}"
        r = A.run(fq)
        n += 1
        params = set(r.params.values())
        hits = inplace_updates_of_foreign_values(r, lambda x, params=params: x in params, ctx.prog)
        ok = not hits
        ctx.ob(rule, fq, hits[0][0].node if hits else None, ok, f"{name} leaves its arguments untouched" if ok else
               f"{name} applies an in-place {hits[0][1]} to an array that can be the caller's own buffer: the next metric evaluated "
               "with the same weights / labels sees the modified values", construct=f"{name} does not modify its inputs")
    ctx.floor(rule, "base metrics", n, 7)
