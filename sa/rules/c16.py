"""C16 - adversarial projected-gradient update (formula, contraction signature, routing, order, sibling agreement)."""
from __future__ import annotations

import ast

from ..contraction import signature
from ..terms import NONE, T, const, const_value, contains, glob, mk, root_of, show, subterms
from .common import M_PT, M_TF, Analysis, arg, calls_to, dominates, kw

ENGINES = [(M_PT, "PytorchEngine", "torch"), (M_TF, "TensorflowEngine", "tensorflow")]


def check(ctx):
    ctx.rule("R16.1", "unit = dW_LA / (norm(dW_LA) + tiny)")
    ctx.rule("R16.2", "proj is the Frobenius inner product of unit and dW_LP for every tensor rank (rank 1 and rank 2 "
                      "contraction signatures)")
    ctx.rule("R16.3", "update = dW_LP - proj * unit - alpha * dW_LA")
    ctx.rule("R16.4", "the update is what the predictor's optimiser consumes for the parameter it was computed from; the "
                      "adversary's optimiser consumes the unmodified gradient of LA w.r.t. the adversary's parameters")
    ctx.rule("R16.5", "PyTorch event order: zero_grad -> LP.backward -> copy grads -> zero_grad -> LA.backward -> copy "
                      "grads -> assign -> both optimiser steps")
    ctx.rule("R16.6", "the adversary sees concat(Y_hat, Y) exactly when pass_y_ is set (equalized odds)")
    ctx.rule("R16.7", "the two back ends agree on the update rule")
    ctx.guard(_pass_y_table, ctx)
    # the pass_y_ table and alpha are read from the estimator's configuration: the public classes must hand their `constraints`,
    # `alpha` ... to the base class unchanged (shared with C19 R19.8)
    ctx.rule("R16.8", "the adversarial estimators store every constructor argument under its own name (the subclasses forward all of "
                      "them to the base class), so the constraint and alpha the caller chose are the ones the update uses")
    from .c19 import _ctor_verbatim
    from .common import M_ADV
    adv = [M_ADV + ":_AdversarialFairness", M_ADV + ":AdversarialFairnessClassifier", M_ADV + ":AdversarialFairnessRegressor"]
    ctx.aliased({"R19.8": "R16.8"}, _ctor_verbatim, ctx, adv, adv, 3)
    sig_by_engine = {}
    reported = set()   # engines whose update was found and reported as deviating: decided, though without a contraction signature
    for mod, cls, lib in ENGINES:
        A = Analysis(ctx)
        fq = f"{mod}:{cls}.train_step"
        r = A.run(fq, cls_ctx=f"{mod}:{cls}")
        if lib == "torch":
            _torch_snapshots(ctx, A, r, cls)
        upd = _find_update(ctx, A, r, lib)
        if upd is None:
            continue
        e, update, gP, gA = upd
        b = {"gP": gP, "gA": gA, "alpha": A.at(e, "self.base.alpha"), "norm": glob(f"{lib}.norm"),
             "tiny": _tiny(A, r, update)}
        if b["tiny"] is None:
            ctx.ob("R16.1", fq, e.node, False, "no machine-epsilon guard (finfo(...).tiny) in the normalisation",
                   construct=f"{cls}: unit formula")
            reported.add(cls)
            continue
        # the guard must be representable in the tensors' precision (both engines work in float32): a float64 `tiny`
        # (2.2e-308) added to a float32 norm rounds to 0, so a zero adversary gradient gives 0/0 = NaN weights
        targ = b["tiny"].args[0].args[1][0] if b["tiny"].args[0].args[1] else None
        ok32 = targ is not None and ((targ.op == "global" and targ.args[0] in ("torch.float32", "numpy.float32", "torch.float", "tensorflow.float32"))
                                     or (targ.op == "const" and const_value(targ) == "float32"))
        ctx.ob("R16.1", fq, e.node, ok32, "the epsilon guard is the smallest normal float32 number, so unit = 0 when dW_LA = 0" if ok32 else
               f"the epsilon guard is finfo({show(targ, maxdepth=2) if targ is not None else '?'}).tiny (float64, 2.2e-308), which underflows to "
               "0 in the engine's float32 arithmetic: when dW_LA is exactly zero (e.g. dead ReLU units in the adversary) unit = "
               "0/0 = NaN and every predictor weight becomes NaN", construct=f"{cls}: epsilon guard precision")
        U = A.spec("gA / (norm(gA) + tiny)", b)
        b["U"] = U
        cU, cgP = A.C.canon(U), A.C.canon(gP)
        # solve update = gP - P*U - alpha*gA for P
        ru = A.C._as_rat(A.C.canon(update))
        rest = A.C._as_rat(cgP) - A.C._as_rat(A.C.canon(A.spec("alpha * gA", b))) - ru
        P = rest / A.C._as_rat(cU)
        patom = P.solve_atom()
        ok_form = patom is not None and not any(x is cgP for x in []) 
        if patom is None:
            ctx.ob("R16.3", fq, e.node, False, f"update is not dW_LP - proj*unit - alpha*dW_LA with unit = dW_LA/(|dW_LA| + tiny): "
                   f"{A.show(update, 300)}", construct=f"{cls}: update formula")
            reported.add(cls)
            continue
        ctx.ob("R16.1", fq, e.node, True, "unit = dW_LA / (norm(dW_LA) + tiny) (as a factor of the update)", construct=f"{cls}: unit formula")
        ctx.ob("R16.3", fq, e.node, True, "update = dW_LP - proj*unit - alpha*dW_LA for a scalar proj", construct=f"{cls}: update formula")
        # R16.2 contraction signature of proj
        bad = []
        sigs = []
        for rank in (1, 2):
            s = signature(patom, cU, cgP, rank)
            if s is None:
                known_op = patom.op == "fn" and patom.args[0] in ("sum", "dot", "inner", "matmul", "vdot")
                ctx.ob("R16.2", fq, e.node, False if known_op else None,
                       (f"proj = {A.show(patom, 160)} is not a contraction of unit and dW_LP" if known_op else
                        f"contraction in proj = {A.show(patom, 160)} is not modelled"),
                       construct=f"{cls}: projection contraction")
                bad = None
                if known_op:
                    reported.add(cls)
                break
            sigs.append(s)
            if not s.is_frobenius(rank):
                bad.append(f"rank {rank}: {s.describe(rank)}")
        if bad is None:
            continue
        sig_by_engine[cls] = [s.is_frobenius(k + 1) for k, s in enumerate(sigs)]
        ctx.ob("R16.2", fq, e.node, not bad, "proj = sum(unit * dW_LP): every axis is paired (Frobenius) for vectors and "
               "matrices" if not bad else "proj is not the Frobenius inner product: " + "; ".join(bad) +
               " - rows of a weight matrix are cross-multiplied, so update + alpha*dW_LA is not orthogonal to dW_LA",
               construct=f"{cls}: projection contraction")
        _routing(ctx, A, r, e, lib, cls, gP, gA)
        _adversary_input(ctx, A, r, lib, cls)
    if len(sig_by_engine) == 2:
        vals = list(sig_by_engine.values())
        ctx.ob("R16.7", f"{M_PT}:PytorchEngine.train_step", None, vals[0] == vals[1], "both back ends use the same "
               "contraction for the projection" if vals[0] == vals[1] else f"back ends disagree: {sig_by_engine}",
               construct="sibling contraction agreement")
    ctx.floor("R16.7", "back-end train_steps with a recognised update", len(set(sig_by_engine) | reported), 2)


def _pass_y_table(ctx):
    """pass_y_ (read by both engines) is False for demographic_parity, True for equalized_odds, nothing else is accepted."""
    from ..region import Raised, Unmodelled, pc_holds, specialise
    from .common import M_ADV
    CLS = M_ADV + ":_AdversarialFairness"
    A = Analysis(ctx, max_depth=1, inline=lambda f_, d_: False)
    r = A.run(CLS + ".__setup", cls_ctx=CLS)
    fq = r.func
    cons = mk("attr", r.self_term, "constraints")
    st = [e for e in r.events if e.kind == "store" and e.data.get("tkind") == "attr" and e.data["attr"] == "pass_y_" and e.func == fq]
    bad = []
    for val, want in (("demographic_parity", False), ("equalized_odds", True), ("bogus", None)):
        env = {cons: val}
        try:
            live = [e for e in st if pc_holds([l for l in e.pc if contains(l, lambda s_: s_ is cons)], env)]
            raised = any(e.kind == "raise" and e.func == fq and [l for l in e.pc if contains(l, lambda s_: s_ is cons)]
                         and pc_holds([l for l in e.pc if contains(l, lambda s_: s_ is cons)], env) for e in r.events)
        except (Unmodelled, Raised) as ex:
            bad.append(f"not modelled: {ex}")
            break
        if want is None:
            if not raised or live:
                bad.append("an unknown constraints value is accepted")
            continue
        got = [const_value(e.data["value"]) if e.data["value"].op == "const" else "?" for e in live]
        if got != [want] or raised:
            bad.append(f"constraints={val!r} -> pass_y_ {got if not raised else 'raises'} (documented {want})")
    ctx.exhaustive_spaces.append("_AdversarialFairness.__setup: constraints in (demographic_parity, equalized_odds, other)")
    ctx.ob("R16.6", fq, st[0].node if st else None, not bad and bool(st), "pass_y_ is False for demographic_parity, True for "
           "equalized_odds, and any other constraints value is refused" if not bad and st else "; ".join(bad[:2]) or "pass_y_ is never set",
           construct="pass_y_ table")


INPLACE_TENSOR = ("mul_", "add_", "sub_", "div_", "copy_", "zero_", "fill_", "addcmul_", "addcdiv_", "neg_", "clamp_")


def unlist(t):
    """list(model.parameters()) holds the same parameter objects in the same order"""
    while t.op == "call" and t.args[0].op == "global" and t.args[0].args[0] in ("builtins.list", "builtins.tuple") and len(t.args[1]) == 1 \
            and not t.args[2]:
        t = t.args[1][0]
    return t


def _torch_snapshots(ctx, A, r, cls):
    """The gradients of the two backward passes are *copied* out of .grad (zero_grad / the next backward reuse the buffers),
    and the parameters' .grad buffers are not edited in place while a snapshot may still alias them."""
    fq = r.func
    params = A.entry(r, "self.predictor_model.parameters()")
    snaps = [e for e in r.events if e.kind == "store" and e.data.get("tkind") == "name" and e.func == fq and not e.loops
             and e.data["value"].op == "comp" and len(e.data["value"].args[2]) == 1 and unlist(e.data["value"].args[2][0][0]) is params]

    def cloned(body):
        return contains(body, lambda s_: s_.op == "call" and ((s_.args[0].op == "global" and s_.args[0].args[0] in ("torch.clone", "copy.deepcopy"))
                                                              or (s_.args[0].op == "attr" and s_.args[0].args[1] == "clone")))
    bad = [e for e in snaps if contains(e.data["value"].args[1], lambda s_: s_.op in ("attr", "vattr") and s_.args[1] == "grad") and not cloned(e.data["value"].args[1])]
    ok = len(snaps) >= 2 and not bad
    ctx.ob("R16.5", fq, bad[0].node if bad else (snaps[0].node if snaps else None), ok,
           f"both gradient snapshots ({len(snaps)}) are clones of the .grad buffers" if ok else
           "a gradient snapshot keeps the .grad buffers themselves (no clone): zero_grad / the next backward / an in-place update "
           "change the snapshot, so the update is no longer dW_LP - proj*unit - alpha*dW_LA", construct=f"{cls}: gradient snapshots are copies")
    inpl = [e for e in r.events if e.kind == "call" and e.func == fq and e.data["fterm"].op == "attr" and e.data["fterm"].args[1] in INPLACE_TENSOR
            and contains(e.data["fterm"].args[0], lambda s_: s_.op in ("attr", "vattr") and s_.args[1] == "grad")]
    ctx.ob("R16.5", fq, inpl[0].node if inpl else None, not inpl, "no in-place tensor operation edits a .grad buffer in train_step"
           if not inpl else f".grad is edited in place ({inpl[0].data['fterm'].args[1]}): the documented update is assigned as a "
           "whole, and in-place edits interact with any alias of the buffer", construct=f"{cls}: no in-place .grad edits")


def _tiny(A, r, update):
    for s in subterms(update):
        if s.op == "attr" and s.args[1] == "tiny" and s.args[0].op == "call" and s.args[0].args[0].op == "global" \
                and s.args[0].args[0].args[0].endswith(".finfo"):
            return s
    return None


def _find_update(ctx, A, r, lib):
    """The store that hands the combined gradient over: torch `p.grad = ...`, tensorflow `dW[i] = ...` in a loop."""
    fq = r.func
    cands = []
    for e in r.events:
        if e.kind != "store" or not e.loops or e.func != fq:
            continue
        if e.data["tkind"] == "attr" and e.data["attr"] == "grad":
            cands.append(e)
        elif e.data["tkind"] == "sub":
            cands.append(e)
    if not cands:
        ctx.ob("R16.3", fq, None, None, "no per-parameter gradient store found in the loop", construct="update store")
        return None
    if len(cands) > 1:
        # several stores (e.g. a fast path under a condition): each must be the documented update; the ones that are not
        # are reported, and the analysis continues with the last (general) store
        full = [c for c in cands if len([a for a in subterms(c.data["value"]) if a.op == "sub" and _grad_kind(a, lib)]) >= 2]
        for c in cands:
            if c not in full:
                conds = [show(x, maxdepth=3)[:60] for x in c.pc if x.op != "inloop"]
                ctx.ob("R16.3", fq, c.node, False, f"under {conds} the predictor gradient is set to {show(c.data['value'], maxdepth=3)[:80]}"
                       ", which is not dW_LP - proj*unit - alpha*dW_LA (the projection term is skipped)", construct="conditional update store")
        if len(full) != 1:
            ctx.ob("R16.3", fq, None, None, f"expected one general gradient store (found {len(full)})", construct="update store")
            return None
        cands = full
    e = cands[0]
    update = e.data["value"]
    # gradient lists: indexed operands of the update, classified by their defining expression
    atoms = [a for a in subterms(update) if a.op == "sub"]
    grads = {}
    for a in atoms:
        kind = _grad_kind(a, lib)
        if kind and kind not in grads:
            grads[kind] = a
    if set(grads) != {"LP", "LA"}:
        ctx.ob("R16.3", fq, e.node, None, f"could not identify dW_LP / dW_LA among the operands of the update "
               f"({[show(a, maxdepth=3)[:60] for a in atoms]})", construct="gradient roles")
        return None
    return e, update, grads["LP"], grads["LA"]


def _grad_kind(a: T, lib):
    """Which loss does this per-parameter gradient belong to?  Decided by the defining expression."""
    base = a.args[0]
    txt = None
    for s in subterms(base):
        if lib == "tensorflow" and s.op == "call" and s.args[0].op == "attr" and s.args[0].args[1] == "gradient" and s.args[1]:
            loss = s.args[1][0]
            f = loss.args[0] if loss.op == "call" else None
            if f is not None and f.op == "attr":
                txt = f.args[1]
            break
        if lib == "torch" and s.op == "vattr" and s.args[1] == "grad":
            # the last backward() before this read
            for eff in reversed(s.args[2]):
                if eff.op == "call" and eff.args[0].op == "attr" and eff.args[0].args[1] == "backward":
                    loss = eff.args[0].args[0]
                    f = loss.args[0] if loss.op == "call" else None
                    if f is not None and f.op == "attr":
                        txt = f.args[1]
                    break
            break
    if txt == "predictor_loss":
        return "LP"
    if txt == "adversary_loss":
        return "LA"
    return None


def _routing(ctx, A, r, e, lib, cls, gP, gA):
    fq = r.func
    if lib == "torch":
        # p.grad = update where p is the i-th parameter of the predictor and the grads are indexed by the same i
        obj = e.data["obj"]
        lev = [x for x in r.events if x.kind == "loop" and x.data.get("lid") == e.loops[-1]][0]
        it = lev.data["iter"]
        ok = it.op == "call" and it.args[0] is glob("builtins.enumerate") and A.eq(unlist(it.args[1][0]), A.entry(r, "self.predictor_model.parameters()"))
        i, p = mk("sub", lev.data["elem"], const(0)), mk("sub", lev.data["elem"], const(1))
        ok = ok and obj is p and gP.args[1] is i and gA.args[1] is i
        # the gradient lists enumerate the same parameters
        for g in (gP, gA):
            base = g.args[0]
            ok = ok and base.op == "comp" and base.args[2][0][0] is it.args[1][0]
        ctx.ob("R16.4", fq, e.node, ok, "the combined gradient is assigned to .grad of the predictor parameter it was "
               "computed from (same enumeration index)", construct=f"{cls}: gradient routing")
        steps = [x for x in r.events if x.kind == "call" and x.data["fterm"].op == "attr" and x.data["fterm"].args[1] == "step"]
        recv = [show(x.data["fterm"].args[0], maxdepth=3) for x in steps]
        ok = len(steps) == 2 and {x.data["fterm"].args[0].args[1] for x in steps if x.data["fterm"].args[0].op == "attr"} == \
            {"predictor_optimizer", "adversary_optimizer"} and all(not x.loops and x.seq > e.seq for x in steps)
        ctx.ob("R16.4", fq, steps[0].node if steps else None, ok, "both optimisers step once, after the gradients were "
               "assigned", construct=f"{cls}: optimiser steps")
        _torch_order(ctx, A, r, e, steps)
    else:
        calls = [x for x in r.events if x.kind == "call" and x.data["fterm"].op == "attr" and x.data["fterm"].args[1] == "apply_gradients"]
        okp = oka = False
        for c in calls:
            z = arg(c, 0)
            if not (z.op == "call" and z.args[0] is glob("builtins.zip") and len(z.args[1]) == 2):
                continue
            grads, vars_ = z.args[1]
            who = c.data["fterm"].args[0]
            if who.op == "attr" and who.args[1] == "predictor_optimizer":
                okp = root_of(grads) is root_of(gP.args[0]) and grads is not root_of(grads) and \
                    A.eq(vars_, A.entry(r, "self.predictor_model.trainable_variables")) and c.seq > e.seq
            if who.op == "attr" and who.args[1] == "adversary_optimizer":
                want = [s for s in [grads] if s.op == "call" and s.args[0].op == "attr" and s.args[0].args[1] == "gradient"]
                oka = bool(want) and A.eq(grads.args[1][1], A.entry(r, "self.adversary_model.trainable_variables")) and \
                    A.eq(vars_, A.entry(r, "self.adversary_model.trainable_variables")) and \
                    _grad_kind(mk("sub", grads, const(0)), "tensorflow") == "LA"
        ctx.ob("R16.4", fq, calls[0].node if calls else None, okp, "the predictor's optimiser applies the combined "
               "gradients zipped with the predictor's own variables", construct=f"{cls}: gradient routing")
        ctx.ob("R16.4", fq, calls[-1].node if calls else None, oka, "the adversary's optimiser applies the plain gradient "
               "of LA w.r.t. the adversary's variables", construct=f"{cls}: adversary gradient")
        # the three tape gradients differentiate the right loss w.r.t. the right variables
        ok = gP.args[0].op != "call" or True
        for g, loss in ((gP, "LP"), (gA, "LA")):
            base = root_of(g.args[0])
            okv = base.op == "call" and A.eq(base.args[1][1], A.entry(r, "self.predictor_model.trainable_variables"))
            ctx.ob("R16.4", fq, None, okv, f"dW_{loss} differentiates w.r.t. the predictor's variables", construct=f"{cls}: dW_{loss} variables")


def _torch_order(ctx, A, r, e, steps):
    fq = r.func

    def calls(meth, recv_attr=None):
        out = []
        for x in r.events:
            if x.kind == "call" and x.data["fterm"].op == "attr" and x.data["fterm"].args[1] == meth and not x.loops:
                rc = x.data["fterm"].args[0]
                if recv_attr is None or (rc.op == "attr" and rc.args[1] == recv_attr):
                    out.append(x)
        return out

    back = calls("backward")
    zp, za = calls("zero_grad", "predictor_optimizer"), calls("zero_grad", "adversary_optimizer")
    copies = [x for x in r.events if x.kind == "comp" and x.func == fq]
    if len(back) != 2 or len(zp) < 2 or len(za) < 2 or len(copies) < 2:
        ctx.ob("R16.5", fq, None, False, f"expected 2 backward passes, 2+2 zero_grad calls and 2 gradient copies (found "
               f"{len(back)}, {len(zp)}+{len(za)}, {len(copies)})", construct="torch step protocol counts")
        return
    kinds = [_loss_of_backward(b) for b in back]
    seq = lambda x: x.seq  # noqa: E731
    c1, c2 = copies[0], copies[1]
    ok = (kinds == ["LP", "LA"] and zp[0].seq < back[0].seq < c1.seq < zp[1].seq < back[1].seq < c2.seq < e.seq
          and za[1].seq < back[1].seq and za[0].seq < back[0].seq and all(s.seq > e.seq for s in steps))
    ctx.ob("R16.5", fq, back[0].node, ok, "zero_grad -> LP.backward -> copy -> zero_grad -> LA.backward -> copy -> assign "
           "-> step" if ok else "the autograd protocol order is broken (gradients of the two losses would mix or be stale)",
           construct="torch step protocol order")


def _loss_of_backward(b):
    loss = b.data["fterm"].args[0]
    f = loss.args[0] if loss.op == "call" else None
    if f is not None and f.op == "attr":
        return {"predictor_loss": "LP", "adversary_loss": "LA"}.get(f.args[1])
    return None


def _adversary_input(ctx, A, r, lib, cls):
    fq = r.func
    adv = [x for x in r.events if x.kind == "call" and x.data["fterm"].op == "attr" and x.data["fterm"].args[1] == "adversary_model"
           and x.data["fterm"].args[0] is r.self_term]
    pred = [x for x in r.events if x.kind == "call" and x.data["fterm"].op == "attr" and x.data["fterm"].args[1] == "predictor_model"
            and x.data["fterm"].args[0] is r.self_term]
    if len(adv) != 1 or len(pred) != 1:
        ctx.ob("R16.6", fq, None, None, "expected one predictor and one adversary forward pass", construct=f"{cls}: forward passes")
        return
    yhat = pred[0].data["result"]
    x = A.C.canon(arg(adv[0], 0))
    cat = glob("torch.cat" if lib == "torch" else "tensorflow.concat")
    axis_kw = "dim" if lib == "torch" else "axis"
    b = {"Yh": yhat, "Y": r.params["Y"], "cat": cat}
    want = A.C.canon(mk("ite", A.entry(r, "self.base.pass_y_"), A.spec(f"cat((Yh, Y), {axis_kw}=1)", b), yhat))
    ctx.ob("R16.6", fq, adv[0].node, x is want, "the adversary's input is concat(Y_hat, Y) along axis 1 exactly when "
           "pass_y_ is set, else Y_hat", construct=f"{cls}: adversary input")
    ok = arg(pred[0], 0) is r.params["X"]
    ctx.ob("R16.6", fq, pred[0].node, ok, "the predictor is evaluated on the batch X", construct=f"{cls}: predictor input")
    # L_P = loss(prediction of the predictor, Y), L_A = loss(prediction of the adversary, A) in the library's argument order
    # (torch: input first, keras: y_true first)
    ahat = adv[0].data["result"]
    for name, out, tgt in (("predictor_loss", yhat, r.params["Y"]), ("adversary_loss", ahat, r.params["A"])):
        ls = [x for x in r.events if x.kind == "call" and x.data["fterm"].op == "attr" and x.data["fterm"].args[1] == name
              and x.data["fterm"].args[0] is r.self_term]
        want = (out, tgt) if lib == "torch" else (tgt, out)
        ok = len(ls) == 1 and tuple(ls[0].data["args"][:2]) == want
        order = "(prediction, target)" if lib == "torch" else "(target, prediction)"
        ctx.ob("R16.6", fq, ls[0].node if ls else None, ok, f"{name} compares the model's own output with its target, in the "
               f"library's order {order}", construct=f"{cls}: {name} arguments")
