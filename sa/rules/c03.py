"""C03 - named fairness metrics equal their definitions (wiring, dispatcher exhaustiveness, scalar base rates)."""
from __future__ import annotations

import ast

from ..region import Raised, Unmodelled, concrete, pc_holds, specialise
from ..terms import FALSE, NONE, TRUE, State, T, conj, const, const_value, contains, glob, mk, root_of, show, subterms
from . import c14
from .common import M_BM, M_FM, M_GM, M_MDM, M_MF, Analysis, arg, calls_to, dominates, kw, pc_literals, stores_attr

MF = M_MF + ":MetricFrame"
DM = M_MDM + ":_DerivedMetric"
SIX = {
    "demographic_parity_difference": ("selection_rate", "difference"),
    "demographic_parity_ratio": ("selection_rate", "ratio"),
    "equal_opportunity_difference": ("true_positive_rate", "difference"),
    "equal_opportunity_ratio": ("true_positive_rate", "ratio"),
    "equalized_odds_difference": ("eo", "difference"),
    "equalized_odds_ratio": ("eo", "ratio"),
}


def check(ctx):
    ctx.guard(r031_wiring, ctx, "R03.1")
    ctx.guard(r033_generated, ctx)
    ctx.rule("R03.4", "the base rates are scalar valued for single-member / single-weighted-row groups (shared with C14 R14.4)")
    ctx.guard(c14.r144_scalar, ctx, rule="R03.4")
    ctx.rule("R03.5", "the base rates themselves are the documented confusion-matrix entries / weighted means (shared with "
                      "C14 R14.1, R14.2, R14.5)")
    ctx.guard(c14.r141_siblings, ctx, rule="R03.5")
    ctx.guard(c14.r142_labels, ctx, rule="R03.5")
    ctx.guard(c14.r145_formulas, ctx, rule="R03.5")
    # the sample_weight a named metric receives reaches the base rate through MetricFrame's parameter routing: the column written
    # for it is built from this call's value (no cache across calls) and is the column the wrapper reads (shared with C01)
    from . import c01
    ctx.guard(c01.r012_slicing, ctx, "R03.6")
    ctx.guard(c01.r015_param_routing, ctx, "R03.6")


def r031_wiring(ctx, rule, only_weights=False):
    if not only_weights:
        ctx.rule("R03.1", "each named fairness metric builds a MetricFrame whose metric is the base rate of its definition "
                          "(demographic parity: selection_rate; equal opportunity: true_positive_rate; equalized odds: "
                          "{true_positive_rate, false_positive_rate}) on the caller's y_true / y_pred / sensitive_features, with "
                          "sample_weight forwarded as the sample_weight parameter of every metric")
        ctx.rule("R03.2", "*_difference returns .difference(method=method), *_ratio returns .ratio(method=method); equalized "
                          "odds combines with max (difference) / min (ratio) for worst_case and .mean() for mean; any other agg "
                          "raises")
    else:
        ctx.rule(rule, "sample parameters are columns of the MetricFrame's frame and are sliced with the rows; the fairness "
                       "metrics forward sample_weight to every metric of the frame")
    A = Analysis(ctx, no_inline=[MF + ".__init__"] + [f"{MF}.{m}" for m in ("difference", "ratio", "group_min", "group_max")],
                 max_depth=3)
    n = 0
    for name, (base, kind) in SIX.items():
        fq = f"{M_FM}:{name}"
        r = A.run(fq)
        P = r.params
        mf = [e for e in r.events if e.kind == "call" and e.data.get("constructs") == MF]
        if len(mf) != 1:
            ctx.ob(rule, fq, None, None, f"expected one MetricFrame construction (found {len(mf)})", construct=f"{name}: frame")
            continue
        n += 1
        c = mf[0]
        sw = P["sample_weight"]
        swd = mk("dict", ((const("sample_weight"), sw),))
        if base == "eo":
            want_metrics = mk("dict", ((const("tpr"), glob(M_BM + ":true_positive_rate")), (const("fpr"), glob(M_BM + ":false_positive_rate"))))
            m = kw(c, "metrics")
            okm = m is not None and m.op == "dict" and len(m.args[0]) == 2 and {v for _, v in m.args[0]} == {
                glob(M_BM + ":true_positive_rate"), glob(M_BM + ":false_positive_rate")}
            sp = kw(c, "sample_params")
            sp = A.C.canon(sp) if sp is not None else None  # a comprehension over the literal metric dict is expanded
            cswd = A.C.canon(swd)
            oks = okm and sp is not None and sp.op == "dict" and {k for k, _ in sp.args[0]} == {A.C.canon(k) for k, _ in m.args[0]} \
                and all(v is cswd for _, v in sp.args[0])
        else:
            okm = kw(c, "metrics") is glob(f"{M_BM}:{base}")
            oks = kw(c, "sample_params") is swd
        okd = kw(c, "y_true") is P["y_true"] and kw(c, "y_pred") is P["y_pred"] and kw(c, "sensitive_features") is P["sensitive_features"] \
            and kw(c, "control_features") is None
        if not only_weights:
            ctx.ob("R03.1", fq, c.node, okm, f"{name} disaggregates " + ("true_positive_rate and false_positive_rate" if base == "eo" else base),
                   construct=f"{name}: base metric")
            ctx.ob("R03.1", fq, c.node, okd, "y_true, y_pred and sensitive_features are passed through unmodified",
                   construct=f"{name}: data arguments")
        ctx.ob(rule, fq, c.node, oks, "sample_weight is forwarded as the sample_weight parameter of every metric in the frame",
               construct=f"{name}: weights forwarded")
        if only_weights:
            continue
        frame = c.data["result"]
        agg_call = mk("call", mk("boundmethod", frame, f"{MF}.{kind}"), (), (("method", P["method"]),))
        if base != "eo":
            ok = r.ret is agg_call
            ctx.ob("R03.2", fq, None, ok, f"{name} returns frame.{kind}(method=method)", construct=f"{name}: aggregate")
        else:
            agg = P["agg"]
            bad = []
            for av in ("worst_case", "mean", "bogus"):
                env = {agg: av}
                try:
                    raised = any(e.kind == "raise" and e.func == fq and pc_holds(e.pc, env) for e in r.events)
                    got = None if raised else specialise(r.ret, env)
                except (Unmodelled, Raised) as ex:
                    bad.append(f"not modelled: {ex}")
                    break
                if av == "bogus":
                    if not raised:
                        bad.append("an unknown agg is accepted")
                    continue
                if raised:
                    bad.append(f"agg={av} raises")
                    continue
                if av == "worst_case":
                    fn = "builtins.max" if kind == "difference" else "builtins.min"
                    wants = [mk("call", glob(fn), (agg_call,), ()), mk("call", mk("attr", agg_call, fn.split(".")[1]), (), ())]
                else:
                    wants = [mk("call", mk("attr", agg_call, "mean"), (), ())]
                if not any(got is w for w in wants):
                    bad.append(f"agg={av}: {show(got, maxdepth=4)[:120]}")
                elif av == "worst_case" and got is wants[0]:
                    # Python's builtin min / max skip a NaN only when it is not the first element: with the TPR disparity
                    # first, an undefined FPR ratio (0/0, no false positive anywhere) leaves the TPR ratio as the result
                    m_ = kw(c, "metrics")
                    order = [v for _, v in m_.args[0]] if m_ is not None and m_.op == "dict" else []
                    if order != [glob(M_BM + ":true_positive_rate"), glob(M_BM + ":false_positive_rate")]:
                        bad.append("the builtin min / max over the two disparities is order-sensitive for NaN, and the frame does not list the "
                                   "true-positive rate first: an undefined FPR disparity now makes the result NaN")
            ctx.exhaustive_spaces.append(f"{name}: agg in (worst_case, mean, other)")
            ctx.ob("R03.2", fq, None, not bad, f"{name}: worst_case -> {'max' if kind == 'difference' else 'min'} over the two "
                   f"rates' {kind}s, mean -> their mean, anything else raises" if not bad else "; ".join(bad),
                   construct=f"{name}: aggregate")
    ctx.floor(rule, "named fairness metrics with one MetricFrame", n, 6)


def _chain_roles(A2, rc, Pc):
    """{role: dict term} when other_params is partitioned by filtering dict comprehensions, else {}"""
    O = Pc["other_params"]
    comps = {}
    for e in rc.events:
        if e.kind != "store" or e.data.get("tkind") != "name" or e.loops:
            continue
        v = e.data["value"]
        while v.op == "assume":
            v = v.args[1]
        if v.op == "comp" and v.args[0] == "dict" and len(v.args[2]) == 1 and v.args[1].op == "kv":
            src, conds = v.args[2][0]
            if src.op == "call" and src.args[0].op == "attr" and src.args[0].args[1] == "items" and not src.args[1] and not src.args[2]:
                el = mk("elem", src)
                if v.args[1].args[0] is mk("sub", el, const(0)) and v.args[1].args[1] is mk("sub", el, const(1)):
                    comps[v] = (src.args[0].args[0], conds, mk("sub", el, const(0)))
    if len(comps) < 3:
        return {}
    S = A2.entry(rc, "self._sample_param_names")
    Tn = A2.entry(rc, "parameters_for_transforms")

    class _Unknown(Exception):
        pass

    def peel(t):
        while t.op == "assume":
            t = t.args[1]
        return t

    def member(D, a, b, depth=0):
        D = peel(D)
        if D is O:
            return True
        if D not in comps or depth > 6:
            raise _Unknown()
        X, conds, k = comps[D]
        return member(X, a, b, depth + 1) and all(ev(c, k, a, b, depth) for c in conds)

    def ev(c, k, a, b, depth):
        if c.op == "not":
            return not ev(c.args[0], k, a, b, depth)
        if c.op in ("and", "or"):
            vals = [ev(x, k, a, b, depth) for x in c.args[0]]
            return all(vals) if c.op == "and" else any(vals)
        if c.op == "cmp" and c.args[0] in ("in", "not in") and c.args[1] is k:
            tgt = peel(c.args[2])
            val = a if tgt is S else (b if tgt is Tn else member(tgt, a, b, depth + 1))
            return val if c.args[0] == "in" else not val
        raise _Unknown()
    want = {"sample": frozenset({(True, False), (True, True)}), "transform": frozenset({(False, True)}), "bound": frozenset({(False, False)})}
    out = {}
    for D in comps:
        try:
            table = frozenset((a, b) for a in (True, False) for b in (True, False) if member(D, a, b))
        except _Unknown:
            continue
        for role_, t_ in want.items():
            if table == t_ and role_ not in out:
                out[role_] = D
    return out if set(out) == set(want) else {}


def r033_generated(ctx):
    ctx.rule("R03.3", "for every (base, variant) in METRICS_SPEC the registered name is '<base.__name__>_<variant>' and the "
                      "object is make_derived_metric(metric=base, transform=variant, sample_param_names=['sample_weight']); "
                      "_DerivedMetric.__call__ partitions **other_params three ways (sample / transform / bound parameters), "
                      "builds the MetricFrame from the bound metric and the sample parameters only, and calls the MetricFrame "
                      "method named by the transform (transform parameters only for difference / ratio)")
    A = Analysis(ctx, inline=lambda fq, d: False)
    r = A.ev.run_module(M_GM)
    r.events = list(r.events)
    ctx.analysed(r)
    fq = M_GM + ":<module>"
    reg = [e for e in r.events if e.kind == "store" and e.data.get("tkind") == "sub" and len(e.loops) == 2]
    ctx.floor("R03.3", "registry stores in the generated-metrics loop", len(reg), 1)
    loops = {e.data.get("lid"): e for e in r.events if e.kind == "loop"}
    for e in reg:
        outer, inner = loops[e.loops[0]], loops[e.loops[1]]
        base = mk("sub", outer.data["elem"], const(0))
        variants = mk("sub", outer.data["elem"], const(1))
        variant = inner.data["elem"]
        ok = inner.data["iter"] is variants and A.eq(outer.data["iter"], A.ev.eval_src("METRICS_SPEC", {}, module=M_GM))
        name_ok = [A.eq(e.data["key"], A.spec(s, {"b": base, "v": variant})) for s in ('"{0}_{1}".format(b.__name__, v)',
                                                                                      'b.__name__ + "_" + v', 'f"{b.__name__}_{v}"')]
        v = e.data["value"]
        fn_ok = v.op == "call" and v.args[0] is glob(M_MDM + ":make_derived_metric") and dict(v.args[2]).get("metric") is base \
            and dict(v.args[2]).get("transform") is variant and A.eq(dict(v.args[2]).get("sample_param_names"),
                                                                       mk("list", (const("sample_weight"),)))
        ctx.ob("R03.3", fq, e.node, ok and any(name_ok) and fn_ok, "registry[name(base, variant)] = "
               "make_derived_metric(metric=base, transform=variant, sample_param_names=['sample_weight']) with the loop "
               "variables used consistently", construct="generated metric registration")
    spec = A.ev.eval_src("METRICS_SPEC", {}, module=M_GM)
    inner_ = spec.args[1] if spec.op == "modconst" else spec
    okv = inner_.op == "list" and all(x.op == "tuple" and x.args[0][1].op == "list" and all(
        v.op == "const" and const_value(v) in ("difference", "ratio", "group_min", "group_max") for v in x.args[0][1].args[0]) for x in inner_.args[0])
    ctx.ob("R03.3", fq, None, okv, "every variant listed in METRICS_SPEC is a supported transform",
           construct="METRICS_SPEC variants")
    # make_derived_metric forwards its arguments
    A2 = Analysis(ctx, no_inline=[DM + ".__init__", MF + ".__init__"] + [f"{MF}.{m}" for m in ("difference", "ratio", "group_min",
                                                                                                  "group_max")], max_depth=2)
    rm = A2.run(M_MDM + ":make_derived_metric")
    cons = [e for e in rm.events if e.kind == "call" and e.data.get("constructs") == DM]
    P = rm.params
    ok = len(cons) == 1 and kw(cons[0], "metric") is P["metric"] and kw(cons[0], "transform") is P["transform"] \
        and kw(cons[0], "sample_param_names") is P["sample_param_names"] and rm.ret is cons[0].data["result"]
    ctx.ob("R03.3", rm.func, None, ok, "make_derived_metric builds a _DerivedMetric from its three arguments", construct="make_derived_metric")
    # __call__
    rc = A2.run(DM + ".__call__", cls_ctx=DM)
    fqc = rc.func
    Pc = rc.params
    st = [e for e in rc.events if e.kind == "store" and e.data.get("tkind") == "sub" and e.loops and e.func == fqc
          and isinstance(e.data.get("base_node"), ast.Name)]
    levs = [x for x in rc.events if x.kind == "loop" and x.func == fqc]
    if not levs:
        # no sorting loop at all (the partition written with comprehensions): a placeholder that matches nothing
        from types import SimpleNamespace
        levs = [SimpleNamespace(data={"elem": mk("undef", "no-loop"), "iter": mk("undef", "no-loop"), "lid": None}, node=None)]
    lev = levs[0]
    k, v = mk("sub", lev.data["elem"], const(0)), mk("sub", lev.data["elem"], const(1))
    by_name = {e.data["base_node"].id: e for e in st}
    okp = len(st) == 3 and all(e.data["key"] is k and e.data["value"] is v for e in st) and \
        lev.data["iter"].op == "call" and lev.data["iter"].args[0].args[0] is Pc["other_params"]
    # the three containers are created afresh by this call (no state shared between calls)
    fresh = True
    for e in st:
        root = root_of(e.data["obj"])
        fresh = fresh and ((root.op == "dict" and not root.args[0]) or (root.op == "call" and root.args[0] is glob("builtins.dict") and not root.args[1]))
    from ..lifecycle import self_stores
    writes = self_stores(rc)
    ctx.ob("R03.3", fqc, lev.node, fresh and not writes, "the parameter dictionaries are created by each call and calling the "
           "metric writes no state of the metric object (a call does not depend on earlier calls)" if fresh and not writes else
           "a parameter dictionary is shared with the metric object's state: a call without sample_weight reuses the weights of "
           "an earlier call", construct="no state shared between calls")
    if okp:
        cA = A2.C.canon(A2.at(st[0], "K in self._sample_param_names", {"K": k}))
        cB = A2.C.canon(A2.at(st[0], "K in parameters_for_transforms", {"K": k}))
        pcs = {n: [A2.C.canon(x) for x in e.pc if x.op != "inloop"] for n, e in by_name.items()}
        roles = {}
        for n, lits in pcs.items():
            if lits == [cA]:
                roles["sample"] = n
            elif lits == [A2.C._not(cA), cB]:
                roles["transform"] = n
            elif lits == [A2.C._not(cA), A2.C._not(cB)]:
                roles["bound"] = n
        okp = set(roles) == {"sample", "transform", "bound"}
        # ... for every keyword: nothing leaves the loop early (a break after the first sample parameter drops the rest)
        early = [x for x in rc.events if x.kind in ("break", "return", "return-inlined", "raise") and x.loops and lev.data["lid"] in x.loops]
        okp = okp and not early
    role_terms = {}
    if not okp:
        # the same partition written as a chain of filtering dict comprehensions (each one over other_params.items() or over the
        # items of an earlier one; a filter may test membership in an earlier result): decided by the truth table of "key in D"
        # over the two atoms (key in sample_param_names, key in parameters_for_transforms)
        role_terms = _chain_roles(A2, rc, Pc)
        okp = set(role_terms) == {"sample", "transform", "bound"}

    def role(ev_, which):
        return role_terms[which] if role_terms else A2.at(ev_, roles[which])
    ctx.ob("R03.3", fqc, lev.node, okp, "**other_params is split exhaustively and disjointly: names in sample_param_names -> "
           "sample params, 'method' -> transform params, everything else -> bound into the metric", construct="parameter partition")
    mfc = [e for e in rc.events if e.kind == "call" and e.data.get("constructs") == MF]
    # one construction, or one per transform family when the construction sits in a helper with several callers: each is checked
    okf = 1 <= len(mfc) <= 2 and okp
    for c in (mfc if okf else []):
        sp, disp = kw(c, "sample_params"), kw(c, "metrics")
        okf = okf and sp is role(c, "sample") and kw(c, "y_true") is Pc["y_true"] and kw(c, "y_pred") is Pc["y_pred"] \
            and kw(c, "sensitive_features") is Pc["sensitive_features"]
        part = root_of(disp)
        okf = okf and part.op == "call" and part.args[0] is glob("functools.partial") and A2.eq(part.args[1][0], A2.entry(rc, "self._metric_fn")) \
            and any(kk == "**" and vv is role(c, "bound") for kk, vv in part.args[2])
    ctx.ob("R03.3", fqc, mfc[0].node if mfc else None, okf, "the MetricFrame is built from partial(metric, **bound params), the "
           "caller's data and the sample params only", construct="frame construction")
    # transform dispatch
    tr = mk("attr", rc.self_term, "_transform")
    bad = []
    if mfc and okp:
        frames = [m_.data["result"] for m_ in mfc]
        tp = role(mfc[0], "transform")
        for tv in ("difference", "ratio", "group_min", "group_max", "bogus"):
            env = {tr: tv}
            try:
                raised = any(e.kind == "raise" and e.func == fqc and pc_holds(e.pc, env) for e in rc.events)
                got = None if raised else specialise(rc.ret, env)
            except (Unmodelled, Raised) as ex:
                bad.append(f"dispatch not modelled: {ex}")
                break
            if tv == "bogus":
                if not raised:
                    bad.append("an unknown transform is accepted")
                continue
            if raised or got is None or got.op != "call" or got.args[0].op != "boundmethod" or not any(got.args[0].args[0] is f_ for f_ in frames):
                bad.append(f"transform={tv}: {show(got, maxdepth=3)[:100] if got is not None else 'raises'}")
                continue
            meth = got.args[0].args[1].rsplit(".", 1)[1]
            if meth != tv:
                bad.append(f"transform={tv} calls .{meth}()")
            passes = any(kk == "**" and vv is tp for kk, vv in got.args[2])
            if tv in ("difference", "ratio") and not passes:
                bad.append(f"transform={tv} does not forward the transform parameters")
            if tv in ("group_min", "group_max") and (got.args[1] or got.args[2]):
                bad.append(f"transform={tv} receives unexpected arguments")
        ctx.exhaustive_spaces.append("_DerivedMetric.__call__: transform in (difference, ratio, group_min, group_max, other)")
    else:
        bad.append("MetricFrame construction or parameter partition not recognised")
    ctx.ob("R03.3", fqc, None, not bad, "each transform calls the MetricFrame method of the same name (method= forwarded to "
           "difference / ratio only)" if not bad else "; ".join(bad[:3]), construct="transform dispatch")
    # constructor: transform must be one of the options; metric with a `method` argument is refused
    ri = A2.run(DM + ".__init__", cls_ctx=DM)
    conds = [A2.C.canon(e.pc[-1]) for e in ri.events if e.kind == "raise" and e.pc]
    ok = A2.C.canon(A2.entry(ri, "transform not in transform_options")) in conds and \
        ri.final.heap.get((ri.self_term, "_transform")) is ri.params["transform"] and ri.final.heap.get((ri.self_term, "_metric_fn")) is ri.params["metric"]
    ctx.ob("R03.3", ri.func, None, ok, "the constructor stores metric / transform and rejects unknown transforms",
           construct="_DerivedMetric constructor")
