"""C12 - rows are matched by position (D-LABEL: no caller-labelled pandas value reaches a label sink)."""
from __future__ import annotations

from ..labels import CLEAN, DATA_PARAM_NAMES, DEFAULT, USER, find_sinks
from ..terms import NONE, T, const, contains, glob, mk, show, subterms
from .common import (M_BGL, M_BM, M_EG, M_ER, M_FM, M_GS, M_IT, M_IV, M_MDM, M_MF, M_MOMENT, M_TO, M_UP, Analysis, arg,
                     calls_to, kw)

BASE_METRICS = ["true_positive_rate", "true_negative_rate", "false_positive_rate", "false_negative_rate",
                "selection_rate", "mean_prediction", "count"]
FAIRNESS = ["demographic_parity_difference", "demographic_parity_ratio", "equalized_odds_difference",
            "equalized_odds_ratio", "equal_opportunity_difference", "equal_opportunity_ratio"]
LOAD_DATA = [(M_UP, c) for c in ("DemographicParity", "TruePositiveRateParity", "FalsePositiveRateParity",
                                 "EqualizedOdds", "ErrorRateParity")] + [(M_ER, "ErrorRate"), (M_BGL, "ConditionalLossMoment")]


def entry_points(prog):
    eps = []
    for n in BASE_METRICS:
        eps.append((f"{M_BM}:{n}", None))
    for n in FAIRNESS:
        eps.append((f"{M_FM}:{n}", None))
    eps.append((f"{M_MDM}:_DerivedMetric.__call__", f"{M_MDM}:_DerivedMetric"))
    eps.append((f"{M_MF}:MetricFrame.__init__", f"{M_MF}:MetricFrame"))
    for m in ("fit", "predict", "_pmf_predict"):
        eps.append((f"{M_TO}:ThresholdOptimizer.{m}", f"{M_TO}:ThresholdOptimizer"))
        eps.append((f"{M_IT}:InterpolatedThresholder.{m}", f"{M_IT}:InterpolatedThresholder"))
    eps.append((f"{M_EG}:ExponentiatedGradient.fit", f"{M_EG}:ExponentiatedGradient"))
    eps.append((f"{M_GS}:GridSearch.fit", f"{M_GS}:GridSearch"))
    for mod, c in LOAD_DATA:
        eps.append((f"{mod}:{c}.load_data", f"{mod}:{c}"))
    return eps


def check(ctx):
    ctx.rule("R12.1", "no value that may still carry caller-chosen pandas labels (a data parameter or a label-preserving "
                      "derivative of it) reaches a label-aligning or label-lookup operation; only position-only "
                      "conversions, benign uses and pass-through to estimators are allowed")
    ctx.rule("R12.2", "_validate_and_reformat_input returns y / sensitive / control features as Series built from "
                      "ndarrays (default index), and every moment's load_data hands those to the base loader")
    ctx.assume("values returned by wrapped estimators (predict, predict_proba, ...) are label-free ndarrays")
    ctx.assume("a dict passed as sensitive_features / control_features / sample_params holds 1-d arrays (documented contract)")
    ctx.assume("X is handed to the wrapped estimator untouched (not a sink); its row labels are a label source like those of y")
    prog = ctx.prog
    eps = entry_points(prog)
    n_eps, n_san = label_sinks(ctx, "R12.1", eps)
    ctx.floor("R12.1", "public entry points analysed", n_eps, 30)
    ctx.floor("R12.1", "sanitiser sites on label sources", n_san, 9)
    ctx.guard(r122, ctx)
    ctx.guard(r124_order, ctx)
    from .c13 import r133_merge_test
    ctx.guard(r133_merge_test, ctx, "R12.3")
    # invariance under joint row permutations / label bijections: groups come out in sorted label order (the default groupby of
    # _apply_functions, not first appearance), and the aggregates over groups are pandas' named reductions, which do not depend on
    # which group is first (the builtin min / max skip a NaN only when it is not the first cell)
    ctx.rule("R12.5", "MetricFrame's result order and aggregates do not depend on the row order: the grouping and re-indexing formula "
                      "of _apply_functions (shared with C01 R01.3) and the aggregator dispatch of apply_grouping (shared with C02 R02.1)")
    from .c01 import r013_grouping
    from .c02 import r021
    ctx.aliased({"R01.3": "R12.5"}, r013_grouping, ctx)
    ctx.aliased({"R02.1": "R12.5"}, r021, ctx)
    # label bijections: a control (or event) label takes part in the merged event name whatever its value - the combiner tests for
    # null, never for truthiness, so relabelling a stratum as 0 / False / "" only renames index entries (shared with C06 R06.4)
    ctx.rule("R12.6", "the event / control combiner of the moments keeps every non-null label (shared with C06 R06.4)")
    from .c06 import r064_null
    ctx.aliased({"R06.4": "R12.6"}, r064_null, ctx)


def label_sinks(ctx, rule, eps):
    """Run the label-provenance analysis from each entry point; one obligation per entry point / sink."""
    prog = ctx.prog
    A = Analysis(ctx, max_depth=6)
    n_eps = n_san = 0
    for fq, cls in eps:
        prog.func(fq)
        r = A.run(fq, cls_ctx=cls)
        n_eps += 1
        sources = {t: name for name, t in r.params.items() if name in DATA_PARAM_NAMES}
        sinks, dom = find_sinks(r, sources)
        for e in r.events:
            if e.kind == "call" and e.data.get("callee") in ("numpy.asarray", "numpy.array", "builtins.list",
                                                             "sklearn.utils.validation.check_array") \
                    and e.data["args"] and dom.val(e.data["args"][0])[0] == USER:
                n_san += 1
        if not sinks:
            ctx.ob(rule, fq, None, True, f"{fq.split(':')[1]}: {len(sources)} label sources, {len(r.events)} events "
                   "inspected, no label sink reached", construct=f"{fq.split(':')[1]} label sinks")
        for e, s, why in sinks:
            ctx.ob(rule, e.func, e.node, False, f"(entry {fq.split(':')[1]}) {why}: {show(s, maxdepth=3)[:140]}",
                   construct=_construct(e, s))
        if dom.passthrough_unanalysed:
            ctx.note(f"{fq}: {dom.passthrough_unanalysed} in-repo calls beyond the inlining depth treated as pass-through")
    return n_eps, n_san


def _construct(e, s):
    import ast
    # key by the enclosing statement's normalised text + the sink operator
    try:
        txt = " ".join(ast.unparse(e.node).split())[:120]
    except Exception:
        txt = s.op
    return f"{s.op}:{txt}"


def r124_order(ctx):
    ctx.rule("R12.4", "values indexed by group label inside a moment (the multipliers, P(g)) are looked up by label, never taken out "
                      "of their labels and indexed by a positional group code (factorize / unique-inverse order of first appearance "
                      "differs from the sorted label order): results must not depend on row order or on a bijective renaming of the "
                      "groups")
    from .common import label_strips
    A = Analysis(ctx)
    n = 0
    for mod, c in LOAD_DATA:
        cls = f"{mod}:{c}"
        fi = ctx.prog.lookup_method(cls, "signed_weights")
        if fi is None:
            continue
        r = A.run(fi.fq, cls_ctx=cls)
        if r.ret is None:
            continue
        n += 1
        srcs = [t for t in (r.params.get("lambda_vec"), A.entry(r, "self.prob_attr"), A.entry(r, "self.prob_event"),
                            A.entry(r, "self.prob_group_event")) if t is not None]
        hits = []
        for s_ in srcs:
            hits += label_strips(r.ret, s_)
        ok = not hits
        ctx.ob("R12.4", fi.fq, None, ok, f"{c}.signed_weights looks group-indexed values up by label" if ok else
               f"{c}.signed_weights takes a group-indexed value out of its labels ({show(hits[0], maxdepth=3)[:80]}) and indexes it by "
               "position: the pairing depends on the order in which groups first appear", construct=f"{c}.signed_weights group lookup")
    ctx.floor("R12.4", "signed_weights methods", n, 6)


def r122(ctx):
    A = Analysis(ctx)
    fq = M_IV + ":_validate_and_reformat_input"
    # call-site constant: every in-repo caller uses expect_y=True (checked below)
    import ast as _ast
    from ..terms import TRUE
    n_sites = bad_sites = 0
    for f in ctx.prog.functions.values():
        mod = ctx.prog.modules[f.module]
        for node in _ast.walk(f.node):
            if isinstance(node, _ast.Call) and ctx.prog.resolve_expr_name(mod, node.func) == fq:
                n_sites += 1
                for k in node.keywords:
                    if k.arg == "expect_y" and not (isinstance(k.value, _ast.Constant) and k.value.value is True):
                        bad_sites += 1
                if len(node.args) > 2:
                    bad_sites += 1
    ctx.floor("R12.2", "call sites of the shared validator", n_sites, 9)
    ctx.ob("R12.2", fq, None, bad_sites == 0, f"all {n_sites} in-repo call sites use expect_y=True (so y is always "
           "re-built from an ndarray)", construct="validator call-site constant expect_y")
    r = A.run(fq, args={"expect_y": TRUE})
    sources = {t: n for n, t in r.params.items() if n in DATA_PARAM_NAMES}
    from ..labels import LabelDomain
    dom = LabelDomain(sources)
    ret = r.ret
    ctx.require(ret is not None and ret.op == "tuple" and len(ret.args[0]) == 4, "validator does not return a 4-tuple")
    names = ["X", "y", "sensitive_features", "control_features"]
    for i in (1, 2, 3):
        k, p = dom.val(ret.args[0][i])
        ok = k != USER
        ctx.ob("R12.2", fq, None, ok, f"returned {names[i]} carries no caller labels (rebuilt from an ndarray)" if ok else
               f"returned {names[i]} may still carry the caller's labels {sorted(p)}", construct=f"validator return {names[i]}")
    # every load_data passes the validated values on
    val = fq
    A2 = Analysis(ctx, no_inline=[val, M_UP + ":UtilityParity.load_data", M_MOMENT + ":Moment.load_data"])
    n = 0
    for mod, c in LOAD_DATA:
        lf = f"{mod}:{c}.load_data"
        rr = A2.run(lf, cls_ctx=f"{mod}:{c}")
        vs = calls_to(rr, val)
        sup = [e for e in rr.events if e.kind == "call" and e.data.get("callee") in (M_UP + ":UtilityParity.load_data",
                                                                                      M_MOMENT + ":Moment.load_data")]
        if not vs or not sup:
            ctx.ob("R12.2", lf, None, None, "validator / base load_data call not found", construct="load_data chain")
            continue
        n += 1
        res = vs[0].data["result"]
        P = rr.params
        s = sup[0]
        raw = {P[k] for k in ("y", "sensitive_features", "control_features") if k in P}
        passed = [x for x in list(s.data["args"][1:]) + [v for _, v in s.data["kwargs"]]]
        leaks = [x for x in passed if any(y in raw for y in subterms(x)) and not contains(x, lambda q: q is res)]
        direct = [x for x in passed if x in raw]
        ctx.ob("R12.2", lf, s.node, not leaks and not direct, "the base loader receives only validated (re-indexed) "
               "values, never the raw arguments" if not leaks and not direct else
               f"raw argument {show((leaks + direct)[0], maxdepth=2)[:60]} is handed to the base loader",
               construct="validated values passed on")
    ctx.floor("R12.2", "load_data methods with the validator -> base loader chain", n, 7)
