"""C20 - inconsistent or unsupported inputs are rejected (guard dominance + accepted regions)."""
from __future__ import annotations

from ..lifecycle import PREDICT_METHODS, config_attrs, estimator_classes, public_classes
from ..region import Raised, Unmodelled, concrete, pc_holds
from ..terms import (FALSE, NONE, TRUE, T, conj, const, const_value, contains, glob, literal_value, mk, root_of, show,
                     subterms)
from .common import (M_ADV, M_CR, M_DR, M_EG, M_ER, M_GF, M_GS, M_IT, M_IV, M_LAG, M_MF, M_MOMENT, M_TC, M_TO, M_UP,
                     Analysis, arg, calls_to, dominates, kw, pc_literals)

CCL = "sklearn.utils.validation.check_consistent_length"  # (import-path aliases are normalised by the front end)
CIF = "sklearn.utils.validation.check_is_fitted"


def check(ctx):
    ctx.guard(r201_metricframe, ctx)
    ctx.guard(r202_process_features, ctx)
    ctx.guard(r203_duplicates, ctx)
    ctx.guard(r204_validator, ctx)
    ctx.guard(r208_callers, ctx)
    ctx.guard(r209_threshold_optimizer, ctx)
    ctx.guard(r2010_degenerate, ctx)
    ctx.guard(r2011_regions, ctx)
    ctx.guard(r2014_fitted_checks, ctx)
    ctx.guard(r2015_correlation_remover, ctx)


def _is_ccl(e, a, b):
    if e.kind != "call" or e.data.get("callee") != CCL:
        return False
    args = e.data["args"]
    return len(args) >= 2 and any(x is a for x in args) and any(x is b for x in args)


# ----------------------------------------------------------------------------- MetricFrame


def r201_metricframe(ctx):
    ctx.rule("R20.1", "MetricFrame.__init__: check_consistent_length(y_true, y_pred) runs unconditionally before any "
                      "other work; every sample parameter column is length-checked by the frame it is stored in; the "
                      "bootstrap arguments are validated before resampling.")
    A = Analysis(ctx, no_inline=[M_DR + ":DisaggregatedResult.create"], max_depth=4)
    cls = M_MF + ":MetricFrame"
    r = A.run(cls + ".__init__", cls_ctx=cls)
    P = r.params
    first = [e for e in r.events if e.kind in ("call", "store")]
    ccl = [e for e in r.events if _is_ccl(e, P["y_true"], P["y_pred"])]
    ok = bool(ccl) and not ccl[0].pc and all(e.seq >= ccl[0].seq for e in first)
    ctx.ob("R20.1", r.func, ccl[0].node if ccl else None, ok,
           "check_consistent_length(y_true, y_pred) is the first, unconditional action of the constructor" if ok else
           "y_true / y_pred are not length-checked before being used", construct="y_true/y_pred length check")
    # sample parameters: stored as columns of the frame built from y_true/y_pred (pandas raises on a length mismatch)
    rc = A.run(cls + "._construct_annotated_metric_function", cls_ctx=cls)
    st = [e for e in rc.events if e.kind == "store" and e.data["tkind"] == "sub" and root_of(e.data["obj"]) is rc.params["all_data"]]
    ctx.floor("R20.1", "sample-parameter column stores", len(st), 1)
    for e in st:
        v = e.data["value"]
        ok = v.op == "call" and v.args[0].op == "global" and v.args[0].args[0] in ("numpy.asarray", "numpy.array")
        ctx.ob("R20.1", rc.func, e.node, ok, "each sample parameter is stored as an ndarray column of the y_true/y_pred "
               "frame, so pandas rejects a length mismatch", construct="sample param column store")
    # bootstrap argument validation precedes generate_bootstrap_samples
    gen = [e for e in r.events if e.kind == "call" and str(e.data.get("callee", "")).endswith(":generate_bootstrap_samples")]
    ctx.floor("R20.1", "bootstrap generator calls", len(gen), 1)
    rs = [e for e in r.events if e.kind == "raise" and e.func == r.func]
    for g in gen:
        before = [x for x in rs if x.seq < g.seq]
        conds = [A.C.canon(conj(x.pc)) for x in before]
        nb = P["n_boot"]
        lt1 = A.C.canon(mk("cmp", "<", nb, const(1)))
        has_nboot = any(contains(c, lambda s: s is lt1) for c in conds)
        q = mk("elem", P["ci_quantiles"])
        le0, ge1 = A.C.canon(mk("cmp", "<=", q, const(0))), A.C.canon(mk("cmp", ">=", q, const(1)))
        has_ci = any(contains(c, lambda s: s is le0) for c in conds) and any(contains(c, lambda s: s is ge1) for c in conds)
        ctx.ob("R20.1", r.func, g.node, has_nboot and has_ci, "n_boot < 1 and quantiles outside (0,1) raise before any "
               "resampling", construct="bootstrap argument guards")


def r202_process_features(ctx):
    ctx.rule("R20.2", "_process_features: on every path, each GroupFeature is built from a column whose length was "
                      "checked against the sample array first; non-string DataFrame / dict column names raise; "
                      "GroupFeature rejects non-string Series names.")
    A = Analysis(ctx, no_inline=[M_GF + ":GroupFeature.__init__"])
    cls = M_MF + ":MetricFrame"
    r = A.run(cls + "._process_features", cls_ctx=cls)
    sample = r.params["sample_array"]
    gfs = [e for e in r.events if e.kind == "call" and e.data.get("constructs") == M_GF + ":GroupFeature"]
    ctx.floor("R20.2", "GroupFeature constructions", len(gfs), 6)
    for g in gfs:
        col = arg(g, 1, "feature_vector")
        checks = [e for e in r.events if _is_ccl(e, col, sample) and dominates(e, g)]
        ctx.ob("R20.2", r.func, g.node, bool(checks), "the column handed to GroupFeature was length-checked against the "
               "sample array on every path reaching it" if checks else
               f"GroupFeature is built from {show(col, maxdepth=3)[:80]} without a dominating length check",
               construct="length check dominates GroupFeature")
        # column-name type guard for frame-like inputs
        if contains(col, lambda s: s.op == "attr" and s.args[1] == "iloc"):
            lits = pc_literals(g.pc)
            ok = any(l.op == "call" and l.args[0] is glob("builtins.isinstance") and len(l.args[1]) == 2
                     and l.args[1][1] is glob("builtins.str") and contains(l.args[1][0], lambda s: s.op == "attr" and s.args[1] == "columns")
                     for l in lits)
            ctx.ob("R20.2", r.func, g.node, ok, "a non-string column name raises before the column is used",
                   construct="column name must be str")
    # GroupFeature name rule (finite cells)
    Ag = Analysis(ctx)
    gcls = M_GF + ":GroupFeature"
    rg = Ag.run(gcls + ".__init__", cls_ctx=gcls)
    P = rg.params
    fv = P["feature_vector"]
    is_series = mk("call", glob("builtins.isinstance"), (fv, glob("pandas.Series")), ())
    fvname = mk("attr", fv, "name")
    bad = []
    n = 0
    for name in (None, "given"):
        for series in (False, True):
            for sname in (None, "col", 7):
                env = {P["name"]: name, is_series: series, fvname: sname, P["base_name"]: "sf_", P["index"]: 2}
                n += 1
                try:
                    raised = any(e.kind == "raise" and pc_holds(e.pc, env) for e in rg.events)
                    got = "raise" if raised else concrete(rg.final.heap[(rg.self_term, "name_")], env)
                except Raised:
                    got = "raise"
                except (Unmodelled, KeyError) as ex:
                    got = f"unmodelled({ex})"
                if name is not None:
                    want = name
                elif series and sname is not None:
                    want = sname if isinstance(sname, str) else "raise"
                else:
                    want = "sf_2"
                if got != want:
                    bad.append(f"name={name!r} series={series} series.name={sname!r}: {got!r}, documented {want!r}")
    ctx.exhaustive_spaces.append(f"GroupFeature.__init__ name rule: {n} cells")
    ctx.ob("R20.2", rg.func, None, not bad if not any("unmodelled" in b for b in bad) else None,
           f"feature naming / non-string Series name rejection agrees with the documented rule on all {n} cells"
           if not bad else "; ".join(bad[:3]), construct="GroupFeature name rule")


def r203_duplicates(ctx):
    ctx.rule("R20.3", "the duplicate-name test ranges over the sensitive AND control feature names and precedes the "
                      "disaggregation")
    A = Analysis(ctx, no_inline=[M_DR + ":DisaggregatedResult.create"])
    cls = M_MF + ":MetricFrame"
    r = A.run(cls + ".__init__", cls_ctx=cls)
    create = calls_to(r, M_DR + ":DisaggregatedResult.create")
    ctx.floor("R20.3", "DisaggregatedResult.create calls", len(create), 1)
    dup = [e for e in r.events if e.kind == "raise" and e.func == r.func and e.loops
           and any(l.op == "cmp" and l.args[0] == "in" for l in pc_literals(e.pc))]
    if not dup:
        ctx.ob("R20.3", r.func, None, None, "duplicate-name test not found in the modelled form (loop with `name in seen` "
               "raise)", construct="duplicate name test")
        return
    d = dup[0]
    lev = [e for e in r.events if e.kind == "loop" and e.data.get("lid") == d.loops[-1]][0]
    sf = A.at(lev, "self._sf_names")
    cf = A.at(lev, "self._cf_names")
    it = A.C.canon(lev.data["iter"])
    both = A.C.canon(mk("binop", "+", sf, cf))
    ok = contains(it, lambda s: s is both) or it is both
    # sf + (cf or []): the control names, or nothing when there are none
    alts = [A.C.canon(A.at(lev, s_)) for s_ in ("self._sf_names + (self._cf_names or [])", "self._sf_names + (self._cf_names or list())",
                                                "self._sf_names + (self._cf_names if self._cf_names else [])",
                                                "self._sf_names + ([] if self._cf_names is None else self._cf_names)",
                                                "self._sf_names + (self._cf_names if self._cf_names is not None else [])")]
    if any(it is a_ for a_ in alts):
        ok = True
    # the control names may be skipped only when there are none
    if it.op == "ite" and not any(it is a_ for a_ in alts):
        ok = ok and (it.args[1] is both or it.args[2] is both) and (it.args[1] is A.C.canon(sf) or it.args[2] is A.C.canon(sf))
        cond = it.args[0]
        ok = ok and contains(cond, lambda s: s is A.C.canon(cf))
        ccf = A.C.canon(cf)
        present = {ccf, A.C.canon(mk("cmp", "is not", cf, NONE))}
        absent = {A.C._not(ccf), A.C.canon(mk("cmp", "is", cf, NONE)), A.C.canon(mk("not", cf))}
        if cond in present:
            ok = ok and it.args[1] is both      # control names present -> both lists are tested
        elif cond in absent:
            ok = ok and it.args[2] is both
        else:
            ok = False
    ctx.ob("R20.3", r.func, lev.node, ok, "the duplicate test iterates over sensitive + control names (control skipped "
           "only when absent)" if ok else f"duplicate test iterates over {A.show(lev.data['iter'], 160)}",
           construct="duplicate test range")
    lit = [l for l in pc_literals(d.pc) if l.op == "cmp" and l.args[0] == "in"][0]
    ok = lit.args[1] is lev.data["elem"]
    adds = [e for e in r.events if e.kind == "call" and e.loops == d.loops and e.data["fterm"].op == "attr"
            and e.data["fterm"].args[1] == "add" and e.data["args"] and e.data["args"][0] is lev.data["elem"]
            and e.data["fterm"].args[0] is lit.args[2]]
    ctx.ob("R20.3", r.func, d.node, ok and bool(adds), "each name is tested against, then added to, the set of names seen",
           construct="seen-set protocol")
    ok = all(lev.seq < c.seq and all(any(x is y for y in c.pc) for x in lev.pc) for c in create)
    ctx.ob("R20.3", r.func, create[0].node, ok, "the duplicate test runs before the disaggregation on every path",
           construct="duplicate test precedes create")
    # names come from the GroupFeature objects of both lists
    for attr, lst in (("_sf_names", "sf_list"), ("_cf_names", "cf_list")):
        st = [e for e in r.events if e.kind == "store" and e.data.get("attr") == attr and e.func == r.func
              and e.data["value"] is not NONE]
        ok = bool(st) and all(contains(e.data["value"], lambda s: s.op == "attr" and s.args[1] == "name_") for e in st)
        ctx.ob("R20.3", r.func, st[0].node if st else None, ok, f"{attr} lists the feature names of the processed features",
               construct=f"{attr} source")


# ----------------------------------------------------------------------------- shared validator


def r204_validator(ctx):
    ctx.rule("R20.4", "_validate_and_reformat_input raises exactly under the documented conditions: y missing / empty / "
                      "wrong shape; enforce_binary_labels and labels outside {0,1}; X / y row mismatch; missing sensitive "
                      "feature; sensitive / control features are length-checked against X.")
    A = Analysis(ctx)
    fq = M_IV + ":_validate_and_reformat_input"
    r = A.run(fq)
    P = r.params
    raises = [e for e in r.events if e.kind == "raise"]
    ctx.floor("R20.4", "raise statements in the shared validator", len(raises), 6)
    np_ = {"np": glob("numpy")}
    ya = A.entry(r, "np.asarray(y)", np_)
    env = {"ya": ya, **np_}
    sf = A.entry(r, "kwargs.get(_KW_SENSITIVE_FEATURES)")
    specs = {
        "y is None": ["expect_y and y is None"],
        "empty y": ["expect_y and not (y is None) and ya.size == 0"],
        "y shape": ["expect_y and not (y is None) and not (ya.size == 0) and not (ya.ndim == 1 or (ya.ndim == 2 and ya.shape[1] == 1))"],
        "non-binary labels": ["expect_y and not (y is None) and not (ya.size == 0) and (ya.ndim == 1 or (ya.ndim == 2 and ya.shape[1] == 1))"
                              " and enforce_binary_labels and not set(np.unique(ya)).issubset(set([0, 1]))",
                              "expect_y and not (y is None) and not (ya.size == 0) and (ya.ndim == 1 or (ya.ndim == 2 and ya.shape[1] == 1))"
                              " and enforce_binary_labels and not set(np.unique(ya)).issubset({0, 1})",
                              "expect_y and not (y is None) and not (ya.size == 0) and (ya.ndim == 1 or (ya.ndim == 2 and ya.shape[1] == 1))"
                              " and enforce_binary_labels and not set(np.unique(ya)) <= {0, 1}",
                              "expect_y and not (y is None) and not (ya.size == 0) and (ya.ndim == 1 or (ya.ndim == 2 and ya.shape[1] == 1))"
                              " and enforce_binary_labels and not set(np.unique(ya)) <= set([0, 1])"],
    }
    found = {}
    for e in raises:
        c = A.C.canon(conj(e.pc))
        for name, alts in specs.items():
            for s in alts:
                if A.C.canon(A.entry(r, s, env)) is c:
                    found[name] = e
    for name in specs:
        e = found.get(name)
        ctx.ob("R20.4", fq, e.node if e else None, e is not None,
               f"'{name}' is rejected under exactly the documented condition" if e else
               f"no raise whose path condition equals the documented '{name}' condition "
               f"(present conditions: {[A.show(conj(x.pc), 120) for x in raises][:6]})", construct=f"guard: {name}")
    # X / y rows
    rows = [e for e in raises if any(l.op == "cmp" and l.args[0] == "!=" and all(
        contains(x, lambda s: s.op == "attr" and s.args[1] == "shape") for x in l.args[1:]) for l in pc_literals(e.pc))]
    ok = False
    for e in rows:
        lit = [l for l in pc_literals(e.pc) if l.op == "cmp" and l.args[0] == "!="][-1]
        a, b = lit.args[1], lit.args[2]
        yside = a if contains(a, lambda s: s is P["y"]) else b
        xside = b if yside is a else a
        ok = (contains(yside, lambda s: s is P["y"]) and contains(xside, lambda s: s is P["X"])
              and all(x.op == "sub" and x.args[1] is const(0) for x in (a, b)))
        # nothing else may guard the comparison except "a y was given"
        xchk = [x for x in r.events if x.kind == "call" and x.data.get("callee") == "sklearn.utils.validation.check_array"
                and x.data["args"] and x.data["args"][0] is P["X"]]
        base = set(pc_literals(xchk[0].pc)) if xchk else set()
        extra = [l for l in pc_literals(e.pc) if l not in base and l is not lit]
        ok = ok and all(l.op == "cmp" and l.args[0] == "is not" and l.args[2] is NONE and contains(l.args[1], lambda s: s is P["y"])
                        for l in extra)
    ctx.ob("R20.4", fq, rows[0].node if rows else None, ok, "X and y row counts are compared (shape[0] of each) and a "
           "mismatch raises", construct="guard: X/y rows")
    # missing sensitive feature
    miss = [e for e in raises if any(A.C.canon(conj(e.pc)) is A.C.canon(conj(
        [x for x in e.pc[:-k_]] + [mk("cmp", "is", sf, NONE), P["expect_sensitive_features"]])) for k_ in (1, 2) if len(e.pc) >= k_)
        or (len(e.pc) >= 2 and A.C.canon(e.pc[-1]) is P["expect_sensitive_features"]
            and A.C.canon(e.pc[-2]) is A.C.canon(mk("cmp", "is", sf, NONE)))]
    ctx.ob("R20.4", fq, miss[0].node if miss else None, bool(miss), "a missing sensitive feature raises exactly when one "
           "is expected", construct="guard: missing sensitive feature")
    # length checks of sensitive / control features against X, under `is not None`
    for key, nm in (("_KW_SENSITIVE_FEATURES", "sensitive"), ("_KW_CONTROL_FEATURES", "control")):
        f = A.entry(r, f"kwargs.get({key})")
        cc = [e for e in r.events if _is_ccl(e, P["X"], f)]
        ok = bool(cc) and all(A.C.canon(e.pc[-1]) is A.C.canon(mk("cmp", "is not", f, NONE)) for e in cc)
        ctx.ob("R20.4", fq, cc[0].node if cc else None, ok, f"the {nm} features are length-checked against X whenever "
               "they are given", construct=f"guard: {nm} length")
        # the check precedes every other use of the feature
        # (a call whose body is analysed in place - a nested helper, an inlined function - is not itself a use: its body is)
        uses = [e for e in r.events if e.kind == "call" and e.data.get("callee") != CCL and not e.data.get("inlined")
                and e.data["fterm"].op not in ("closure", "lam", "lambda")
                and any(a is f for a in e.data.get("args", ()))]
        ok2 = bool(cc) and all(cc[0].seq < u.seq for u in uses)
        ctx.ob("R20.4", fq, cc[0].node if cc else None, ok2, f"the {nm} length check precedes every other use",
               construct=f"guard: {nm} length first")


def r208_callers(ctx):
    ctx.rule("R20.8", "all six classification load_data methods and ThresholdOptimizer.fit validate with "
                      "enforce_binary_labels=True and pass the caller's y / sensitive features; ExponentiatedGradient and "
                      "GridSearch load (hence validate) the data before any training.")
    val = M_IV + ":_validate_and_reformat_input"
    A = Analysis(ctx, no_inline=[val, M_UP + ":UtilityParity.load_data", M_MOMENT + ":Moment.load_data"])
    n = 0
    targets = [(f"{M_UP}:{c}.load_data", f"{M_UP}:{c}") for c in
               ("DemographicParity", "TruePositiveRateParity", "FalsePositiveRateParity", "EqualizedOdds", "ErrorRateParity")]
    targets.append((M_ER + ":ErrorRate.load_data", M_ER + ":ErrorRate"))
    targets.append((M_TO + ":ThresholdOptimizer.fit", M_TO + ":ThresholdOptimizer"))
    for fq, cls in targets:
        r = A.run(fq, cls_ctx=cls)
        vs = calls_to(r, val)
        if not vs:
            ctx.ob("R20.8", fq, None, False, "the shared validator is not called", construct="validator call")
            continue
        n += 1
        v = vs[0]
        P = r.params
        ok = (kw(v, "enforce_binary_labels") is TRUE and arg(v, 0) is P["X"] and arg(v, 1, "y") is P["y"]
              and kw(v, "sensitive_features") is P["sensitive_features"])
        others = [e for e in r.events if e.kind in ("call", "store") and e.seq < v.seq and e.kind == "call"
                  and e.data["fterm"].op == "attr" and e.data["fterm"].args[1] in ("fit", "load_data")]
        ctx.ob("R20.8", fq, v.node, ok and not others, "validates the caller's X, y and sensitive features with "
               "enforce_binary_labels=True before any other work", construct="validator call (binary labels enforced)")
        if "control_features" in P:
            ctx.ob("R20.8", fq, v.node, kw(v, "control_features") is P["control_features"],
                   "the caller's control features are validated too", construct="validator call (control features)")
    ctx.floor("R20.8", "entry points calling the shared validator", n, 7)
    # EG / GridSearch: load_data dominates training
    A2 = Analysis(ctx, max_depth=5)
    for fq, cls in ((M_EG + ":ExponentiatedGradient.fit", M_EG + ":ExponentiatedGradient"),
                    (M_GS + ":GridSearch.fit", M_GS + ":GridSearch")):
        r = A2.run(fq, cls_ctx=cls)
        loads = [e for e in r.events if e.kind == "call" and e.data["fterm"].op == "attr"
                 and e.data["fterm"].args[1] == "load_data" and contains(e.data["fterm"].args[0], lambda s: s.op == "attr" and s.args[1] == "constraints")]
        trains = [e for e in r.events if e.kind == "call" and e.data["fterm"].op == "attr"
                  and e.data["fterm"].args[1] in ("fit",) and not e.data.get("resolved")]
        ok = bool(loads) and bool(trains) and all(dominates(loads[0], t) for t in trains)
        passes = bool(loads) and arg(loads[0], 0) is r.params["X"] and arg(loads[0], 1) is r.params["y"] and any(
            k == "**" and v is r.params["kwargs"] or (v.op == "dict") for k, v in loads[0].data["kwargs"])
        ctx.ob("R20.8", fq, loads[0].node if loads else None, ok and passes,
               f"constraints.load_data(X, y, **kwargs) dominates all {len(trains)} base-learner fit calls",
               construct="load_data dominates training")


# ----------------------------------------------------------------------------- ThresholdOptimizer


def r209_threshold_optimizer(ctx):
    ctx.rule("R20.9", "ThresholdOptimizer.fit accepts exactly the documented (constraints, objective) pairs, refuses a "
                      "missing estimator and control features (exhaustive over the constant tables).")
    val = M_IV + ":_validate_and_reformat_input"
    A = Analysis(ctx, no_inline=[val])
    cls = M_TO + ":ThresholdOptimizer"
    r = A.run(cls + ".fit", cls_ctx=cls)
    v = calls_to(r, val)
    ctx.require(v, "ThresholdOptimizer.fit no longer calls the shared validator")
    pre = [e for e in r.events if e.kind == "raise" and e.seq < v[0].seq]
    simple = ["selection_rate_parity", "demographic_parity", "false_positive_rate_parity", "false_negative_rate_parity",
              "true_positive_rate_parity", "true_negative_rate_parity"]
    obj_simple = {"selection_rate", "true_positive_rate", "true_negative_rate", "accuracy_score", "balanced_accuracy_score"}
    obj_eo = {"accuracy_score", "balanced_accuracy_score"}
    all_obj = sorted(obj_simple | {"false_positive_rate", "false_negative_rate", "bogus"})
    S = r.self_term
    ctrl = A.entry(r, "kwargs.get(_KW_CONTROL_FEATURES)")
    bad = []
    n = 0
    try:
        for est in (None, "EST"):
            for cons in simple + ["equalized_odds", "bogus"]:
                for obj in all_obj:
                    for cf in (None, "CF"):
                        env = {mk("attr", S, "estimator"): est, mk("attr", S, "constraints"): cons,
                               mk("attr", S, "objective"): obj, ctrl: cf}
                        n += 1
                        got = any(pc_holds(e.pc, env) for e in pre)
                        want = not (est is not None and cf is None and (
                            (cons in simple and obj in obj_simple) or (cons == "equalized_odds" and obj in obj_eo)))
                        if got != want:
                            bad.append(f"estimator={est} constraints={cons} objective={obj} control={cf}: "
                                       f"{'rejected' if got else 'accepted'}, documented {'rejected' if want else 'accepted'}")
    except (Unmodelled, Raised) as ex:
        ctx.ob("R20.9", r.func, None, None, f"guard not modelled: {ex}", construct="constraint/objective table")
        return
    ctx.exhaustive_spaces.append(f"ThresholdOptimizer.fit argument guards: {n} cells")
    ctx.ob("R20.9", r.func, None, not bad, f"accepted region equals the documented table on all {n} cells" if not bad
           else "; ".join(bad[:3]), construct="constraint/objective/estimator/control table")
    # all those guards precede fitting the wrapped estimator
    fits = [e for e in r.events if e.kind == "call" and e.data["fterm"].op == "attr" and e.data["fterm"].args[1] == "fit"]
    ok = bool(fits) and all(v[0].seq < f.seq for f in fits)
    ctx.ob("R20.9", r.func, v[0].node, ok, "input validation precedes fitting the wrapped estimator",
           construct="validation precedes estimator fit")


def r2010_degenerate(ctx):
    ctx.rule("R20.10", "the per-group degenerate-label guard accepts exactly n_positive > 0 and n_negative > 0 and "
                       "dominates the threshold sweep")
    A = Analysis(ctx, no_inline=[M_TC + ":_get_scores_labels_and_counts"])
    fq = M_TC + ":_calculate_tradeoff_points"
    r = A.run(fq)
    cnt = calls_to(r, M_TC + ":_get_scores_labels_and_counts")
    ctx.require(cnt, "anchor vanished: _get_scores_labels_and_counts call")
    res = cnt[0].data["result"]
    npos, nneg = mk("sub", res, const(3)), mk("sub", res, const(4))
    raises = [e for e in r.events if e.kind == "raise" and e.func == fq]
    bad = []
    try:
        for p in (0, 3):
            for q in (0, 2):
                env = {npos: p, nneg: q}
                got = any(pc_holds(e.pc, env) for e in raises)
                want = not (p > 0 and q > 0)
                if got != want:
                    bad.append(f"n_positive={p}, n_negative={q}: {'rejected' if got else 'accepted'}")
    except (Unmodelled, Raised) as ex:
        ctx.ob("R20.10", fq, None, None, f"guard not modelled: {ex}", construct="degenerate guard")
        return
    ctx.exhaustive_spaces.append("degenerate-label guard: 4 cells of (n_positive, n_negative) in {0, >0}^2")
    ctx.ob("R20.10", fq, raises[0].node if raises else None, not bad, "a group lacking one of the two labels is rejected, "
           "other groups are accepted" if not bad else "; ".join(bad), construct="degenerate guard region")
    loops = [e for e in r.events if e.kind == "loop" and e.func == fq]
    ok = bool(raises) and bool(loops) and all(raises[0].seq < l.seq for l in loops) and not raises[0].loops
    ctx.ob("R20.10", fq, raises[0].node if raises else None, ok, "the guard precedes the threshold sweep",
           construct="degenerate guard precedes sweep")
    # counts: n_positive = sum(labels), n_negative = n - n_positive
    rc = A.run(M_TC + ":_get_counts")
    lab = rc.params["labels"]
    want = A.C.canon(A.entry(rc, "(len(labels), sum(labels), len(labels) - sum(labels))"))
    ctx.ob("R20.10", rc.func, None, A.C.canon(rc.ret) is want, "(n, n_positive, n_negative) = (len, sum, len - sum) of the "
           "0/1 labels", construct="label counts")


# ----------------------------------------------------------------------------- parameter regions


def r2011_regions(ctx):
    ctx.rule("R20.11", "parameter regions accepted by the constructors equal the documented ones (exhaustive over order "
                       "cells): ErrorRate costs = dict with exactly keys fp, fn, both >= 0, sum > 0; GridSearch constraints "
                       "is a Moment, known selection rule, constraint_weight in [0,1]. (UtilityParity bounds: C06 R06.2.)")
    from .c06 import utility_parity_ctor_table
    utility_parity_ctor_table(ctx, "R20.11")
    A = Analysis(ctx)
    cls = M_ER + ":ErrorRate"
    r = A.run(cls + ".__init__", cls_ctx=cls)
    c = r.params["costs"]
    cells = [None, {}, {"fp": 1.0}, {"fn": 1.0}, {"fp": 1.0, "fn": 1.0}, {"fp": 0.0, "fn": 0.0}, {"fp": -1.0, "fn": 2.0},
             {"fp": 2.0, "fn": -1.0}, {"fp": 0.0, "fn": 1.0}, {"fp": 1.0, "fn": 0.0}, {"fp": 1.0, "fn": 1.0, "x": 0.0},
             [1.0, 1.0], "costs", 3.0, {"fp": float("nan"), "fn": 1.0}, {"fp": 1.0, "fn": float("nan")},
             {"fp": float("-inf"), "fn": float("inf")}]
    bad = []
    for v in cells:
        env = {c: v}
        try:
            raised = any(e.kind == "raise" and pc_holds(e.pc, env) for e in r.events)
            got = "raise" if raised else (concrete(r.final.heap[(r.self_term, "fp_cost")], env),
                                          concrete(r.final.heap[(r.self_term, "fn_cost")], env))
        except Raised:
            got = "raise"
        except (Unmodelled, KeyError) as ex:
            ctx.ob("R20.11", r.func, None, None, f"cost guard not modelled: {ex}", construct="ErrorRate costs region")
            bad = None
            break
        if v is None:
            want = (1.0, 1.0)
        elif isinstance(v, dict) and set(v) == {"fp", "fn"} and v["fp"] >= 0 and v["fn"] >= 0 and v["fp"] + v["fn"] > 0:
            want = (v["fp"], v["fn"])
        else:
            want = "raise"
        if got != want:
            bad.append(f"costs={v!r}: {got}, documented {want}")
    if bad is not None:
        ctx.exhaustive_spaces.append(f"ErrorRate.__init__ costs: {len(cells)} cells")
        ctx.ob("R20.11", r.func, None, not bad, f"ErrorRate costs region equals the documented one on {len(cells)} cells"
               if not bad else "; ".join(bad[:3]), construct="ErrorRate costs region")
    # GridSearch
    cls = M_GS + ":GridSearch"
    r = A.run(cls + ".__init__", cls_ctx=cls)
    P = r.params
    is_moment = None
    for e in r.events:
        if e.kind == "branch" and contains(e.data["cond"], lambda s: s.op == "call" and s.args[0] is glob("builtins.isinstance")
                                           and s.args[1] and s.args[1][0] is P["constraints"]):
            for s in subterms(e.data["cond"]):
                if s.op == "call" and s.args[0] is glob("builtins.isinstance") and s.args[1][0] is P["constraints"]:
                    is_moment = s
    ctx.require(is_moment is not None, "GridSearch.__init__: isinstance test of constraints not found")
    ok_cls = is_moment.args[1][1] is glob(M_MOMENT + ":Moment")
    ctx.ob("R20.11", r.func, None, ok_cls, "constraints is tested against the Moment base class", construct="constraints type test")
    rule_default = A.ev.eval_src("TRADEOFF_OPTIMIZATION", {}, module=M_GS)
    bad = []
    n = 0
    try:
        for mom in (True, False):
            for sel in (const_value(rule_default), "other"):
                for w in (-0.5, 0.0, 0.3, 1.0, 1.5, float("nan"), float("inf")):   # `0.0 <= nan <= 1.0` is False: rejected
                    env = {is_moment: mom, P["selection_rule"]: sel, P["constraint_weight"]: w}
                    n += 1
                    got = any(e.kind == "raise" and pc_holds(e.pc, env) for e in r.events)
                    want = not (mom and sel == const_value(rule_default) and 0.0 <= w <= 1.0)
                    if got != want:
                        bad.append(f"moment={mom} rule={sel} weight={w}: {'rejected' if got else 'accepted'}")
    except (Unmodelled, Raised) as ex:
        ctx.ob("R20.11", r.func, None, None, f"GridSearch guard not modelled: {ex}", construct="GridSearch ctor region")
        return
    ctx.exhaustive_spaces.append(f"GridSearch.__init__ guards: {n} cells")
    ctx.ob("R20.11", r.func, None, not bad, f"GridSearch constructor region equals the documented one on {n} cells"
           if not bad else "; ".join(bad[:3]), construct="GridSearch ctor region")


# ----------------------------------------------------------------------------- fitted checks


def r2014_fitted_checks(ctx):
    ctx.rule("R20.14", "every public predict-type method of an estimator performs a fitted-check on self that dominates "
                       "all reads of fitted state (so prediction before fit raises NotFittedError)")
    prog = ctx.prog
    A = Analysis(ctx, max_depth=5)
    n = 0
    public = public_classes(prog)
    for cls in estimator_classes(prog):
        is_public = cls in public
        if not is_public and ctx.tier != "thorough":
            continue
        cfg = config_attrs(prog, A.ev, cls)
        for m in PREDICT_METHODS:
            if m.startswith("_") and m not in ("_pmf_predict",):
                continue
            fi = prog.lookup_method(cls, m)
            if fi is None or fi.cls not in prog.classes:
                continue
            r = A.run(fi.fq, cls_ctx=cls)
            checks = [e for e in r.events if e.kind == "call" and e.data.get("callee") == CIF and e.data["args"]
                      and e.data["args"][0] is r.self_term]
            reads = [e for e in r.events if e.kind == "read" and e.data["obj"] is r.self_term
                     and e.data["attr"] not in cfg]
            n += 1
            if not reads and not checks:
                ctx.ob("R20.14", fi.fq, None, True, f"{cls.split(':')[1]}.{m} reads no fitted state", construct=f"{cls.split(':')[1]}.{m}",
                       nontrivial=False)
                continue
            ok = bool(checks) and all(any(dominates(c, rd) for c in checks) for rd in reads)
            first = reads[0] if reads else None
            if not ok and not is_public:
                msg = (f"NOTE (class not exported from a public namespace; outside the property's subjects) R20.14 "
                       f"{fi.fq}: no dominating check_is_fitted(self)")
                ctx.note(msg)
                print(msg)
                continue
            ctx.ob("R20.14", fi.fq, (checks[0].node if checks else (first.node if first else None)), ok,
                   f"{cls.split(':')[1]}.{m}: check_is_fitted(self) dominates all {len(reads)} reads of fitted state" if ok else
                   f"{cls.split(':')[1]}.{m} reads fitted attribute '{first.data['attr'] if first else '?'}' on a path without a "
                   "preceding check_is_fitted(self)", construct=f"{cls.split(':')[1]}.{m} fitted-check")
    ctx.floor("R20.14", "predict-type methods inspected", n, 9)


def r2015_correlation_remover(ctx):
    ctx.rule("R20.15", "CorrelationRemover.fit rejects sensitive feature ids that are not columns of X before doing any work: "
                       "the missing-column test ranges over all configured ids and a non-empty result raises")
    A = Analysis(ctx)
    cls = M_CR + ":CorrelationRemover"
    r = A.run(cls + ".fit", cls_ctx=cls)
    chk = [e for e in r.events if e.kind == "call" and e.data.get("callee") == cls + "._check_sensitive_features_in_X"]
    work = [e for e in r.events if e.kind == "call" and e.data.get("callee") in (cls + "._split_X", "numpy.linalg.lstsq")]
    ok = len(chk) == 1 and arg(chk[0], 0) is r.params["X"] and not chk[0].pc and all(chk[0].seq < w.seq for w in work) and bool(work)
    ctx.ob("R20.15", r.func, chk[0].node if chk else None, ok, "the missing-column check is the first, unconditional step of fit",
           construct="CorrelationRemover check first")
    rc = A.run(cls + "._check_sensitive_features_in_X", cls_ctx=cls)
    X = rc.params["X"]
    raises = [e for e in rc.events if e.kind == "raise" and e.func == rc.func]
    ok = len(raises) == 1
    if ok:
        e = raises[0]
        lit = A.C.canon(e.pc[-1])
        miss_df = A.entry(rc, "[c for c in self.sensitive_feature_ids if c not in X.columns]")
        ok = lit.op == "cmp" and lit.args[0] == "<" and lit.args[1] is const(0) and lit.args[2].op == "fn" and lit.args[2].args[0] == "len"
        m = lit.args[2].args[1] if ok else None
        if not ok and lit.op == "cmp" and lit.args[0] == "!=":   # len(missing) != 0 (a length is never negative)
            for x_, y_ in ((lit.args[1], lit.args[2]), (lit.args[2], lit.args[1])):
                if x_ is A.C.canon(const(0)) and y_.op == "fn" and y_.args[0] == "len":
                    ok, m = True, y_.args[1]
        if not ok and lit.op in ("comp", "ite", "list", "assume") and contains(lit, lambda s: s.op == "comp"):
            ok, m = True, lit   # `if missing_columns:` - a list is true exactly when it is not empty
        if ok:
            ok = contains(m, lambda s: s is A.C.canon(miss_df))
            # ndarray branch: ids not in range(n columns)
            ok = ok and contains(m, lambda s: s.op == "comp" and contains(s, lambda q: q.op == "fn" and q.args[0] == "range"))
    ctx.ob("R20.15", rc.func, raises[0].node if raises else None, ok, "ids missing from X.columns (or outside range(n_columns) "
           "for arrays) raise", construct="CorrelationRemover missing columns")
