"""C10 - randomised predictors sample from the pmf they report (structural clauses)."""
from __future__ import annotations

from ..terms import FALSE, NONE, TRUE, T, conj, const, const_value, contains, glob, mk, root_of, show, subterms
from .common import M_EG, M_IT, M_TC, M_TO, M_TOP, Analysis, arg, calls_to, dominates, kw, pc_literals, stores_attr

EG = M_EG + ":ExponentiatedGradient"
IT = M_IT + ":InterpolatedThresholder"
TO = M_TO + ":ThresholdOptimizer"
CRS = "sklearn.utils.validation.check_random_state"


def check(ctx):
    ctx.rule("R10.1", "both _pmf_predict implementations return the two columns [1 - p, p] (rows sum to one by "
                      "construction); for ExponentiatedGradient p = pred[weights_.index] . weights_ (columns selected by the "
                      "weights' own index before the dot product) and pred[t] is the t-th stored predictor's output")
    ctx.rule("R10.2", "predict returns 1*(p >= U) (or an equivalent orientation) with p the second pmf column and U = "
                      "random_state.rand(len(p)) from check_random_state(random_state); no other randomness source")
    ctx.rule("R10.3", "in the regression branch the value vector and the probability vector handed to random_state.choice "
                      "are ordered by the same index")
    ctx.guard(r101, ctx)
    ctx.guard(r102, ctx)
    ctx.guard(r102_delegation, ctx)
    from .c04 import r044_thresholder
    ctx.rule("R10.6", "the thresholder's probability of a row is p_ignore*c + (1 - p_ignore)*(p0*op0(s) + p1*op1(s)) of the row's own "
                      "group, assigned through a mask (shared with C04 R04.4): it depends only on the row's score and group")
    ctx.guard(r044_thresholder, ctx, "R10.6")
    ctx.guard(r103, ctx)
    ctx.guard(_shared_c10, ctx)
    # what the pmf is computed from: the stored classifiers' own predictions on this X (no cache across calls), the score of the
    # configured predict_method, and sensitive-feature keys built by the same merge test at fit and predict time
    ctx.rule("R10.7", "ExponentiatedGradient's stored hypotheses evaluate the classifier on the X they are given (shared with C08 R08.13); "
                      "ThresholdOptimizer wires estimator, table, prefit and predict_method into the thresholder (shared with C04 R04.8); "
                      "multi-column sensitive features are merged under one test at fit and predict time (shared with C13 R13.3)")
    from .c08 import r0813_callable
    from .c04 import r048_wiring
    from .c13 import r133_merge_test
    ctx.aliased({"R08.13": "R10.7"}, r0813_callable, ctx)
    ctx.guard(r048_wiring, ctx, "R10.7")
    ctx.guard(r133_merge_test, ctx, "R10.7")

def _is_complement_pair(A, t: T):
    """t is [1 - p, p] in one of the accepted container spellings; returns p or None."""
    c = t
    # strip transpose / T
    if c.op == "call" and c.args[0].op == "attr" and c.args[0].args[1] in ("transpose",):
        c = c.args[0].args[0]
    if c.op == "attr" and c.args[1] == "T":
        c = c.args[0]
    transposed = c is not t
    if c.op == "call" and c.args[0].op == "global" and c.args[0].args[0] in ("numpy.array", "numpy.concatenate", "numpy.column_stack",
                                                                             "numpy.vstack", "numpy.hstack", "numpy.stack") and c.args[1]:
        fn = c.args[0].args[0]
        axis = dict(c.args[2]).get("axis")
        if axis is None and fn in ("numpy.concatenate", "numpy.stack") and len(c.args[1]) > 1:
            axis = c.args[1][1]  # axis passed by position
        # the two columns must be laid side by side: concatenate/stack of column vectors along axis 1, column_stack/hstack,
        # or rows (array / vstack / stack along 0) that are then transposed
        if fn in ("numpy.concatenate", "numpy.stack") and not transposed and axis is not const(1):
            return None
        if fn in ("numpy.array", "numpy.vstack") and not transposed:
            return None
        if fn in ("numpy.concatenate", "numpy.stack") and transposed and axis is not None and axis is not const(0):
            return None
        items = c.args[1][0]
        if items.op in ("list", "tuple") and len(items.args[0]) == 2:
            a, b = items.args[0]
            one_minus = A.spec("1 - p", {"p": b})
            if A.eq(a, one_minus):
                return b
    return None


def r101(ctx):
    A = Analysis(ctx, no_inline=[M_IT.replace("_interpolated_thresholder", "") + "x"], max_depth=2)
    r = A.run(EG + "._pmf_predict", cls_ctx=EG)
    ret = A.C.canon(r.ret) if r.ret is not None else None
    # classification branch
    cls_br = None
    raw = r.ret
    while raw.op == "assume":
        raw = raw.args[1]
    if raw.op == "ite":
        is_cls = A.entry(r, "isinstance(self.constraints, ClassificationMoment)")
        if A.eq(raw.args[0], is_cls):
            cls_br, reg_br = raw.args[1], raw.args[2]
    ctx.ob("R10.1", r.func, None, cls_br is not None, "the pmf is returned for classification moments, the raw predictor "
           "outputs otherwise", construct="EG pmf dispatch")
    if cls_br is not None:
        p = _is_complement_pair(A, cls_br)
        ok = p is not None
        ctx.ob("R10.1", r.func, None, ok, "ExponentiatedGradient._pmf_predict returns [1 - p, p]", construct="EG pmf complement")
        if ok:
            pred = reg_br
            b = {"pred": pred}
            specs = [A.entry(r, s, b) for s in ("pred[self.weights_.index].dot(self.weights_).to_frame()",
                                                "pred[self.weights_.index].dot(self.weights_)",
                                                "pred.dot(self.weights_[pred.columns]).to_frame()")]
            okp = any(A.C.canon(p) is A.C.canon(s) for s in specs)
            ctx.ob("R10.1", r.func, None, okp, "p = pred[weights_.index] . weights_ (columns aligned with the weights by "
                   "predictor id)" if okp else f"p = {A.show(p, 200)} does not align the prediction columns with weights_",
                   construct="EG mixture alignment")
    # pred[t] = h_t(X) (zeros when the weight is zero)
    st = [e for e in r.events if e.kind == "store" and e.data.get("tkind") == "sub" and e.loops and e.func == r.func]
    ctx.floor("R10.1", "per-predictor column stores", len(st), 1)
    lev = [x for x in r.events if x.kind == "loop" and x.func == r.func][0]
    tvar = lev.data["elem"]
    ok = A.eq(lev.data["iter"], A.entry(r, "range(len(self._hs))")) and all(e.data["key"] is tvar for e in st)
    # (value, guards) of every way a column is written: a store under an if / else, or one store of a conditional expression
    writes = []
    for e in st:
        g0 = [A.C.canon(l) for l in pc_literals(e.pc) if l.op != "inloop"]
        v0 = A.C.canon(e.data["value"])
        if v0.op == "ite":
            writes.append((v0.args[1], g0 + [v0.args[0]]))
            writes.append((v0.args[2], g0 + [A.C._not(v0.args[0])]))
        else:
            writes.append((v0, g0))
    vals = {v for v, _ in writes}
    want_h = A.C.canon(A.entry(r, "self._hs[T](X)", {"T": tvar}))
    ok = ok and want_h in vals and all(v is want_h or (v.op == "fn" and v.args[0] == "zeros") for v in vals)
    zero_guard = True
    w_zero = A.C.canon(A.entry(r, "self.weights_[T] == 0", {"T": tvar}))
    for v, g in writes:
        if v is not want_h:
            zero_guard = zero_guard and any(l is w_zero for l in g)
    # every iteration stores the column: one unconditional store, or two stores under complementary guards
    guards = [g for _, g in writes]
    covered = (len(writes) == 1 and not guards[0]) or (len(writes) == 2 and len(guards[0]) == 1 and len(guards[1]) == 1
                                                       and A.C.canon(guards[0][0]) is A.C._not(A.C.canon(guards[1][0])))
    ctx.ob("R10.1", r.func, st[0].node, ok and zero_guard and covered, "column t of pred is the t-th stored predictor's output "
           "(zeros only where its weight is 0) and is stored on every path", construct="EG pred columns")
    # thresholder
    A2 = Analysis(ctx, max_depth=1)
    r2 = A2.run(IT + "._pmf_predict", cls_ctx=IT)
    p = _is_complement_pair(A2, r2.ret) if r2.ret is not None else None
    ctx.ob("R10.1", r2.func, None, p is not None, "InterpolatedThresholder._pmf_predict returns [1 - p, p]",
           construct="thresholder pmf complement")


def _bernoulli(ctx, A, r, rule, what, pmf_callee):
    """predict's classification return is 1*(p >= U)."""
    fq = r.func
    crs = [e for e in r.events if e.kind == "call" and e.data.get("callee") == CRS]
    ok = len(crs) == 1 and arg(crs[0], 0) is r.params["random_state"]
    ctx.ob(rule, fq, crs[0].node if crs else None, ok, "the generator is check_random_state(random_state)",
           construct=f"{what}: random state")
    if not ok:
        return
    rs = crs[0].data["result"]
    pm = calls_to(r, pmf_callee)
    if not pm:
        ctx.ob(rule, fq, None, None, "the pmf call was not found", construct=f"{what}: pmf call")
        return
    pmf = pm[0].data["result"]
    p = mk("sub", pmf, mk("tuple", (mk("slice", NONE, NONE, NONE), const(1))))
    b = {"p": p, "rs": rs}
    forms = []
    for u in ("rs.rand(len(p))", "rs.random_sample(len(p))", "rs.random(len(p))", "rs.uniform(size=len(p))"):
        for c in ("(p >= {u})", "(p > {u})", "({u} <= p)", "({u} < p)"):
            for w in ("{c} * 1", "1 * {c}", "{c}.astype(int)"):
                forms.append(w.format(c=c.format(u=u)))
    forms.append("rs.binomial(1, p)")
    specs = [A.spec(f, {**b, "len": glob("builtins.len")}) for f in forms]
    return p, specs, rs


def r102(ctx):
    A = Analysis(ctx, no_inline=[EG + "._pmf_predict", IT + "._pmf_predict"], max_depth=2)
    for cls, what in ((EG, "ExponentiatedGradient"), (IT, "InterpolatedThresholder")):
        r = A.run(cls + ".predict", cls_ctx=cls)
        out = _bernoulli(ctx, A, r, "R10.2", what, cls + "._pmf_predict")
        if out is None:
            continue
        p, specs, rs = out
        ret = r.ret
        while ret.op == "assume":
            ret = ret.args[1]
        val = ret
        if cls == EG:
            is_cls = A.entry(r, "isinstance(self.constraints, ClassificationMoment)")
            if ret.op == "ite" and A.eq(ret.args[0], is_cls):
                val = ret.args[1]
            else:
                ctx.ob("R10.2", r.func, None, False, "predict does not dispatch on the moment type", construct=f"{what}: dispatch")
                continue
        ok = A.any_eq(val, specs)
        ctx.ob("R10.2", r.func, None, ok, f"{what}.predict = 1*(p >= U) with p the second pmf column and U uniform from the "
               "seeded generator" if ok else f"{what}.predict returns {A.show(val, 220)}", construct=f"{what}: Bernoulli draw")
        # no other randomness source
        rnd = [e for e in r.events if e.kind == "call" and (str(e.data.get("callee", "")).startswith("numpy.random")
                                                           or str(e.data.get("callee", "")).startswith("random."))]
        ctx.ob("R10.2", r.func, rnd[0].node if rnd else None, not rnd, "no unseeded randomness source is used",
               construct=f"{what}: randomness sources")
        args_ok = all(arg(e, 0) is r.params["X"] for e in calls_to(r, cls + "._pmf_predict"))
        ctx.ob("R10.2", r.func, None, args_ok, "the pmf is evaluated on the query X", construct=f"{what}: pmf argument")


def r102_delegation(ctx):
    """ThresholdOptimizer.predict / _pmf_predict hand X, sensitive_features and the caller's random_state to the thresholder."""
    TO = M_TO + ":ThresholdOptimizer"
    A1 = Analysis(ctx, max_depth=1, inline=lambda f_, d_: False)
    for m, kws in (("predict", ("sensitive_features", "random_state")), ("_pmf_predict", ("sensitive_features",))):
        rp = A1.run(TO + "." + m, cls_ctx=TO)
        want = A1.entry(rp, f"self.interpolated_thresholder_.{m}(X, " + ", ".join(f"{k}={k}" for k in kws) + ")")
        okp = rp.ret is want
        ctx.ob("R10.2", rp.func, None, okp, f"ThresholdOptimizer.{m} delegates with X, " + ", ".join(kws) + " passed through" if okp else
               f"ThresholdOptimizer.{m} returns {show(rp.ret, maxdepth=4)[:120] if rp.ret is not None else '?'}: an argument (the seed) "
               "is not passed on, so predictions are not reproducible for a fixed random_state", construct=f"ThresholdOptimizer.{m} delegation")


def r103(ctx):
    A = Analysis(ctx, no_inline=[EG + "._pmf_predict"], max_depth=2)
    r = A.run(EG + ".predict", cls_ctx=EG)
    ch = [e for e in r.events if e.kind == "call" and e.data["fterm"].op == "attr" and e.data["fterm"].args[1] == "choice"]
    ctx.floor("R10.3", "random_state.choice calls in the regression branch", len(ch), 1)
    pm = calls_to(r, EG + "._pmf_predict")
    for e in ch:
        vals, p = arg(e, 0, "a"), kw(e, "p")
        if not e.loops:
            _vectorised_choice(ctx, A, r, e, pm)
            continue
        lev = [x for x in r.events if x.kind == "loop" and x.data.get("lid") == e.loops[-1]][0]
        i = lev.data["elem"]
        pred = None
        for c in pm:
            if contains(vals, lambda s: s is c.data["result"]):
                pred = c.data["result"]
        ok = False
        drawn = None
        why = "the value vector is not a row of the stored predictors' outputs"
        if pred is not None and p is not None:
            b = {"pred": pred, "I": i, "np": glob("numpy")}
            w = A.at(e, "self.weights_")
            b["w"] = w
            ok_pairs = [("pred.iloc[I, :]", "w[pred.columns]"), ("pred.iloc[I]", "w[pred.columns]"),
                        ("pred.iloc[I, :]", "w.loc[pred.columns]"), ("pred.iloc[I, :]", "w.reindex(pred.columns)"),
                        ("pred[w.index].iloc[I, :]", "w"), ("pred.loc[:, w.index].iloc[I, :]", "w"),
                        ("pred.iloc[I][w.index]", "w"), ("pred.iloc[I, :][w.index]", "w")]
            for vs, ps in ok_pairs:
                if A.eq(vals, A.spec(vs, b)) and A.eq(p, A.spec(ps, b)):
                    ok = True
            # the draw of a position: k = choice(len(S), p=w[S]) selects column k of pred[S] - values and probabilities are both
            # ordered by the same label list S (whatever S is: numpy rejects probabilities that do not sum to one)
            drawn = None
            cv = A.C.canon(vals)
            if not ok and cv.op == "fn" and cv.args[0] == "len" and len(cv.args) == 2 and vals.op == "call" and len(vals.args[1]) == 1:
                b["S"] = vals.args[1][0]
                if any(A.eq(p, A.spec(ps, b)) for ps in ("w[S]", "w.loc[S]", "w.reindex(S)")):
                    mats = [A.spec(m_, b) for m_ in ("pred[S].to_numpy()", "pred[S].values", "pred.loc[:, S].to_numpy()", "pred.loc[:, S].values",
                                                      "np.asarray(pred[S])")]
                    b["K"] = e.data["result"]
                    for x in r.events:
                        if x.kind == "store" and x.data.get("tkind") == "sub" and x.loops == e.loops and contains(x.data["value"], lambda s_: s_ is e.data["result"]):
                            for m_ in mats:
                                b["M"] = m_
                                if A.eq(x.data["value"], A.spec("M[I, K]", b)) or A.eq(x.data["value"], A.spec("M[I][K]", b)):
                                    drawn = x
                    ok = drawn is not None
            why = (f"choice(values={A.show(vals, 90)}, p={A.show(p, 90)}) pairs the i-th value with the i-th probability by "
                   "position although the two are ordered differently (columns by predictor id, weights by first use)")
        ctx.ob("R10.3", r.func, e.node, ok, "values and probabilities handed to choice() are ordered by the same index" if ok
               else why, construct="aligned choice")
        # one draw per row: the loop ranges over the rows of pred, the draw is stored at the row's position of an array
        # of that length, and that array is returned
        rows = A.spec("pred.shape[0]", {"pred": pred}) if pred is not None else None
        okr = rows is not None and any(A.eq(lev.data["iter"], A.spec(s_, {"n": rows, "pred": pred, "len": glob("builtins.len")}))
                                       for s_ in ("range(n)", "range(0, n)", "range(len(pred))"))
        sts = [x for x in r.events if x.kind == "store" and x.data.get("tkind") == "sub" and x.loops == e.loops
               and (x.data["value"] is e.data["result"] or (pred is not None and p is not None and x is drawn))]
        okr = okr and len(sts) == 1 and sts[0].data["key"] is i
        if okr:
            holder = root_of(sts[0].data["obj"])
            init = holder.args[2] if holder.op == "loopvar" else holder
            okr = init.op == "call" and init.args[0].op == "global" and init.args[0].args[0] in (
                "numpy.zeros", "numpy.empty", "numpy.ones", "numpy.full") and bool(init.args[1]) and (
                A.eq(init.args[1][0], rows) or A.eq(init.args[1][0], A.spec("len(pred)", {"pred": pred, "len": glob("builtins.len")})))
            reg = r.ret
            while reg.op == "assume":
                reg = reg.args[1]
            reg = reg.args[2] if reg.op == "ite" else reg
            okr = okr and reg.op == "loopout" and reg.args[2] is init
        ctx.ob("R10.3", r.func, e.node, bool(okr), "one value is drawn per row of pred, stored at that row's position of a "
               "result of the same length, and that result is returned", construct="one draw per row")
        rs = e.data["fterm"].args[0]
        ok2 = rs.op == "call" and rs.args[0] is glob(CRS)
        ctx.ob("R10.3", r.func, e.node, ok2, "choice() draws from the seeded generator", construct="choice generator")


def _vectorised_choice(ctx, A, r, e, pm):
    """All rows drawn by one call: k = choice(len(S), size=n_rows, p=D[S]) with D = weights_[pred.columns] as an array and S positions
    into it; the result gathers M[arange(n_rows), S[k]] with M = pred as an array: value column and probability are both the S[k]-th
    entry of the pred.columns order."""
    vals, p, size = arg(e, 0, "a"), kw(e, "p"), arg(e, 1, "size")
    pred = None
    for c in pm:
        if contains(p, lambda s: s is c.data["result"]) or (size is not None and contains(size, lambda s: s is c.data["result"])):
            pred = c.data["result"]
    ok = False
    okr = False
    if pred is not None and p is not None and size is not None and vals.op == "call" and len(vals.args[1]) == 1 \
            and A.C.canon(vals).op == "fn" and A.C.canon(vals).args[0] == "len":
        S = vals.args[1][0]
        b = {"pred": pred, "S": S, "w": A.at(e, "self.weights_"), "K": e.data["result"], "np": glob("numpy")}
        rows = [A.spec(s_, {**b, "len": glob("builtins.len")}) for s_ in ("pred.shape[0]", "len(pred)")]
        probs = [A.spec(s_, b) for s_ in ("w[pred.columns].to_numpy()[S]", "w[pred.columns].values[S]", "np.asarray(w[pred.columns])[S]",
                                           "w.loc[pred.columns].to_numpy()[S]")]
        ok = any(A.eq(p, x) for x in probs) and any(A.eq(size, x) for x in rows)
        # the gathered result
        mats = [A.spec(m_, b) for m_ in ("pred.to_numpy()", "pred.values", "np.asarray(pred)")]
        reg = r.ret
        while reg.op == "assume":
            reg = reg.args[1]
        alts = [reg.args[1], reg.args[2]] if reg.op == "ite" else [reg]
        for n_ in rows:
            for m_ in mats:
                g = A.spec("M[np.arange(N), S[K]]", {**b, "M": m_, "N": n_})
                for out in alts:
                    o_ = out
                    while o_.op == "assume":
                        o_ = o_.args[1]
                    # returned as is, or copied into a float vector of the same length (x = np.zeros(n); x[:] = gathered)
                    if A.eq(o_, g) or (o_.op == "upd" and o_.args[1].op == "slice" and all(z is NONE for z in o_.args[1].args)
                                       and A.eq(o_.args[2], g)):
                        okr = True
    ctx.ob("R10.3", r.func, e.node, ok if (ok or pred is not None) else None, "values and probabilities handed to choice() are ordered by "
           "the same index (positions into the pred.columns order)" if ok else f"choice(a={A.show(vals, 80)}, size=.., p={A.show(p, 80) if p is not None else '?'}) "
           "outside a row loop is not the recognised vectorised draw over pred.columns", construct="aligned choice")
    ctx.ob("R10.3", r.func, e.node, bool(okr), "one value is drawn per row of pred (size = number of rows) and the result gathers, for "
           "every row, the drawn predictor's output of that row" if okr else "the vectorised draw does not gather outputs[row, S[drawn]] "
           "for every row: the drawn position is not mapped back to the predictor's column", construct="one draw per row")
    rs = e.data["fterm"].args[0]
    ok2 = rs.op == "call" and rs.args[0] is glob(CRS)
    ctx.ob("R10.3", r.func, e.node, ok2, "choice() draws from the seeded generator", construct="choice generator")


def _shared_c10(ctx):
    """Life-cycle (history independence, pure prediction) and label-position clauses of the estimator(s) this property
    is about, shared with C19 R19.3/R19.4 and C12 R12.1 and reported under this property's rule ids."""
    from .c12 import label_sinks
    from .c19 import lifecycle_of
    ctx.rule("R10.4", "fit does not depend on state left by an earlier fit and prediction writes no state (shared with C19 R19.3 / R19.4)")
    lifecycle_of(ctx, [EG, IT, TO], {"R19.3": "R10.4", "R19.4": "R10.4", "R19.6": "R10.4", "R19.8": "R10.4"})
    ctx.rule("R10.5", "no caller-labelled pandas value reaches a label-aligning operation on the paths of this property (shared with C12 R12.1)")
    label_sinks(ctx, "R10.5", [(EG + ".predict", EG), (IT + ".predict", IT)])
