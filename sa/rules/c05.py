"""C05 - ThresholdOptimizer optimality on its grid (upper hull test, frequency weights, arg-max, EO count roles)."""
from __future__ import annotations

import ast

from ..terms import FALSE, NONE, TRUE, T, conj, const, const_value, contains, glob, mk, root_of, show, subterms
from .c04 import EXTEND, NP, TO, routines
from .common import M_TC, M_TO, Analysis, arg, calls_to, dominates, kw, pc_literals, stores_attr, zero_over_runtime


def check(ctx):
    ctx.rule("R05.1", "upper hull: the middle point r1 is dropped iff (r1.y-r0.y)(r2.x-r0.x) <= (r2.y-r0.y)(r1.x-r0.x) "
                      "(non-strict), applied to points sorted by (x, y); every point is pushed after the drops")
    ctx.rule("R05.2", "single-metric constraints: the overall curve accumulates (len(group)/n) * y of each group's "
                      "interpolated curve and the chosen index is its arg-max; equalized odds: counts fp = N- x, tn = N- "
                      "(1-x), tp = N+ y_min, fn = N+ (1-y_min) bound to the keywords of the same role, the objective is "
                      "METRIC_DICT[objective] of those counts and the index is its arg-max")
    ctx.rule("R05.3", "accepted (constraints, objective) tables: decided by C20 R20.9 (shared)")
    ctx.guard(r051, ctx)
    from .c04 import sweep_structure
    ctx.guard(sweep_structure, ctx, "R05.1")
    out = ctx.guard(routines, ctx, "C05") or {}
    if "simple" in out:
        ctx.guard(_simple, ctx, out["simple"])
    if "eo" in out:
        ctx.guard(_eo, ctx, out["eo"])
    from .c04 import r048_wiring
    ctx.guard(r048_wiring, ctx, "R05.6")
    from .c04 import r049_no_inplace
    ctx.guard(r049_no_inplace, ctx, "R05.7")
    ctx.guard(_shared_c05, ctx)

def r051(ctx):
    A = Analysis(ctx)
    fq = M_TC + ":_filter_points_to_get_convex_hull"
    r = A.run(fq)
    loops = [e for e in r.events if e.kind == "loop"]
    ctx.require(len(loops) >= 2, "anchor vanished: hull loops")
    outer = [l for l in loops if not l.loops][0]
    inner = [l for l in loops if l.loops][0]
    r2 = outer.data["elem"]
    ok = outer.data["iter"].op == "call" and outer.data["iter"].args[0].op == "attr" and outer.data["iter"].args[0].args[1] == "itertuples" \
        and outer.data["iter"].args[0].args[0] is r.params["points_sorted"]
    ctx.ob("R05.1", fq, outer.node, ok, "points are consumed in the given (sorted) order", construct="hull input order")
    br = [e for e in r.events if e.kind == "branch" and len(e.loops) == 2 and e.func == fq and isinstance(e.node, ast.If)]
    ctx.floor("R05.1", "drop tests in the hull loop", len(br), 1)
    e = br[0]
    pops_ = [x for x in r.events if x.kind == "call" and x.data["fterm"].op == "attr" and x.data["fterm"].args[1] == "pop" and len(x.loops) == 2]
    ctx.require(pops_, "anchor vanished: hull pop")
    sel = pops_[0].data["fterm"].args[0]
    b = {"r1": mk("sub", sel, const(-1)), "r0": mk("sub", sel, const(-2)), "r2": r2}
    want = A.C.canon(A.spec("(r1.y - r0.y) * (r2.x - r0.x) <= (r2.y - r0.y) * (r1.x - r0.x)", b))
    strict_ = A.C.canon(A.spec("(r1.y - r0.y) * (r2.x - r0.x) < (r2.y - r0.y) * (r1.x - r0.x)", b))
    pops = [x for x in r.events if x.kind == "call" and x.data["fterm"].op == "attr" and x.data["fterm"].args[1] == "pop" and len(x.loops) == 2]
    brk = [x for x in r.events if x.kind == "break" and len(x.loops) == 2]
    pop_cond = A.C.canon(pops[0].pc[-1]) if len(pops) == 1 and pops[0].pc else None
    brk_cond = A.C.canon(brk[0].pc[-1]) if len(brk) == 1 and brk[0].pc else None
    okc = pop_cond is want
    strict = pop_cond is strict_
    ctx.ob("R05.1", fq, e.node, okc, "r1 is dropped iff it lies on or below the chord r0-r2 (non-strict cross-product test)"
           if okc else ("the drop test is strict: collinear / duplicate points stay on the hull and the interpolation divides by "
                        "zero or loses optimality" if strict else f"r1 is dropped under {A.show(pops[0].pc[-1], 200) if pops and pops[0].pc else '?'}"),
           construct="hull drop test")
    ok = len(pops) == 1 and len(brk) == 1 and brk_cond is A.C._not(want)
    ctx.ob("R05.1", fq, pops[0].node if pops else None, ok, "a true test pops r1, a false test ends the inner loop",
           construct="hull pop/break")
    wc = inner.data["iter"]
    ok = A.C.canon(wc) is A.C.canon(A.spec("len(S) >= 2", {"S": sel, "len": glob("builtins.len")}))
    ctx.ob("R05.1", fq, inner.node, ok, "drops are attempted while at least two points are selected", construct="hull loop guard")
    apps = [x for x in r.events if x.kind == "call" and x.data["fterm"].op == "attr" and x.data["fterm"].args[1] == "append" and len(x.loops) == 1]
    ok = len(apps) == 1 and arg(apps[0], 0) is r2 and apps[0].seq > e.seq and len(apps[0].pc) == 1
    ctx.ob("R05.1", fq, apps[0].node if apps else None, ok, "every point is pushed exactly once after the drops",
           construct="hull push")
    # _tradeoff_curve = hull(points(data, ...)) with the arguments passed through
    A2 = Analysis(ctx, no_inline=[M_TC + ":_calculate_tradeoff_points", fq])
    rt = A2.run(M_TC + ":_tradeoff_curve")
    cp = calls_to(rt, M_TC + ":_calculate_tradeoff_points")
    hl = calls_to(rt, fq)
    P = rt.params
    ok = len(cp) == 1 and len(hl) == 1 and arg(hl[0], 0) is cp[0].data["result"] and rt.ret is hl[0].data["result"] \
        and arg(cp[0], 0) is P["data"] and arg(cp[0], 1) is P["sensitive_feature_value"] and kw(cp[0], "flip") is P["flip"] \
        and kw(cp[0], "x_metric") is P["x_metric"] and kw(cp[0], "y_metric") is P["y_metric"]
    ctx.ob("R05.1", rt.func, None, ok, "_tradeoff_curve = hull of the sorted trade-off points with flip / metrics passed "
           "through", construct="curve = hull(points)")
    fi = ctx.prog.functions[M_TC + ":_tradeoff_curve"]
    names = [a.arg for a in fi.node.args.args]
    dflt = dict(zip(names[len(names) - len(fi.node.args.defaults):], fi.node.args.defaults))
    ok = getattr(dflt.get("x_metric"), "value", None) == "false_positive_rate" and getattr(dflt.get("y_metric"), "value", None) == "true_positive_rate"
    ctx.ob("R05.1", rt.func, None, ok, "the default curve is the ROC curve (x = FPR, y = TPR)", construct="ROC defaults")


def _simple(ctx, d):
    A, r, ic, ib = d["A"], d["r"], d["ic"], d["ib"]
    fq = r.func
    L1 = d["L1"]
    acc = [e for e in r.events if e.kind == "store" and e.data.get("tkind") == "name" and e.loops == (L1.data["lid"],) and e.func == fq
           and e.data["value"].op == "binop" and e.data["value"].args[0] == "+"]
    ok = len(acc) == 1
    if ok:
        e = acc[0]
        grp = mk("sub", L1.data["elem"], const(1))
        old = e.data["value"].args[1]
        b = {"old": old, "g": grp, "n": A.at(e, "len(labels)"), "cy": mk("sub", ic.data["result"], const("y")), "len": glob("builtins.len")}
        ok = A.eq(e.data["value"], A.spec("old + (len(g) / n) * cy", b)) and old.op == "loopvar"
        init = old.args[2] if old.op == "loopvar" else None
        ok = ok and init is not None and (A.eq(init, A.spec("0 * grid", {"grid": d["grid"]})) or any(
            A.eq(init, A.spec(s_, {"grid": d["grid"], "np": glob("numpy"), "len": glob("builtins.len")}))
            for s_ in ("np.zeros_like(grid)", "np.zeros(len(grid))", "np.zeros(grid.shape)"))) and not zero_over_runtime(init)
        name = e.data["name"]
        ok = ok and A.eq(ib.data["value"].args[0].args[0], A.at(ib, name))
    ctx.ob("R05.2", fq, acc[0].node if acc else None, ok, "overall objective = sum over groups of (len(group)/n) * y_g(grid), "
           "starting from 0, and the chosen index is its arg-max" if ok else "the overall curve is not the frequency-weighted sum "
           "of the group curves (or the index is not its arg-max)", construct="simple: weighted objective")
    ok = ib.data["value"].args[0].args[1] in ("idxmax", "argmax")
    ctx.ob("R05.2", fq, ib.node, ok, "the index maximises the overall objective", construct="simple: argmax")


def _eo(ctx, d):
    A, r, ic, ib = d["A"], d["r"], d["ic"], d["ib"]
    fq = r.func
    ex = [e for e in r.events if e.kind == "call" and e.data.get("callee") == "sklearn.utils.Bunch" and not e.loops and e.func != fq]
    ex = [e for e in r.events if e.kind == "call" and e.data.get("callee") == EXTEND and e.func == fq]
    if len(ex) != 1:
        ctx.ob("R05.2", fq, None, None, f"expected one confusion-matrix construction in the EO routine (found {len(ex)})",
               construct="eo: counts")
        return
    e = ex[0]
    P = r.params
    # `labels` is the routine's parameter (the construction may sit in an extracted helper, where the name is not in scope)
    npos = mk("ite", A.entry(r, "isinstance(labels, pd.DataFrame)", NP), A.entry(r, "labels.sum().iloc[0]"), A.entry(r, "sum(labels)"))
    b = {"P": npos, "n": A.entry(r, "len(labels)"), "x": d["grid"], "ym": A.at(e, "self._y_min")}
    b["N"] = A.spec("n - P", b)
    want = {"false_positives": "N * x", "true_negatives": "N * (1.0 - x)", "true_positives": "P * ym", "false_negatives": "P * (1.0 - ym)"}
    k = dict(e.data["kwargs"])
    bad = [f for f, s in want.items() if f not in k or not A.eq(k[f], A.spec(s, b))]
    ctx.ob("R05.2", fq, e.node, not bad and set(k) == set(want), "overall counts: fp = N- x, tn = N- (1-x), tp = N+ y_min, fn = "
           "N+ (1-y_min) with N+ = number of positive labels, N- = n - N+" if not bad else f"count roles differ for {bad}",
           construct="eo: count roles")
    obj = ib.data["value"].args[0].args[0]
    co = A.C.canon(obj)
    md = A.ev.eval_src("METRIC_DICT", {}, module=M_TC)
    call = A.spec("M[o](c)", {"M": md, "o": A.at(ib, "self.objective"), "c": e.data["result"]})
    ok = contains(obj, lambda s: s is call) and A.eq(ib.data["value"].args[0].args[0], obj)
    rounded = obj.op == "call" and obj.args[0] is glob("numpy.around")
    if rounded:
        dec = obj.args[1][1] if len(obj.args[1]) > 1 else dict(obj.args[2]).get("decimals")
        fine = dec is not None and dec.op == "const" and isinstance(const_value(dec), int) and const_value(dec) >= 10
        ctx.ob("R05.2", fq, ib.node, fine, "the objective is rounded only to remove floating-point noise (>= 10 decimals)" if fine else
               "the objective is rounded coarsely before the arg-max: distinct objective values tie and the first, not the best, "
               "grid point is chosen", construct="eo: rounding precision")
    ok = ok and ib.data["value"].args[0].args[1] in ("idxmax", "argmax")
    ctx.ob("R05.2", fq, ib.node, ok, "the index maximises METRIC_DICT[objective] of those counts" + (" (rounded to 15 digits)" if rounded else ""),
           construct="eo: objective argmax")


def _shared_c05(ctx):
    """Life-cycle (history independence, pure prediction) and label-position clauses of the estimator(s) this property
    is about, shared with C19 R19.3/R19.4 and C12 R12.1 and reported under this property's rule ids."""
    from .c12 import label_sinks
    from .c19 import lifecycle_of
    ctx.rule("R05.5", "fit does not depend on state left by an earlier fit and prediction writes no state (shared with C19 R19.3 / R19.4)")
    lifecycle_of(ctx, [TO], {"R19.3": "R05.5", "R19.4": "R05.5", "R19.6": "R05.5", "R19.8": "R05.5"})
    ctx.rule("R05.4", "no caller-labelled pandas value reaches a label-aligning operation on the paths of this property (shared with C12 R12.1)")
    label_sinks(ctx, "R05.4", [(TO + ".fit", TO)])
