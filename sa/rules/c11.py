"""C11 - sample weights mean multiplicity (structural clauses shared with C14 / C01 / C03).

Lemma: f(w) = <v, w> / sum(w) is homogeneous of degree 0 in w and <v, w>, sum(w) are additive in w, so giving a
row weight k equals k unit-weight copies, c*w gives the same value, and w = 1 equals omitting the weights.  The
confusion-matrix rates inherit the same law from sklearn's weighted confusion matrix (trusted).
"""
from __future__ import annotations

from . import c01, c03, c14


def check(ctx):
    ctx.rule("R11.1", "the four rate functions forward sample_weight unchanged to confusion_matrix(..., sample_weight=..., "
                      "normalize='true'); selection_rate / mean_prediction are dot(v, w)/sum(w) with w = ones(len(v)) when no "
                      "weights are given")
    ctx.guard(c14.r141_siblings, ctx, rule="R11.1")
    ctx.guard(c14.r145_formulas, ctx, rule="R11.1")
    ctx.guard(c01.r011_frame, ctx, "R11.2")
    ctx.guard(c01.r012_slicing, ctx, "R11.2")
    ctx.guard(c01.r015_param_routing, ctx, "R11.2")
    ctx.guard(c03.r031_wiring, ctx, "R11.2", only_weights=True)
    ctx.rule("R11.3", "scalar results for single weighted rows (shared with C14 R14.4)")
    ctx.guard(c14.r144_scalar, ctx, rule="R11.3")
    ctx.guard(c14.r146_pure, ctx, rule="R11.4")
    ctx.rule("R11.5", "the generated and derived metrics (make_derived_metric: *_difference, *_ratio, *_group_min, *_group_max) hand the "
                      "caller's sample parameters to the MetricFrame on every transform (shared with C03 R03.3)")
    ctx.aliased({"R03.3": "R11.5"}, c03.r033_generated, ctx)
