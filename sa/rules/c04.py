"""C04 - ThresholdOptimizer equalises the constrained metric (necessary structure of the parity argument).

C05 (optimality on the grid) shares the analysis of the two optimisation routines; its rules live in c05.py
and call into this module.
"""
from __future__ import annotations

import ast

from ..region import Raised, Unmodelled, concrete, pc_holds
from ..terms import FALSE, NONE, TRUE, T, conj, const, const_value, contains, glob, mk, root_of, show, subterms
from .common import (M_IT, M_IV, M_TC, M_TO, M_TOP, Analysis, arg, calls_to, dominates, kw, pc_literals, stores_attr,
                     zero_over_runtime)

TO = M_TO + ":ThresholdOptimizer"
IT = M_IT + ":InterpolatedThresholder"
TCURVE = M_TC + ":_tradeoff_curve"
INTERP = M_TC + ":_interpolate_curve"
EXTEND = M_TC + ":_extend_confusion_matrix"
REFORMAT = M_TO + ":_reformat_and_group_data"
SIMPLE = TO + "._threshold_optimization_for_simple_constraints"
EO = TO + "._threshold_optimization_for_equalized_odds"
NP = {"np": glob("numpy"), "pd": glob("pandas")}


def check(ctx):
    ctx.rule("R04.1", "in both optimisation routines the grid is defined once before the per-group loop and is the grid "
                      "argument of every _interpolate_curve call; the selected grid index is computed once after that loop "
                      "and is the only index used to pick each group's interpolation row (positional)")
    ctx.rule("R04.2", "interpolation: indices = searchsorted(x, grid, 'right') - 1 with the tie convention; p0 = (x[i+1] - "
                      "grid)/(x[i+1] - x[i]); p1 = 1 - p0; y = p0*y[i] + p1*y[i+1]; p0 is paired with the operation at i, p1 "
                      "with the operation at i+1")
    ctx.rule("R04.3", "equalized odds: y_min = min over groups (axis 1) of the interpolated y; y_best = y_min[i_best]; "
                      "p_ignore = (y - y_best)/(y - x) off the diagonal and 0 on it; prediction_constant = x_best")
    ctx.rule("R04.4", "thresholder: p = p_ignore*c + (1 - p_ignore)*(p0*op0(s) + p1*op1(s)) (no blend without p_ignore), "
                      "assigned to the rows of the group; initial probabilities 0")
    ctx.rule("R04.5", "every METRIC_DICT entry and the derived counts equal the definition of the metric they are keyed by; "
                      "in the threshold sweep the actual counts are (fp,tp,tn,fn) = (c0, c1, N- - c0, N+ - c1), the flipped "
                      "counts their complement, '>' is paired with the actual and '<' with the flipped counts, only '>' "
                      "without flip; ThresholdOperation implements '>' / '<' exactly")
    ctx.guard(routines, ctx, "C04")
    ctx.guard(r042_interpolation, ctx)
    ctx.guard(r044_thresholder, ctx)
    ctx.guard(r045_counts, ctx)
    ctx.guard(sweep_structure, ctx, "R04.5")
    ctx.guard(r048_wiring, ctx)
    ctx.guard(r049_no_inplace, ctx)
    ctx.guard(_shared_c04, ctx)

def _analysis(ctx):
    return Analysis(ctx, no_inline=[TCURVE, INTERP, REFORMAT, IT + ".__init__", IT + ".fit"], max_depth=2)


def routines(ctx, prop):
    """Shared structure of the two optimisation routines.  prop selects which obligations are emitted."""
    A = _analysis(ctx)
    out = {}
    for fq, kind in ((SIMPLE, "simple"), (EO, "eo")):
        r = A.run(fq, cls_ctx=TO)
        P = r.params
        grid_st = [e for e in stores_attr(r, "_x_grid") if e.func == fq]
        interp = calls_to(r, INTERP)
        curves = calls_to(r, TCURVE)
        ref = calls_to(r, REFORMAT)
        if len(grid_st) != 1 or len(interp) != 1 or len(curves) != 1 or len(ref) != 1:
            ctx.ob("R04.1" if prop == "C04" else "R05.2", fq, None, None, f"{kind}: expected one grid store, one _tradeoff_curve, "
                   f"one _interpolate_curve and one regrouping call (found {len(grid_st)}, {len(curves)}, {len(interp)}, {len(ref)})",
                   construct=f"{kind}: routine structure")
            continue
        g, ic, tc, rf = grid_st[0], interp[0], curves[0], ref[0]
        loops = {e.data.get("lid"): e for e in r.events if e.kind == "loop"}
        L1 = loops[ic.loops[0]]
        grid = A.at(ic, "self._x_grid")
        grule = "R04.1" if prop == "C04" else "R05.2"
        ok = not g.loops and g.seq < L1.seq and A.eq(g.data["value"], A.at(g, "np.linspace(0, 1, self.grid_size + 1)", NP)) \
            and not [c for c in g.pc if c.op != "assume"]
        ctx.ob(grule, fq, g.node, ok, f"{kind}: the grid is linspace(0, 1, grid_size + 1), (re)defined unconditionally by every "
               "fit before the group loop" if ok else f"{kind}: the grid is not unconditionally linspace(0, 1, grid_size + 1) "
               "in this fit (a stale grid of an earlier fit / another grid_size may be used)", construct=f"{kind}: grid definition")
        if prop == "C04":
            ok = arg(ic, 4, "x_grid") is g.data["value"] and len(ic.loops) == 1 and arg(ic, 0) is tc.data["result"] \
                and [const_value(x) for x in ic.data["args"][1:4]] == ["x", "y", "operation"]
            ctx.ob("R04.1", fq, ic.node, ok, f"{kind}: every group's hull is interpolated on that same grid (columns x, y, "
                   "operation)", construct=f"{kind}: common grid")
            ok = A.eq(L1.data["iter"], rf.data["result"]) and tuple(rf.data["args"][:3]) == (P["sensitive_features"], P["labels"], P["scores"])
            ctx.ob("R04.1", fq, L1.node, ok, f"{kind}: the loop ranges over the groups of (sensitive feature, labels, scores)",
                   construct=f"{kind}: group loop")
            key, grp = mk("sub", L1.data["elem"], const(0)), mk("sub", L1.data["elem"], const(1))
            ok = arg(tc, 0) is grp and arg(tc, 1) is key and A.eq(kw(tc, "flip"), A.at(tc, "self.flip"))
            if kind == "simple":
                ok = ok and A.eq(kw(tc, "x_metric"), A.at(tc, "self.x_metric_")) and A.eq(kw(tc, "y_metric"), A.at(tc, "self.y_metric_"))
            else:
                ok = ok and kw(tc, "x_metric") is None and kw(tc, "y_metric") is None
            ctx.ob("R04.1", fq, tc.node, ok, f"{kind}: each group's trade-off curve is computed from that group's rows with the "
                   "configured flip and metrics" + (" (ROC defaults)" if kind == "eo" else ""), construct=f"{kind}: curve call")
        # selected index
        idx_st = [e for e in r.events if e.kind == "store" and e.data.get("tkind") == "name" and e.func == fq and not e.loops
                  and e.data["value"].op == "call" and e.data["value"].args[0].op == "attr" and e.data["value"].args[0].args[1] in ("idxmax", "argmax", "idxmin", "argmin")]
        if len(idx_st) != 1:
            ctx.ob("R04.1" if prop == "C04" else "R05.2", fq, None, None, f"{kind}: expected one arg-max index after the loop "
                   f"(found {len(idx_st)})", construct=f"{kind}: best index")
            continue
        ib = idx_st[0]
        i_best = ib.data["value"]
        second = [l for l in loops.values() if l.seq > ib.seq and l.func == fq and not l.loops]
        row_sel = []
        for e in r.events:
            if e.kind == "store" and e.data.get("tkind") == "name" and e.loops and second and e.loops[0] == second[0].data["lid"] \
                    and e.data["value"].op == "sub" and e.data["value"].args[1] is i_best:
                row_sel.append(e)
        if prop == "C04":
            ok = ib.seq > L1.seq and bool(second) and len(row_sel) == 1
            if ok:
                v = row_sel[0].data["value"]
                it2 = second[0].data["iter"]
                over_items = A.eq(it2, A.at(second[0], "self._tradeoff_curve.items()"))
                # `for k in curves.keys(): curves[k]`  or  `for k, curve in curves.items(): curve`
                sfv = mk("sub", second[0].data["elem"], const(0)) if over_items else second[0].data["elem"]
                curve = mk("sub", second[0].data["elem"], const(1)) if over_items else A.at(row_sel[0], "self._tradeoff_curve[K]", {"K": sfv})
                forms = [mk("sub", mk("attr", curve, "iloc"), i_best),
                         mk("sub", mk("call", mk("attr", curve, "transpose"), (), ()), i_best),
                         mk("sub", mk("attr", curve, "T"), i_best), mk("sub", mk("attr", curve, "loc"), i_best)]
                ok = any(v is f for f in forms) and (over_items or A.eq(it2, A.at(second[0], "self._tradeoff_curve.keys()"))
                                                     or A.eq(it2, A.at(second[0], "self._tradeoff_curve")))
            ctx.ob("R04.1", fq, row_sel[0].node if row_sel else None, ok, f"{kind}: one grid index, computed after the loop, "
                   "selects the interpolation row of every group", construct=f"{kind}: common index")
            # stored per-group curve
            cs = [e for e in r.events if e.kind == "store" and e.data.get("tkind") == "sub" and isinstance(e.data.get("base_node"), ast.Attribute)
                  and e.data["base_node"].attr == "_tradeoff_curve" and e.func == fq]
            ok = len(cs) == 1 and cs[0].data["value"] is ic.data["result"]   # (a temporary holding the result is the same term)
            ctx.ob("R04.1", fq, cs[0].node if cs else None, ok, f"{kind}: the stored curve of a group is its interpolated hull",
                   construct=f"{kind}: stored curve")
            # Bunch fields
            bun = [e for e in r.events if e.kind == "call" and e.data.get("callee") == "sklearn.utils.Bunch" and e.loops and e.func == fq]
            ok = len(bun) == 1 and bool(row_sel)
            if ok:
                row = row_sel[0].data["value"]
                k = dict(bun[0].data["kwargs"])
                ok = all(k.get(f) is mk("attr", row, f) for f in ("p0", "operation0", "p1", "operation1"))
                if kind == "eo":
                    ok = ok and A.eq(k.get("prediction_constant"), A.at(bun[0], "self._x_best"))
                ds = [e for e in r.events if e.kind == "store" and e.data.get("tkind") == "sub" and e.data["value"] is bun[0].data["result"]]
                key_forms = (second[0].data["elem"], mk("sub", second[0].data["elem"], const(0)))   # `for k in ...` / `for k, v in ....items()`
                ok = ok and len(ds) == 1 and any(ds[0].data["key"] is kf for kf in key_forms)
            ctx.ob("R04.1", fq, bun[0].node if bun else None, ok, f"{kind}: the rule of a group is (p0, operation0, p1, "
                   "operation1) of the selected row, stored under the group's key", construct=f"{kind}: group rule")
            xb = [e for e in stores_attr(r, "_x_best") if e.func == fq]
            ok = len(xb) == 1 and xb[0].data["value"] is mk("sub", grid, i_best)
            ctx.ob("R04.1", fq, xb[0].node if xb else None, ok, f"{kind}: x_best is the grid value at the selected index",
                   construct=f"{kind}: x_best")
            # the thresholder is built from the fitted estimator and this table
            itc = [e for e in r.events if e.kind == "call" and e.data.get("constructs") == IT]
            ok = len(itc) == 1 and A.eq(arg(itc[0], 0), A.at(itc[0], "self.estimator_")) and kw(itc[0], "prefit") is TRUE \
                and A.eq(kw(itc[0], "predict_method"), A.at(itc[0], "self._predict_method"))
            ctx.ob("R04.1", fq, itc[0].node if itc else None, ok, f"{kind}: the returned thresholder wraps the fitted "
                   "estimator (prefit) with the same predict method and the table above", construct=f"{kind}: thresholder construction")
        out[kind] = dict(A=A, r=r, L1=L1, ic=ic, tc=tc, grid=grid, i_best=i_best, ib=ib, second=second, row_sel=row_sel)
    if prop == "C04" and "eo" in out:
        _r043(ctx, out["eo"])
    return out


def _r043(ctx, d):
    A, r, ic, i_best = d["A"], d["r"], d["ic"], d["i_best"]
    fq = r.func
    ym = [e for e in stores_attr(r, "_y_min") if e.func == fq]
    yv = [e for e in r.events if e.kind == "store" and e.data.get("tkind") == "sub" and e.loops and e.func == fq
          and isinstance(e.data.get("base_node"), ast.Name) and A.eq(e.data["value"], mk("sub", ic.data["result"], const("y")))]
    ok = len(yv) == 1 and yv[0].data["key"] is mk("sub", d["L1"].data["elem"], const(0))
    ctx.ob("R04.3", fq, yv[0].node if yv else None, ok, "column g of the y table is group g's interpolated y",
           construct="eo: y table")
    ok = len(ym) == 1
    if ok:
        v = A.C.canon(ym[0].data["value"])
        tbl = A.C.canon(A.at(ym[0], yv[0].data["base_node"].id)) if yv else None
        ok = v.op == "fn" and v.args[0] == "min" and v.args[1] is tbl and dict(v.args[-1]).get("axis") is const(1)
    ctx.ob("R04.3", fq, ym[0].node if ym else None, ok, "y_min is the row-wise minimum (axis 1) over the groups",
           construct="eo: y_min")
    yb = [e for e in stores_attr(r, "_y_best") if e.func == fq]
    ok = len(yb) == 1 and bool(ym) and yb[0].data["value"] is mk("sub", ym[0].data["value"], i_best)
    ctx.ob("R04.3", fq, yb[0].node if yb else None, ok, "y_best = y_min at the selected index", construct="eo: y_best")
    bun = [e for e in r.events if e.kind == "call" and e.data.get("callee") == "sklearn.utils.Bunch" and e.loops and e.func == fq]
    if bun and d["row_sel"]:
        row = d["row_sel"][0].data["value"]
        pi = dict(bun[0].data["kwargs"]).get("p_ignore")
        b = {"y": mk("attr", row, "y"), "x": mk("attr", row, "x"), "yb": A.at(bun[0], "self._y_best")}
        want = mk("ite", A.spec("y == x", b), const(0), A.spec("(y - yb) / (y - x)", b))
        ok = pi is not None and A.eq(pi, want)
        ctx.ob("R04.3", fq, bun[0].node, ok, "p_ignore = (y - y_best)/(y - x), and 0 on the diagonal y == x" if ok else
               f"p_ignore = {A.show(pi, 200) if pi is not None else None}", construct="eo: p_ignore")


def r042_interpolation(ctx):
    A = Analysis(ctx, no_inline=[M_TC + ":_get_interpolation_indices"])
    r = A.run(INTERP)
    P = r.params
    ix = calls_to(r, M_TC + ":_get_interpolation_indices")
    ctx.require(len(ix) == 1, "anchor vanished: _get_interpolation_indices call")
    I = ix[0].data["result"]
    b = {"X": A.entry(r, "data[x_col].values"), "Y": A.entry(r, "data[y_col].values"), "C": A.entry(r, "data[content_col].values"),
         "I": I, "G": P["x_grid"], **NP}
    ok = arg(ix[0], 0) is P["x_grid"] and A.eq(arg(ix[0], 1), b["X"])
    ctx.ob("R04.2", INTERP, ix[0].node, ok, "indices are computed for (grid, x values)", construct="index call")
    ret = r.ret
    ok = ret is not None and ret.op == "call" and ret.args[0] is glob("pandas.DataFrame") and ret.args[1] and ret.args[1][0].op == "dict"
    if not ok:
        ctx.ob("R04.2", INTERP, None, None, "the result is not a DataFrame built from a dict literal", construct="interpolation result")
        return
    d = {}
    for k, v in ret.args[1][0].args[0]:
        d[A.C.canon(k)] = v
    p0 = A.spec("(X[I + 1] - G) / (X[I + 1] - X[I])", b)
    b["p0"] = p0
    want = {
        A.C.canon(P["x_col"]): P["x_grid"],
        A.C.canon(P["y_col"]): A.spec("p0 * Y[I] + (1 - p0) * Y[I + 1]", b),
        A.C.canon(const("p0")): p0,
        A.C.canon(const("p1")): A.spec("1 - p0", b),
        A.C.canon(A.entry(r, "content_col + '0'")): A.spec("C[I]", b),
        A.C.canon(A.entry(r, "content_col + '1'")): A.spec("C[I + 1]", b),
    }
    bad = []
    for k, w in want.items():
        if k not in d:
            bad.append(f"column {A.C.show(k)} missing")
        elif not A.eq(d[k], w):
            bad.append(f"column {A.C.show(k)} = {A.show(d[k], 120)} (documented {A.show(w, 120)})")
    ctx.ob("R04.2", INTERP, None, not bad, "p0, p1, y and the paired operations match the linear interpolation between the "
           "hull points i and i+1" if not bad else "; ".join(bad[:3]), construct="interpolation formulas")
    ri = A.run(M_TC + ":_get_interpolation_indices")
    Pi = ri.params
    bi = {"g": Pi["x_grid"], "x": Pi["x_values"], **NP}
    ind0 = A.spec('np.searchsorted(x, g, side="right") - 1', bi)
    bi["i0"] = ind0
    want = mk("upd", ind0, A.spec("slice(1, None, None)", {"slice": glob("builtins.slice")}),
              A.spec("np.where(g[1:] == x[i0[1:]], i0[1:] - 1, i0[1:])", bi))
    want = mk("upd", ind0, mk("slice", const(1), NONE, NONE), A.spec("np.where(g[1:] == x[i0[1:]], i0[1:] - 1, i0[1:])", bi))
    ok = ri.ret is not None and A.eq(ri.ret, want)
    ctx.ob("R04.2", ri.func, None, ok, "indices = searchsorted(x, grid, 'right') - 1, decremented where the grid point equals "
           "the hull point (except the first)" if ok else f"indices = {A.show(ri.ret, 260)}", construct="interpolation indices")


def r044_thresholder(ctx, rule="R04.4"):
    val = M_IV + ":_validate_and_reformat_input"
    A = Analysis(ctx, no_inline=[val], max_depth=2)
    r = A.run(IT + "._pmf_predict", cls_ctx=IT)
    fq = r.func
    v = calls_to(r, val)
    ctx.require(len(v) == 1, "anchor vanished: validator call in _pmf_predict")
    s = mk("sub", v[0].data["result"], const(1))
    sf = mk("sub", v[0].data["result"], const(2))
    y_arg = kw(v[0], "y")
    ok = y_arg is not None and contains(y_arg, lambda t: t.op == "call" and str(t.args[0].args[0] if t.args[0].op == "global" else "").endswith(":_get_soft_predictions")) \
        or (y_arg is not None and contains(y_arg, lambda t: t.op == "attr" and t.args[1] == "estimator_"))
    ctx.ob(rule, fq, v[0].node, bool(ok), "the scores are the wrapped estimator's soft predictions on X", construct="scores source")
    # selecting a group's rows by multiplying with a 0/1 mask is not a masked assignment: 0 * inf is NaN
    acc = [e for e in r.events if e.kind == "store" and e.data.get("tkind") == "name" and e.loops and e.func == fq
           and e.data["value"].op == "binop" and e.data["value"].args[0] == "+" and any(
               x.op == "binop" and x.args[0] == "*" and any(y.op == "cmp" and y.args[0] == "==" for y in x.args[1:])
               for x in e.data["value"].args[1:])]
    if acc:
        ctx.ob(rule, fq, acc[0].node, False, "the rows of a group are selected by multiplying the probabilities with a 0/1 mask and "
               "adding: for an infinite score 0 * inf is NaN, so the row's probabilities are not a distribution (the masked "
               "assignment p[mask] = v[mask] is required)", construct="thresholder probability")
        return
    st = [e for e in r.events if e.kind == "store" and e.data.get("tkind") == "sub" and e.loops and e.func == fq]
    ctx.floor(rule, "masked assignments in _pmf_predict", len(st), 1)
    e = st[0]
    lev = [x for x in r.events if x.kind == "loop" and x.data.get("lid") == e.loops[-1]][0]
    a, interp = mk("sub", lev.data["elem"], const(0)), mk("sub", lev.data["elem"], const(1))
    b = {"s": s, "it": interp}
    base = A.spec("it.p0 * it.operation0(s) + it.p1 * it.operation1(s)", b)
    b["base"] = base
    blend = A.spec("it.p_ignore * it.prediction_constant + (1 - it.p_ignore) * base", b)
    want = mk("ite", A.spec('"p_ignore" in it', b), blend, base)
    val_ = e.data["value"]
    mask = e.data["key"]
    ok = val_.op == "sub" and val_.args[1] is mask and A.eq(val_.args[0], want)
    ctx.ob(rule, fq, e.node, ok, "p = p_ignore*c + (1 - p_ignore)*(p0*op0(s) + p1*op1(s)) when p_ignore is present, else "
           "p0*op0(s) + p1*op1(s)" if ok else f"group probabilities are {A.show(val_, 260)}", construct="thresholder probability")
    it_ = lev.data["iter"]
    okm = mask.op == "cmp" and mask.args[0] == "==" and {mask.args[1], mask.args[2]} == {sf, a} and it_.op == "call" and \
        it_.args[0].op == "attr" and it_.args[0].args[1] == "items" and A.eq(it_.args[0].args[0], A.entry(r, "self.interpolation_dict"))
    ctx.ob(rule, fq, e.node, okm, "a row gets the rule of the interpolation_dict key that equals its validated sensitive-feature "
           "value (no conversion on either side of the comparison)" if okm else f"rows are selected by {A.show(mask, 120)}, not by "
           "equality of the validated sensitive feature with the interpolation_dict key", construct="thresholder row selection")
    init = root_of(e.data["obj"])
    ok = A.eq(init, A.spec("0.0 * s", b)) or A.eq(init, A.spec("np.zeros(len(s))", {**b, **NP, "len": glob("builtins.len")}))
    ok = ok and not zero_over_runtime(init)
    ctx.ob(rule, fq, e.node, ok, "probabilities start at 0 for every row" if ok else "the initial probabilities are not 0 for "
           f"every row ({show(init, maxdepth=3)[:60]}; 0 / score is NaN for a zero score)", construct="thresholder initial probabilities")


def r045_counts(ctx):
    A = Analysis(ctx)
    # METRIC_DICT over extended counts == definitions over (tp, fp, tn, fn)
    b = {k: mk("param", "spec", k) for k in ("tp", "fp", "tn", "fn")}
    ext = A.ev.eval_src("_extend_confusion_matrix(true_positives=tp, false_positives=fp, true_negatives=tn, false_negatives=fn)",
                        b, module=M_TC)
    defs = {
        "selection_rate": "(tp + fp) / (tp + fp + tn + fn)",
        "false_positive_rate": "fp / (fp + tn)",
        "false_negative_rate": "fn / (fn + tp)",
        "true_positive_rate": "tp / (tp + fn)",
        "true_negative_rate": "tn / (tn + fp)",
        "accuracy_score": "(tp + tn) / (tp + fp + tn + fn)",
        "balanced_accuracy_score": "0.5 * tp / (tp + fn) + 0.5 * tn / (tn + fp)",
    }
    md = A.ev.eval_src("METRIC_DICT", {}, module=M_TC)
    inner = md.args[1] if md.op == "modconst" else md
    ctx.require(inner.op == "dict", "METRIC_DICT is not a dict literal")
    entries = {const_value(k): v for k, v in inner.args[0] if k.op == "const"}
    ctx.floor("R04.5", "METRIC_DICT entries", len(entries), 7)
    from ..terms import State
    for name, src in defs.items():
        if name not in entries:
            ctx.ob("R04.5", M_TC + ":_extend_confusion_matrix", None, False, f"metric {name} is missing from METRIC_DICT",
                   construct=f"metric {name}")
            continue
        got = A.ev.call_term(entries[name], [ext], State({}, {}, ()), M_TC)
        ok = A.eq(got, A.spec(src, b))
        ctx.ob("R04.5", M_TC + ":_extend_confusion_matrix", None, ok, f"METRIC_DICT['{name}'] over the extended counts is {src}"
               if ok else f"METRIC_DICT['{name}'] computes {A.show(got, 160)} instead of {src}", construct=f"metric {name}")
    extra = sorted(set(entries) - set(defs))
    ctx.ob("R04.5", M_TC + ":_extend_confusion_matrix", None, not extra, "no undocumented metric in METRIC_DICT" if not extra
           else f"unverified metrics {extra}", construct="metric table keys")
    # threshold sweep
    A2 = Analysis(ctx, no_inline=[EXTEND, M_TC + ":_get_scores_labels_and_counts"])
    r = A2.run(M_TC + ":_calculate_tradeoff_points")
    fq = r.func
    cnt = calls_to(r, M_TC + ":_get_scores_labels_and_counts")[0].data["result"]
    npos, nneg = mk("sub", cnt, const(3)), mk("sub", cnt, const(4))
    ex = calls_to(r, EXTEND)
    ctx.floor("R04.5", "confusion-matrix constructions in the sweep", len(ex), 2)
    # the per-label counter: the list indexed with 0 / 1 in the count arguments (whatever it is called)
    cvar = None
    for e_ in ex:
        for _k, v_ in e_.data["kwargs"]:
            if v_.op == "sub" and v_.args[1] in (const(0), const(1)):
                cvar = v_.args[0]
    ctx.require(cvar is not None, "anchor vanished: per-label counter in the threshold sweep")
    bb = {"c": cvar, "P": npos, "N": nneg}
    want_actual = {"false_positives": "c[0]", "true_positives": "c[1]", "true_negatives": "N - c[0]", "false_negatives": "P - c[1]"}
    want_flip = {"false_positives": "N - c[0]", "true_positives": "P - c[1]", "true_negatives": "c[0]", "false_negatives": "c[1]"}
    kinds = {}
    for e in ex:
        k = dict(e.data["kwargs"])
        for nm, w in (("actual", want_actual), ("flipped", want_flip)):
            if set(k) == set(w) and all(A2.eq(k[f], A2.spec(s, bb)) for f, s in w.items()):
                kinds[nm] = e
    ok = set(kinds) == {"actual", "flipped"}
    ctx.ob("R04.5", fq, ex[0].node, ok, "actual counts (fp,tp,tn,fn) = (c0, c1, N- - c0, N+ - c1) and flipped counts = their "
           "complement" if ok else "the confusion-matrix counts of the sweep are not (c0, c1, N- - c0, N+ - c1) / complement",
           construct="sweep counts")
    if ok:
        ops = None
        for e in r.events:
            if e.kind == "loop" and e.func == fq and len(e.loops) == 1 and e.data["iter"].op in ("ite", "list"):
                ops = e
        good = False
        if ops is not None:
            it = ops.data["iter"]
            act, fl = kinds["actual"].data["result"], kinds["flipped"].data["result"]
            both = mk("list", (mk("tuple", (const(">"), act)), mk("tuple", (const("<"), fl))))
            only = mk("list", (mk("tuple", (const(">"), act)),))
            good = it is mk("ite", r.params["flip"], both, only)
        ctx.ob("R04.5", fq, ops.node if ops else None, good, "'>' is paired with the actual counts and '<' with the flipped "
               "counts; without flip only '>' operations are generated", construct="operation pairing")
        if ops is not None:
            body = [e for e in r.events if e.loops[:2] == (ops.loops[0], ops.data["lid"])] if ops.loops else []
            el = ops.data["elem"]
            opstr, cts = mk("sub", el, const(0)), mk("sub", el, const(1))
            tops = [e for e in r.events if e.kind == "call" and e.data.get("constructs") == M_TOP + ":ThresholdOperation"]
            okt = len(tops) == 1 and arg(tops[0], 0) is opstr
            apps = [e for e in r.events if e.kind == "call" and e.data["fterm"].op == "attr" and e.data["fterm"].args[1] == "append"
                    and len(e.loops) == 2]
            vals = [arg(e, 0) for e in apps]
            xm = A2.spec("M[xm](cts)", {"M": md, "xm": r.params["x_metric"], "cts": cts})
            ym = A2.spec("M[ym](cts)", {"M": md, "ym": r.params["y_metric"], "cts": cts})
            okv = len(vals) == 3 and vals[0] is xm and vals[1] is ym and bool(tops) and vals[2] is tops[0].data["result"]
            ctx.ob("R04.5", fq, tops[0].node if tops else None, okt and okv, "each generated point records (x metric, y metric, "
                   "ThresholdOperation(operator, threshold)) of the same counts", construct="recorded points")
    # the sorted frame
    ret = A2.C.canon(r.ret)
    oks = contains(ret, lambda s: s.op == "mcall" and s.args[0] == "sort_values" and dict(s.args[3]).get("by") is A2.C.canon(
        mk("list", (const("x"), const("y")))))
    ctx.ob("R04.5", fq, None, oks, "points are sorted by (x, y) before the hull is built", construct="points sorted")
    # ThresholdOperation
    A3 = Analysis(ctx)
    cls = M_TOP + ":ThresholdOperation"
    rc = A3.run(cls + ".__call__", cls_ctx=cls)
    op = mk("attr", rc.self_term, "_operator")
    bad = []
    from ..region import specialise
    for o in (">", "<", ">=", "x"):
        env = {op: o}
        got = specialise(rc.ret, env) if rc.ret is not None else None
        # raise events whose path condition is decided true under this operator
        raised = False
        for e in rc.events:
            if e.kind != "raise":
                continue
            try:
                if pc_holds(e.pc, env):
                    raised = True
            except (Unmodelled, Raised):
                pass
        if o in (">", "<"):
            want = A3.entry(rc, f"y_hat {o} self._threshold")
            if raised or got is None or not A3.eq(got, want):
                bad.append(f"operator {o!r}: returns {A3.show(got, 120) if got is not None else 'nothing'} instead of y_hat {o} threshold")
        elif not raised:
            bad.append(f"operator {o!r} is accepted")
    ctx.exhaustive_spaces.append("ThresholdOperation.__call__: operators '>', '<', other")
    ctx.ob("R04.5", rc.func, None, not bad, "ThresholdOperation evaluates y_hat > t for '>' and y_hat < t for '<' and rejects "
           "anything else" if not bad else "; ".join(bad), construct="threshold operation semantics")
    ri = A3.run(cls + ".__init__", cls_ctx=cls)
    ok = ri.final.heap.get((ri.self_term, "_operator")) is ri.params["operator"] and ri.final.heap.get((ri.self_term, "_threshold")) is ri.params["threshold"]
    ctx.ob("R04.5", ri.func, None, ok, "operator and threshold are stored unchanged", construct="threshold operation fields")
    # midpoint thresholds: some local of the sweep is (a + b) / 2 of two score reads
    from fractions import Fraction
    cands = [e for e in r.events if e.kind == "store" and e.data.get("tkind") == "name" and e.func == fq and e.loops]
    mids = []
    for e in cands:
        c = A2.C.canon(e.data["value"])
        if c.op == "rat":
            rat = c.args[2].rat
            if rat.den.is_const() and len(rat.num.terms) == 2 and all(v == Fraction(1, 2) * rat.den.const_value() for v in rat.num.terms.values()):
                mids.append(e)
    ctx.ob("R04.5", fq, mids[0].node if mids else None, bool(mids), "thresholds are midpoints between consecutive distinct scores",
           construct="midpoint thresholds")


def sweep_structure(ctx, rule):
    """The threshold sweep groups *equal* scores: counts are updated and the position advanced exactly while the score
    equals the current one; the sweep runs over all n rows in descending score order."""
    A = Analysis(ctx, no_inline=[EXTEND, M_TC + ":_get_scores_labels_and_counts"])
    r = A.run(M_TC + ":_calculate_tradeoff_points")
    fq = r.func
    cnt = calls_to(r, M_TC + ":_get_scores_labels_and_counts")
    ctx.require(len(cnt) == 1, "anchor vanished: _get_scores_labels_and_counts call")
    res = cnt[0].data["result"]
    scores0, labels0, n = mk("sub", res, const(0)), mk("sub", res, const(1)), mk("sub", res, const(2))
    whiles = [e for e in r.events if e.kind == "loop" and e.func == fq and e.data.get("elem") is None]
    outer = [e for e in whiles if not e.loops]
    inner = [e for e in whiles if e.loops]
    ok = len(outer) == 1 and len(inner) == 1
    if not ok:
        ctx.ob(rule, fq, None, None, f"expected an outer and an inner while loop in the sweep (found {len(outer)}, {len(inner)})",
               construct="sweep loops")
        return
    o, i_ = outer[0], inner[0]
    # outer: while i < n
    oc = A.C.canon(o.data["iter"])
    ivars = [s_ for s_ in subterms(o.data["iter"]) if s_.op in ("const",) and False]
    okc = oc.op == "cmp" and oc.args[0] == "<" and A.C.canon(n) in (oc.args[1], oc.args[2])
    ctx.ob(rule, fq, o.node, okc, "the sweep runs while the position is below n", construct="sweep outer condition")
    # inner: while scores[i] == threshold, with threshold = scores[i] read before the loop
    ic = i_.data["iter"]
    okt = ic.op == "cmp" and ic.args[0] == "==" and any(x.op == "sub" and root_of(x.args[0]).op in ("sub", "listappend", "call")
                                                         for x in (ic.args[1], ic.args[2]))
    ctx.ob(rule, fq, i_.node, okt, "scores are grouped by exact equality with the current score (ties share one threshold)"
           if okt else f"tie grouping uses {A.show(ic, 120)} instead of exact equality of scores", construct="sweep tie condition")
    body = [e for e in r.events if e.loops[:2] == (o.data["lid"], i_.data["lid"]) and e.func == fq]
    incs = [e for e in body if e.kind == "store" and e.data.get("tkind") == "sub"]
    adv = [e for e in body if e.kind == "store" and e.data.get("tkind") == "name"]
    okb = len(incs) == 1 and len(adv) == 1
    if okb:
        inc, ad = incs[0], adv[0]
        pos = ad.data["value"]
        rat = A.C._as_rat(A.C.canon(pos))
        okb = rat.num.terms.get((), 0) == 1 and len(rat.num.terms) == 2  # i + 1
        key = inc.data["key"]
        okb = okb and key.op == "sub" and root_of(key.args[0]).op in ("sub", "listappend", "call")
        v = A.C._as_rat(A.C.canon(inc.data["value"]))
        okb = okb and v.num.terms.get((), 0) == 1 and len(v.num.terms) == 2  # count[label] + 1
    ctx.ob(rule, fq, incs[0].node if incs else None, okb, "each row of the tie group increments the count of its own label by "
           "one and advances the position by one", construct="sweep tie body")
    # start of the sweep: position 0, counts [0, 0], a -inf sentinel after the last score, +inf threshold for the first point
    def _init(v):
        while v.op == "loopvar":
            v = v.args[2]
        return v
    if incs and adv:
        pos0 = _init(adv[0].data["value"].args[1] if adv[0].data["value"].op == "binop" and adv[0].data["value"].args[1].op == "loopvar"
                     else [x for x in subterms(adv[0].data["value"]) if x.op == "loopvar"][0])
        cnt0 = _init(root_of(incs[0].data["obj"]))
        oki = pos0 is const(0) and cnt0.op == "list" and len(cnt0.args[0]) == 2 and all(x is const(0) for x in cnt0.args[0])
        ctx.ob(rule, fq, o.node, oki, "the sweep starts at position 0 with both label counts at 0" if oki else
               f"the sweep starts at position {show(pos0, maxdepth=2)[:20]} with counts {show(cnt0, maxdepth=2)[:20]}",
               construct="sweep initial state")
    sent = [e for e in r.events if e.kind == "call" and e.func == fq and e.data["fterm"].op == "attr" and e.data["fterm"].args[1] == "append"
            and e.data["fterm"].args[0] is scores0 and not e.loops and e.seq < o.seq]
    oks = len(sent) == 1 and A.eq(arg(sent[0], 0), A.spec("-np.inf", {"np": glob("numpy")}))
    ctx.ob(rule, fq, sent[0].node if sent else o.node, oks, "a -inf sentinel follows the last score, so the last threshold admits "
           "every row" if oks else "the sentinel after the last score is not -inf: the all-positive end point of the curve is lost",
           construct="sweep sentinel")
    tops = [e for e in r.events if e.kind == "call" and e.data.get("constructs") == M_TOP + ":ThresholdOperation" and e.func == fq]
    okth = bool(tops)
    for e in tops:
        th = arg(e, 1, "threshold")
        c = th
        okth = okth and c is not None and c.op == "ite"
        if not okth:
            break
        cond, a_, b_ = c.args
        empty = False
        # polarity: `t = inf if xs == [] else mid`, `t = mid if xs != [] else inf`, `t = inf; if xs != []: t = mid` are one value
        if cond.op == "not":
            cond, a_, b_ = cond.args[0], b_, a_
        if cond.op == "loopvar" and _init(cond).op == "list" and not _init(cond).args[0]:
            # `if not x_list:` - a list is false exactly when it is empty; here cond is the list itself, so the branches are swapped
            cond, a_, b_ = mk("cmp", "==", cond, mk("list", ())), b_, a_
        if cond.op == "loopvar" and _init(cond) is TRUE:
            # a `first point` flag: True on entry, set to False in the first iteration and never set again
            sets = [e_ for e_ in r.events if e_.kind == "store" and e_.data.get("tkind") == "name" and e_.func == fq
                    and e_.data["name"] == cond.args[0] and e_.loops]
            if sets and all(e_.data["value"] is FALSE for e_ in sets):
                lst = [s_ for s_ in subterms(b_) if s_.op == "loopvar" and _init(s_).op == "list"]
                anylist = next((e_.data["fterm"].args[0] for e_ in r.events if e_.kind == "call" and e_.func == fq and e_.loops
                                and e_.data["fterm"].op == "attr" and e_.data["fterm"].args[1] == "append"
                                and e_.data["fterm"].args[0].op == "loopvar" and _init(e_.data["fterm"].args[0]).op == "list"), None)
                if anylist is not None:
                    cond = mk("cmp", "==", anylist, mk("list", ()))
        if cond.op == "cmp" and cond.args[0] == "!=":
            cond, a_, b_ = mk("cmp", "==", cond.args[1], cond.args[2]), b_, a_
        if cond.op == "cmp" and cond.args[0] == "==":
            for lst, var in ((cond.args[2], cond.args[1]), (cond.args[1], cond.args[2])):
                empty = empty or (lst.op == "list" and not lst.args[0] and var.op == "loopvar" and _init(var).op == "list"
                                  and not _init(var).args[0])
        inf = A.spec("np.inf", {"np": glob("numpy")})
        mids = [x for x in subterms(b_) if x.op == "sub" and x.args[0] is scores0]
        okth = okth and empty and a_ is inf and len({m.uid for m in mids}) == 2 and \
            A.eq(b_, A.spec("(a + b) / 2", {"a": mids[0], "b": mids[1]})) and \
            {m.args[1].op for m in mids} == {"loopvar", "loopout"}
    ctx.ob(rule, fq, tops[0].node if tops else None, okth, "the first point uses threshold +inf (nobody selected); every later "
           "threshold is the midpoint between the tie group's score and the next score", construct="sweep thresholds")
    # the returned frame: column x holds the x_metric values, y the y_metric values, operation the threshold operations, one row per
    # swept point, sorted by (x, y) with a fresh positional index
    apps = [e for e in r.events if e.kind == "call" and e.func == fq and e.data["fterm"].op == "attr" and e.data["fterm"].args[1] == "append"
            and e.loops and e.data["fterm"].args[0].op == "loopvar" and e.data["args"]]
    role = {}
    P = r.params
    for e in apps:
        v, name = e.data["args"][0], e.data["fterm"].args[0].args[0]
        has_x, has_y = contains(v, lambda s_: s_ is P["x_metric"]), contains(v, lambda s_: s_ is P["y_metric"])
        if v.op == "new" and v.args[0] == M_TOP + ":ThresholdOperation":
            role.setdefault("operation", set()).add(name)
        elif has_x and not has_y:
            role.setdefault("x", set()).add(name)
        elif has_y and not has_x:
            role.setdefault("y", set()).add(name)
    ret = r.ret
    okf = ret is not None and all(len(role.get(k, ())) == 1 for k in ("x", "y", "operation")) and \
        len({next(iter(role[k])) for k in ("x", "y", "operation")}) == 3
    cols = {}
    if okf:
        dicts = [s_.args[1][0] for s_ in subterms(ret) if s_.op == "call" and s_.args[0] is glob("pandas.DataFrame") and s_.args[1]
                 and s_.args[1][0].op == "dict"]
        okf = len(dicts) == 1
        if okf:
            cols = {const_value(k): v for k, v in dicts[0].args[0] if k.op == "const"}
            okf = set(cols) == {"x", "y", "operation"} and all(
                cols[k].op in ("loopout", "loopvar") and cols[k].args[0] == next(iter(role[k])) for k in cols)
            okf = okf and any(A.eq(ret, A.spec(s_, {"D": dicts[0], "pd": glob("pandas")})) for s_ in (
                "pd.DataFrame(D).sort_values(by=['x', 'y']).reset_index(drop=True)",
                "pd.DataFrame(D).sort_values(by=['x', 'y'], ignore_index=True)",
                "pd.DataFrame(D).sort_values(['x', 'y']).reset_index(drop=True)",
                "pd.DataFrame(D).sort_values(['x', 'y'], ignore_index=True)"))
    ctx.ob(rule, fq, None, bool(okf), "the swept points are returned as DataFrame({x: x_metric values, y: y_metric values, operation: "
           "threshold operations}) sorted by (x, y) with a positional index" if okf else "the returned frame does not pair column x with the "
           "x_metric values, y with the y_metric values and operation with the threshold operations (sorted by (x, y), index reset)",
           construct="sweep result frame")
    # sorted descending by score
    A2 = Analysis(ctx)
    rs = A2.run(M_TC + ":_get_scores_labels_and_counts")
    d = rs.params["data"]
    srt = A2.entry(rs, "data.sort_values(by=SCORE_KEY, ascending=False)")
    ret = rs.ret
    def col(t, key):
        b = {"S": srt, "K": A2.entry(rs, key), "list": glob("builtins.list")}
        # tolist is transparent in the normal form: require the list-making call itself (a bare Series would be label-indexed)
        listy = t.op == "call" and (t.args[0] is glob("builtins.list") or (t.args[0].op == "attr" and t.args[0].args[1] in ("tolist", "to_list")))
        return listy and (A2.eq(t, A2.spec("list(S[K])", b)) or A2.eq(t, A2.spec("S[K].tolist()", b)))
    oks = ret is not None and ret.op == "tuple" and col(ret.args[0][0], "SCORE_KEY") and col(ret.args[0][1], "LABEL_KEY")
    ctx.ob(rule, rs.func, None, oks, "scores and labels are read from the same frame sorted by descending score",
           construct="sweep ordering")
    # list(ndarray) keeps numpy scalars (fixed-width integer labels then overflow in the running counts); list(Series) and
    # .tolist() give Python numbers
    if ret is not None and ret.op == "tuple":
        for i, what in ((0, "scores"), (1, "labels")):
            t = ret.args[0][i]
            raw = t.op == "call" and t.args[0] is glob("builtins.list") and t.args[1] and contains(
                t.args[1][0], lambda s: (s.op == "attr" and s.args[1] in ("values", "array")) or
                (s.op == "call" and s.args[0].op == "attr" and s.args[0].args[1] in ("to_numpy", "__array__")) or
                (s.op == "call" and s.args[0].op == "global" and s.args[0].args[0] in ("numpy.asarray", "numpy.array", "numpy.asanyarray")))
            ctx.ob(rule, rs.func, None, not raw, f"the {what} list holds Python numbers (list(Series) / .tolist()), not numpy scalars "
                   "of the column's fixed-width dtype", construct=f"sweep {what} element type")


def r049_no_inplace(ctx, rule="R04.9"):
    ctx.rule(rule, "the curve utilities and the optimisation routines never update in place a value that is also reachable under "
                   "another name (an argument, or a local bound to the same object): `n = positives; n += negatives` changes "
                   "`positives` too when the counts are arrays, so a metric computed from them is no longer its definition")
    from .common import inplace_updates_of_foreign_values
    A = Analysis(ctx, max_depth=0)
    fqs = [M_TC + ":" + f for f in ("_extend_confusion_matrix", "_tradeoff_curve", "_filter_points_to_get_convex_hull", "_interpolate_curve",
                                    "_get_interpolation_indices", "_calculate_tradeoff_points", "_get_scores_labels_and_counts",
                                    "_get_counts")]
    fqs += [TO + "._threshold_optimization_for_simple_constraints", TO + "._threshold_optimization_for_equalized_odds",
            M_TO + ":_reformat_and_group_data"]   # _reformat_data_into_dict fills its data_dict argument by contract
    n = 0
    for fq in fqs:
        if fq not in ctx.prog.functions:
            continue
        r = A.run(fq, cls_ctx=TO if fq.startswith(TO + ".") else None)
        n += 1
        params = set(r.params.values()) - {r.self_term}
        hits = inplace_updates_of_foreign_values(r, lambda x, params=params: x in params, ctx.prog)
        ok = not hits
        name = fq.split(":")[1]
        ctx.ob(rule, fq, hits[0][0].node if hits else None, ok, f"{name} updates in place only values it created and holds under one "
               "name" if ok else f"{name} applies an in-place {hits[0][1]}: the value is an argument or is bound to a second name that "
               "is read afterwards", construct=f"{name} no shared in-place update")
    ctx.floor(rule, "curve utilities and optimisation routines", n, 10)


def _shared_c04(ctx):
    """Life-cycle (history independence, pure prediction) and label-position clauses of the estimator(s) this property
    is about, shared with C19 R19.3/R19.4 and C12 R12.1 and reported under this property's rule ids."""
    from .c12 import label_sinks
    from .c19 import lifecycle_of
    ctx.rule("R04.6", "fit does not depend on state left by an earlier fit and prediction writes no state (shared with C19 R19.3 / R19.4)")
    lifecycle_of(ctx, [TO, IT], {"R19.3": "R04.6", "R19.4": "R04.6", "R19.6": "R04.6", "R19.8": "R04.6"})
    ctx.rule("R04.7", "no caller-labelled pandas value reaches a label-aligning operation on the paths of this property (shared with C12 R12.1)")
    label_sinks(ctx, "R04.7", [(TO + ".fit", TO), (IT + "._pmf_predict", IT)])


def r048_wiring(ctx, rule="R04.8"):
    ctx.rule(rule, "ThresholdOptimizer.fit runs the equalized-odds routine exactly when constraints == 'equalized_odds' and hands "
                      "(validated sensitive features, integer labels, soft predictions of estimator_ on X) to it in that order; both "
                      "routines wrap (estimator_, interpolation_dict, prefit=True, predict_method) in the InterpolatedThresholder; "
                      "predict / _pmf_predict pass X, sensitive_features and random_state through to it")
    eo, simple = TO + "._threshold_optimization_for_equalized_odds", TO + "._threshold_optimization_for_simple_constraints"
    A = Analysis(ctx, no_inline=[eo, simple, M_IV + ":_validate_and_reformat_input", "fairlearn.utils._common:_get_soft_predictions"], max_depth=2)
    r = A.run(TO + ".fit", cls_ctx=TO)
    fq = r.func
    st = stores_attr(r, "interpolated_thresholder_")
    ctx.require(len(st) == 1, "anchor vanished: store of interpolated_thresholder_")
    v = st[0].data["value"]
    is_eo = A.C.canon(A.entry(r, "self.constraints == 'equalized_odds'"))
    calls = {e.data.get("callee"): e for e in r.events if e.kind == "call" and e.data.get("callee") in (eo, simple)}
    ok = v.op == "ite" and len(calls) == 2
    if ok:
        c = A.C.canon(v.args[0])
        a_, b_ = v.args[1], v.args[2]
        ok = (c is is_eo and a_ is calls[eo].data["result"] and b_ is calls[simple].data["result"]) or \
             (c is A.C._not(is_eo) and b_ is calls[eo].data["result"] and a_ is calls[simple].data["result"])
    ctx.ob(rule, fq, st[0].node, ok, "the equalized-odds routine runs exactly for constraints == 'equalized_odds'" if ok else
           "the optimisation routine is not selected by constraints == 'equalized_odds'", construct="routine dispatch")
    # the metric that is equalised: x_metric_ = SIMPLE_CONSTRAINTS[constraints] with <m>_parity -> <m> (demographic parity is
    # selection-rate parity); equalized odds uses the ROC axes
    tab = A.ev.eval_src("SIMPLE_CONSTRAINTS", {}, module=M_TO)
    entries = {}
    t_ = tab
    while t_.op == "modconst":
        t_ = t_.args[1]
    if t_.op == "dict":
        entries = {const_value(k): (const_value(v) if v.op == "const" else None) for k, v in t_.args[0] if k.op == "const"}
    want_tab = {"selection_rate_parity": "selection_rate", "demographic_parity": "selection_rate",
                "false_positive_rate_parity": "false_positive_rate", "false_negative_rate_parity": "false_negative_rate",
                "true_positive_rate_parity": "true_positive_rate", "true_negative_rate_parity": "true_negative_rate"}
    wrong = sorted(k for k in set(entries) | set(want_tab) if entries.get(k) != want_tab.get(k))
    ctx.ob(rule, M_TO + ":<module>", None, not wrong, "SIMPLE_CONSTRAINTS maps every <metric>_parity to <metric> and demographic_parity "
           "to selection_rate" if not wrong else f"SIMPLE_CONSTRAINTS maps {wrong} to {[entries.get(k) for k in wrong]}: the optimiser "
           "equalises a different metric than the one the constraint names", construct="constraint -> metric table")
    xm = {A.C.canon(e.data["value"]) for e in stores_attr(r, "x_metric_")}
    ym = {A.C.canon(e.data["value"]) for e in stores_attr(r, "y_metric_")}
    okm = xm == {A.C.canon(const("false_positive_rate")), A.C.canon(A.entry(r, "SIMPLE_CONSTRAINTS[self.constraints]"))} and \
        ym == {A.C.canon(const("true_positive_rate")), A.C.canon(A.entry(r, "self.objective"))}
    for e in stores_attr(r, "x_metric_") + stores_attr(r, "y_metric_"):
        lits = [A.C.canon(l) for l in pc_literals(e.pc)]
        roc = e.data["value"].op == "const"
        okm = okm and ((is_eo in lits) if roc else (A.C._not(is_eo) in lits))
    ctx.ob(rule, fq, None, okm, "x_metric_ / y_metric_ are (FPR, TPR) for equalized odds, else (SIMPLE_CONSTRAINTS[constraints], objective)",
           construct="metric axes")
    val = calls_to(r, M_IV + ":_validate_and_reformat_input")
    sp = calls_to(r, "fairlearn.utils._common:_get_soft_predictions")
    est = stores_attr(r, "estimator_")
    okargs = len(val) == 1 and len(sp) == 1 and bool(est)
    if okargs:
        sf = mk("sub", val[0].data["result"], const(2))
        y = r.params["y"]
        for e in calls.values():
            a0, a1, a2 = arg(e, 0, "sensitive_features"), arg(e, 1, "labels"), arg(e, 2, "scores")
            okargs = okargs and a0 is sf and a2 is sp[0].data["result"] and a1 is not None and contains(a1, lambda s_: s_ is y) \
                and not contains(a1, lambda s_: s_ is r.params["X"]) and not contains(a1, lambda s_: s_ is val[0].data["result"])
        okargs = okargs and A.eq(arg(sp[0], 0, "estimator"), A.at(sp[0], "self.estimator_")) and arg(sp[0], 1, "X") is r.params["X"] \
            and A.eq(arg(sp[0], 2, "predict_method"), A.at(sp[0], "self._predict_method"))
        okargs = okargs and arg(val[0], 0, "X") is r.params["X"] and arg(val[0], 1, "y") is y and kw(val[0], "sensitive_features") is r.params["sensitive_features"]
    ctx.ob(rule, fq, st[0].node, bool(okargs), "the routine receives (validated sensitive features, labels, scores of estimator_ on X)",
           construct="routine arguments")
    for rq in (eo, simple):
        A1 = Analysis(ctx, max_depth=1, inline=lambda f_, d_: False)
        rr = A1.run(rq, cls_ctx=TO)
        cons = [e for e in rr.events if e.kind == "call" and e.data.get("constructs") == IT]
        okc = len(cons) == 1
        if okc:
            e = cons[0]
            idict = arg(e, 1, "interpolation_dict")
            okc = A1.eq(arg(e, 0, "estimator"), A1.at(e, "self.estimator_")) and idict is not None and \
                root_of(idict).op in ("dict", "loopout", "upd") and kw(e, "prefit") is TRUE and \
                kw(e, "predict_method") is not None and A1.eq(kw(e, "predict_method"), A1.at(e, "self._predict_method")) and bool(rr.returns) and all(
                    v_ is e.data["result"] or (v_.op == "call" and v_.args[0].op in ("boundmethod", "attr") and v_.args[0].args[0] is e.data["result"]
                                               and str(v_.args[0].args[1]).endswith("fit")) for _, v_ in rr.returns)
        ctx.ob(rule, rq, cons[0].node if cons else None, okc, "the routine returns InterpolatedThresholder(estimator_, "
               "interpolation_dict, prefit=True, predict_method=...)", construct="thresholder construction")
    A1 = Analysis(ctx, max_depth=1, inline=lambda f_, d_: False)
    for m, kws in (("predict", ("sensitive_features", "random_state")), ("_pmf_predict", ("sensitive_features",))):
        rp = A1.run(TO + "." + m, cls_ctx=TO)
        want = A1.entry(rp, f"self.interpolated_thresholder_.{m}(X, " + ", ".join(f"{k}={k}" for k in kws) + ")")
        okp = rp.ret is want
        ctx.ob(rule, rp.func, None, okp, f"ThresholdOptimizer.{m} delegates with X, " + ", ".join(kws) + " passed through" if okp else
               f"ThresholdOptimizer.{m} returns {show(rp.ret, maxdepth=4)[:120] if rp.ret is not None else '?'}: an argument is not passed on",
               construct=f"{m} delegation")
