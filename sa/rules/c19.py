"""C19 - estimator life cycle (D-LIFE)."""
from __future__ import annotations

import ast

from ..lifecycle import (FIT_METHODS, PREDICT_METHODS, config_attrs, estimator_classes, existence_tests, self_stores,
                         unpicklable)
from ..model import AnalysisError
from ..terms import FALSE, NONE, TRUE, T, const, const_value, contains, glob, mk, show, subterms
from .common import (M_ADV, M_BGL, M_CR, M_EG, M_ER, M_GS, M_IT, M_LAG, M_MOMENT, M_TO, M_UP, Analysis, arg, calls_to,
                     dominates, kw, pc_literals)

SUBJECTS = [M_TO + ":ThresholdOptimizer", M_EG + ":ExponentiatedGradient", M_GS + ":GridSearch",
            M_CR + ":CorrelationRemover", M_ADV + ":_AdversarialFairness", M_ADV + ":AdversarialFairnessClassifier",
            M_ADV + ":AdversarialFairnessRegressor"]
PICKLABLE = [M_TO + ":ThresholdOptimizer", M_IT + ":InterpolatedThresholder", M_EG + ":ExponentiatedGradient",
             M_GS + ":GridSearch", M_CR + ":CorrelationRemover"]
MOMENT_QUERIES = ("gamma", "bound", "signed_weights", "project_lambda", "index", "total_samples", "_y_as_series")


def check(ctx):
    prog = ctx.prog
    all_est = estimator_classes(prog)
    ctx.floor("R19", "estimator classes (MRO contains sklearn BaseEstimator)", len(all_est), 9)
    for s in SUBJECTS + PICKLABLE:
        ctx.require(s in all_est, f"anchor vanished: {s} is not an estimator class any more")
    subjects = list(SUBJECTS)
    others = [c for c in all_est if c not in subjects]
    ctx.rule("R19.1", "no fit-reachable assignment / deletion of a constructor parameter attribute")
    ctx.rule("R19.2", "every normal exit of fit / partial_fit returns self")
    ctx.rule("R19.3", "fit does not test for, or read, state left by an earlier fit (outside a warm_start guard) in a way "
                      "that influences a branch")
    ctx.rule("R19.4", "predict-type methods do not write estimator state (incl. validate_data(self, ...) without reset=False)")
    ctx.rule("R19.5", "no one-shot latch is reachable from fit on an object held in a constructor parameter; a Moment's "
                      "load_data re-assigns every attribute its query methods read")
    ctx.rule("R19.6", "fit never fits the un-copied constructor-parameter estimator (outside prefit)")
    ctx.rule("R19.8", "__init__ stores every constructor parameter under its own name, verbatim or through an idempotent scalar "
                      "conversion of that same argument (float/int/bool/str): get_params / clone rebuild an identically "
                      "configured estimator from those attributes")
    ctx.rule("R19.7", "no unpicklable value (lambda, nested function, generator, map/filter/zip object) is stored in the "
                      "state of the picklable estimators")
    n_fit = n_pred = 0
    A = Analysis(ctx, max_depth=5)
    for cls in subjects + (others if ctx.tier == "thorough" else []):
        is_subject = cls in subjects
        params = set(prog.ctor_params(cls))
        cfg = config_attrs(prog, A.ev, cls)
        for m in FIT_METHODS:
            fi = prog.lookup_method(cls, m)
            if fi is None or fi.cls not in prog.classes:
                continue
            # analyse once per defining class unless the subclass overrides something fit calls
            r = A.run(fi.fq, cls_ctx=cls)
            n_fit += 1 if is_subject else 0
            ctx.guard(_fit_rules, ctx, A, cls, m, fi, r, params, cfg, is_subject)
        for m in PREDICT_METHODS:
            fi = prog.lookup_method(cls, m)
            if fi is None or fi.cls not in prog.classes:
                continue
            r = A.run(fi.fq, cls_ctx=cls)
            n_pred += 1 if is_subject else 0
            ctx.guard(_predict_rules, ctx, A, cls, m, fi, r, is_subject)
    ctx.floor("R19.2", "fit / partial_fit methods of the subject estimators", n_fit, 8)
    ctx.floor("R19.4", "predict-type methods of the subject estimators", n_pred, 11)
    from .c17 import r178_raw_output
    ctx.guard(r178_raw_output, ctx, "R19.9")  # repeatable prediction of the adversarial estimators: evaluation mode (shared with C17)
    ctx.guard(_engine_rules, ctx)
    ctx.guard(_ctor_verbatim, ctx, subjects + (others if ctx.tier == "thorough" else []), subjects)
    ctx.guard(_latches, ctx)
    ctx.guard(_reload_completeness, ctx)
    ctx.guard(_pickle, ctx)


def _engine_rules(ctx):
    """The adversarial back ends are built inside fit through a class chosen at run time, so the life-cycle walk of
    AdversarialFairness.fit does not reach them; their constructors are analysed here."""
    from .common import M_BE, M_PT, M_TF
    ctx.rule("R19.10", "each adversarial back end seeds its library's global generator from the estimator's random_state_ before "
                       "BackendEngine.__init__ builds and initialises the networks (otherwise the initial weights depend on what the "
                       "process drew before this fit); the engine methods are scanned for in-place updates of the configured models")
    A = Analysis(ctx, max_depth=0)
    n = 0
    for mod, cname, seedfn in ((M_PT, "PytorchEngine", "torch.manual_seed"), (M_TF, "TensorflowEngine", "tensorflow.random.set_seed")):
        cls = f"{mod}:{cname}"
        r = A.run(cls + ".__init__", cls_ctx=cls)
        base = r.params.get("base")
        sup = [e for e in r.events if e.kind == "call" and e.data.get("callee") == M_BE + ":BackendEngine.__init__"]
        seeds = [e for e in r.events if e.kind == "call" and e.data.get("callee") == seedfn]
        ctx.require(len(sup) == 1, f"anchor vanished: super().__init__ call in {cname}.__init__")
        n += 1
        ok = len(seeds) >= 1 and seeds[0].seq < sup[0].seq and not [l for l in seeds[0].pc if l.op != "inloop"] and not seeds[0].loops \
            and seeds[0].data["args"] and contains(seeds[0].data["args"][0], lambda s_: s_.op == "attr" and s_.args[1] == "random_state_"
                                                   and s_.args[0] is base)
        ctx.ob("R19.10", r.func, (seeds[0].node if seeds else sup[0].node), bool(ok), f"{cname} calls {seedfn}(<draw from "
               "base.random_state_>) unconditionally before the networks are built" if ok else f"{cname} does not seed {seedfn.split('.')[0]} "
               "from base.random_state_ before BackendEngine.__init__ builds the networks: list-specified networks are initialised from "
               "the process-wide generator state, so a refit differs from a fresh fit", construct=f"{cname} seeds before building")
    ctx.floor("R19.10", "back-end constructors", n, 2)
    _engine_history(ctx)
    # bring the engine classes into the argument-purity scan (R19.P)
    for mod, cname in ((M_BE, "BackendEngine"), (M_PT, "PytorchEngine"), (M_TF, "TensorflowEngine")):
        cls = f"{mod}:{cname}"
        for fq in sorted(ctx.prog.functions):
            if fq.startswith(cls + "."):
                try:
                    A.run(fq, cls_ctx=cls)
                except AnalysisError:
                    pass  # a construct of an engine helper that is not modelled: the seeding obligation above does not depend on it


def tests_warm_start(c, obj=None):
    """the condition tests the *value* of warm_start (`x.warm_start`, `x.warm_start and ..`, `not x.warm_start`, `x.warm_start is
    True`), as opposed to mentioning it inside a call (`isinstance(x.warm_start, bool)` validates its type and guards nothing)"""
    if not isinstance(c, T):
        return False
    if c.op == "attr" and c.args[1] == "warm_start" and (obj is None or c.args[0] is obj):
        return True
    if c.op in ("and", "or"):
        return any(tests_warm_start(x, obj) for x in c.args[0])
    if c.op == "not":
        return tests_warm_start(c.args[0], obj)
    if c.op == "cmp":
        return tests_warm_start(c.args[1], obj) or tests_warm_start(c.args[2], obj)
    if c.op in ("assume", "ite"):
        return any(tests_warm_start(x, obj) for x in c.args)
    if c.op == "call" and c.args[0] is glob("builtins.bool") and len(c.args[1]) == 1:
        return tests_warm_start(c.args[1][0], obj)
    return False


def _engine_history(ctx):
    """BackendEngine.__init__ receives the estimator (`base`) in the middle of its fit: what __setup assigned before it built the
    engine is state of this fit; anything else that is not configuration (in practice `backendEngine_`, the engine of the previous
    fit) is state of an earlier fit and may be tested for / read only under `base.warm_start`."""
    from .common import M_ADV, M_BE
    est = M_ADV + ":_AdversarialFairness"
    A = Analysis(ctx, max_depth=1)
    rs = A.run(est + ".__setup", cls_ctx=est)
    made = [e for e in rs.events if e.kind == "store" and e.data.get("tkind") == "attr" and e.data.get("obj") is rs.self_term
            and e.data["attr"] == "backendEngine_"]
    ctx.require(len(made) >= 1, "anchor vanished: __setup stores backendEngine_")
    first = min(e.seq for e in made)
    fresh = {e.data["attr"] for e in rs.events if e.kind == "store" and e.data.get("tkind") == "attr" and e.data.get("obj") is rs.self_term
             and e.seq < first}
    config = set(ctx.prog.ctor_params(est)) | set(config_attrs(ctx.prog, A.ev, est))
    cls = M_BE + ":BackendEngine"
    r = Analysis(ctx, max_depth=0).run(cls + ".__init__", cls_ctx=cls)
    base = r.params.get("base")
    ctx.require(base is not None, "anchor vanished: BackendEngine.__init__(self, base, ...)")

    def terms_of(e):
        out = list(e.pc)
        for v in e.data.values():
            if isinstance(v, T):
                out.append(v)
            elif isinstance(v, (tuple, list)):
                for x in v:
                    if isinstance(x, T):
                        out.append(x)
                    elif isinstance(x, tuple):
                        out.extend(y for y in x if isinstance(y, T))
        return out

    def guarded(e):
        lits = list(pc_literals(e.pc)) + ([e.data["cond"]] if e.kind == "branch" and isinstance(e.data.get("cond"), T) else [])
        return any(tests_warm_start(x, base) for x in lits)
    n_reads = 0
    bad = {}
    def has_ws(c):
        return tests_warm_start(c, base)

    def uses(t, g, out, seen):
        """(name, guarded) for every use of base.<name> in t; a value selected by `x if base.warm_start and .. else y` is guarded in x"""
        if (t.uid, g) in seen:
            return
        seen.add((t.uid, g))
        if t.op == "attr" and t.args[0] is base:
            out.add((t.args[1], g))
            return
        if t.op == "call" and t.args[0].op == "global" and t.args[0].args[0] in ("builtins.hasattr", "builtins.getattr") \
                and len(t.args[1]) >= 2 and t.args[1][0] is base and t.args[1][1].op == "const":
            out.add((const_value(t.args[1][1]), g))
            return
        if t.op == "ite":
            c, a_, b_ = t.args
            uses(c, g, out, seen)
            # either branch is "under a test of warm_start" (which of the two continues from earlier state is not decided here,
            # as for path conditions)
            uses(a_, g or has_ws(c), out, seen)
            uses(b_, g or has_ws(c), out, seen)
            return
        if t.op in ("and", "or") and t.args and isinstance(t.args[0], tuple):
            # short-circuit: operands after a warm_start conjunct are evaluated only when it holds
            g2 = g
            for x in t.args[0]:
                uses(x, g2, out, seen)
                if has_ws(x):
                    g2 = True      # `ws and f(..)` / `not ws or f(..)`: f is evaluated only after the test of warm_start
            return
        for x in t.args:
            if isinstance(x, T):
                uses(x, g, out, seen)
            elif isinstance(x, tuple):
                for y in x:
                    if isinstance(y, T):
                        uses(y, g, out, seen)
                    elif isinstance(y, tuple):
                        for z in y:
                            if isinstance(z, T):
                                uses(z, g, out, seen)
    for e in r.events:
        found = set()
        seen = set()
        g0 = guarded(e)
        for t in terms_of(e):
            uses(t, g0, found, seen)
        for nm, g in found:
            if nm in config or nm in fresh or nm == "warm_start" or not isinstance(nm, str):
                continue
            n_reads += 1
            if not g and nm not in bad:
                bad[nm] = e
    for nm, e in bad.items():
        ctx.ob("R19.10", r.func, e.node, False, f"BackendEngine.__init__ uses base.{nm} - state that only an earlier fit of the estimator can "
               "have left - outside a `base.warm_start` guard: a second fit continues from the networks of the first instead of "
               "behaving like a fresh one", construct=f"engine reads earlier-fit state {nm}")
    if not bad:
        ctx.ob("R19.10", r.func, None, True, f"BackendEngine.__init__: {n_reads} uses of estimator state that this fit has not assigned; "
               "each is guarded by base.warm_start", construct="engine history scan", nontrivial=bool(n_reads))
    ctx.floor("R19.10", "uses of earlier-fit estimator state in BackendEngine.__init__", n_reads, 1)


def lifecycle_of(ctx, classes, alias: dict):
    """Run the per-class fit / predict life-cycle rules for `classes` under another property's rule ids.
    alias maps R19.x -> the rule id to report under; rules not in the map are not evaluated into obligations."""
    prog = ctx.prog
    A = Analysis(ctx, max_depth=5)
    ctx.rule_alias = dict(alias)
    try:
        for cls in classes:
            params = set(prog.ctor_params(cls))
            cfg = config_attrs(prog, A.ev, cls)
            for m in FIT_METHODS:
                fi = prog.lookup_method(cls, m)
                if fi is None or fi.cls not in prog.classes:
                    continue
                r = A.run(fi.fq, cls_ctx=cls)
                _fit_rules(ctx, A, cls, m, fi, r, params, cfg, True)
            for m in PREDICT_METHODS:
                fi = prog.lookup_method(cls, m)
                if fi is None or fi.cls not in prog.classes:
                    continue
                r = A.run(fi.fq, cls_ctx=cls)
                _predict_rules(ctx, A, cls, m, fi, r, True)
    finally:
        ctx.rule_alias = None


MUTATORS = ("append", "extend", "update", "add", "insert", "pop", "popitem", "clear", "setdefault", "remove", "discard", "sort",
            "reverse")


def _leaves(t: T):
    """the alternatives of a value through ite / assume / read-over-write chains"""
    out, stack, seen = [], [t], set()
    while stack:
        x = stack.pop()
        if x.uid in seen:
            continue
        seen.add(x.uid)
        if x.op == "ite":
            stack.extend([x.args[1], x.args[2]])
        elif x.op == "assume":
            stack.append(x.args[1])
        elif x.op in ("upd", "listappend"):
            stack.append(x.args[0])
        elif x.op in ("loopvar", "loopout") and len(x.args) >= 3 and isinstance(x.args[2], T):
            stack.append(x.args[2])  # value on loop entry
        else:
            out.append(x)
    return out


def _scalar_like(t: T) -> bool:
    """a Python scalar for sure: literals, len(), shape entries, int()/float()/bool() and arithmetic on those"""
    if t.op == "const":
        return not isinstance(const_value(t), (list, tuple, dict))
    if t.op == "sub" and t.args[0].op == "attr" and t.args[0].args[1] == "shape":
        return True
    if t.op == "call" and t.args[0].op == "global" and t.args[0].args[0] in ("builtins.len", "builtins.int", "builtins.float", "builtins.bool"):
        return True
    if t.op == "binop":
        return _scalar_like(t.args[1]) and _scalar_like(t.args[2])
    if t.op == "ite":
        return _scalar_like(t.args[1]) and _scalar_like(t.args[2])
    return False


def _prefit_container(holder: T, self_term: T, attr: str) -> bool:
    raw = mk("attr", self_term, attr)
    return any(x is raw for x in _leaves(holder))


def _inplace_mutations(r):
    """(event, attribute, container term) for `self.a[k] = v`, `d = self.a; d[k] = v`, `self.a.append(v)` ..."""
    out = []
    st = r.self_term
    if st is None:
        return out
    for e in r.events:
        if e.kind == "store" and e.data.get("tkind") == "sub":
            holder = e.data["obj"]
        elif e.kind == "call" and not e.data.get("resolved") and e.data["fterm"].op == "attr" and e.data["fterm"].args[1] in MUTATORS:
            holder = e.data["fterm"].args[0]
        else:
            continue
        for x in _leaves(holder):
            if x.op == "attr" and x.args[0] is st:
                out.append((e, x.args[1], holder))
                break
        else:
            b = e.data.get("base_node")
            if isinstance(b, ast.Attribute) and isinstance(b.value, ast.Name) and e.state is not None \
                    and e.state.loc.get(b.value.id) is st:
                out.append((e, b.attr, holder))
    return out


def _note_or_ob(ctx, is_subject, rule, fq, node, ok, text, construct):
    if is_subject or ok:
        ctx.ob(rule, fq, node, ok, text, construct=construct)
    else:
        ctx.note(f"NOTE (outside the property's subjects) {rule} {fq}: {text}")
        print(f"NOTE: {rule} {fq}: {text}")


def _fit_rules(ctx, A, cls, m, fi, r, params, cfg, is_subject):
    cname = cls.split(":")[1]
    # R19.1
    hits = [(e, a, k) for e, a, k in self_stores(r) if a in params]
    seen = set()
    for e, a, k in hits:
        if (a, e.func) in seen:
            continue
        seen.add((a, e.func))
        _note_or_ob(ctx, is_subject, "R19.1", e.func, e.node, False,
                    f"{cname}.{m} writes constructor parameter '{a}' ({k}): get_params() differs before and after {m}",
                    f"self.{a} written in {m}")
    if not hits:
        ctx.ob("R19.1", fi.fq, None, True, f"{cname}.{m}: none of the {len(params)} constructor parameters is written "
               f"({len(self_stores(r))} attribute writes inspected)", construct=f"{cname}.{m} ctor-param writes")
    # R19.2
    bad = [(pc, v) for pc, v in r.returns if v is not r.self_term]
    if not r.returns:
        ctx.ob("R19.2", fi.fq, None, None, f"{cname}.{m} has no normal exit", construct=f"{cname}.{m} returns")
    else:
        why = ""
        if bad:
            v = bad[0][1]
            why = "None" if v is NONE else show(v, maxdepth=3)[:80]
        ctx.ob("R19.2", fi.fq, None, not bad,
               f"{cname}.{m}: all {len(r.returns)} normal exits return self" if not bad else
               f"{cname}.{m} returns {why} instead of self on {len(bad)} of {len(r.returns)} exits",
               construct=f"{cname}.{m} returns self")
    if m != "fit":
        return
    # R19.3 existence tests
    tests = existence_tests(r)
    branches = [e for e in r.events if e.kind == "branch" and e.data.get("folded") is None]
    for e, t, attr, how in tests:
        if attr in params:
            continue
        infl = [b for b in branches if b.seq > e.seq and any(x is t for x in subterms(b.data["cond"]))]
        # warm_start guard: the influenced branch also tests warm_start, or the test itself runs under one
        def ws(ev_):
            lits = list(pc_literals(ev_.pc)) + [ev_.data.get("cond")] if ev_.kind == "branch" else list(pc_literals(ev_.pc))
            return any(x is not None and tests_warm_start(x) for x in lits)
        infl = [b for b in infl if not ws(b)]
        if how.startswith("getattr") and not infl and r.final is not None:
            # the value an earlier fit left (not just its presence) flows into the state this fit stores
            infl = [e for (o_, a_), v_ in r.final.heap.items() if o_ is r.self_term and contains(v_, lambda s_: s_ is t)]
        if ws(e) and e.kind != "branch":
            infl = []
        if infl:
            b = infl[0]
            _note_or_ob(ctx, is_subject, "R19.3", e.func, e.node, False,
                        f"{cname}.fit tests for state of an earlier fit ({how} {attr!r}) and branches on it at "
                        f"{b.func.split(':')[1]}:{b.line}: a second fit does not behave like a fresh one",
                        f"{how} {attr} influences fit")
        else:
            ctx.ob("R19.3", e.func, e.node, True, f"{how} {attr!r} in {cname}.fit does not influence any non-constant "
                   "branch (constant under the call-site arguments, or warm_start-guarded)",
                   construct=f"{how} {attr} does not influence fit")
    # R19.3 plain reads of fitted state before any write
    reads = [e for e in r.events if e.kind == "read" and e.data["obj"] is r.self_term and e.data["attr"] not in cfg
             and not e.data["attr"].startswith("__")]
    rep = set()
    validates = [x for x in r.events if x.kind == "call" and x.data.get("callee") == "sklearn.utils.validation.validate_data"
                 and x.data["args"] and x.data["args"][0] is r.self_term]
    for e in reads:
        a = e.data["attr"]
        if a in rep:
            continue
        rep.add(a)
        # attributes that sklearn's validate_data(self, ...) sets are written by a preceding validate call
        if a in ("n_features_in_", "feature_names_in_") and any(dominates(v_, e) for v_ in validates):
            continue
        if any(tests_warm_start(x) for x in e.pc):
            continue
        _note_or_ob(ctx, is_subject, "R19.3", e.func, e.node, False,
                    f"{cname}.fit reads '{a}' before any write in this fit: only an earlier fit can have set it, so the "
                    "result of fit depends on the call history (e.g. records accumulate across fits)",
                    f"read of {a} before write in fit")
    # R19.8 state that __init__ derives from a constructor parameter and fit reads: set_params / clone().set_params() change the
    # parameter but not the derived attribute, so fit is no longer determined by get_params()
    init = ctx.prog.lookup_method(cls, "__init__")
    derived = {}
    if init is not None and init.cls in ctx.prog.classes:
        ri = A.run(init.fq, cls_ctx=cls)
        ptermset = {t for nm, t in ri.params.items() if t is not ri.self_term}
        for e in ri.events:
            if e.kind == "store" and e.data.get("tkind") == "attr" and e.data.get("obj") is ri.self_term and e.data["attr"] not in params:
                deps = [nm for nm, t in ri.params.items() if t in ptermset and contains(e.data["value"], lambda s_, t=t: s_ is t)]
                if deps:
                    derived[e.data["attr"]] = deps
    seen_d = set()
    for e in r.events:
        if e.kind == "read" and e.data["obj"] is r.self_term and e.data["attr"] in derived and e.data["attr"] not in seen_d:
            a = e.data["attr"]
            seen_d.add(a)
            _note_or_ob(ctx, is_subject, "R19.8", e.func, e.node, False,
                        f"{cname}.{m} reads self.{a}, which __init__ derives from the constructor parameter(s) {', '.join(derived[a])}: after "
                        f"set_params({derived[a][0]}=...) (or clone + set_params, as in a parameter search) the attribute keeps its old "
                        "value, so two estimators with equal get_params() fit differently", f"stale derived attribute {a} read in {m}")
    # R19.3 in-place mutation of a container that this fit did not create
    n_mut = 0
    seen_m = set()
    for e, a, holder in _inplace_mutations(r):
        n_mut += 1
        if a in params or (a, e.func) in seen_m:
            continue  # constructor parameters: R19.1
        pre = _prefit_container(holder, r.self_term, a)
        if not pre:
            continue
        if any(tests_warm_start(x) for x in e.pc):
            continue
        seen_m.add((a, e.func))
        _note_or_ob(ctx, is_subject, "R19.3", e.func, e.node, False,
                    f"{cname}.fit mutates self.{a} in place but has not assigned it in this fit: the container survives "
                    "from the constructor or an earlier fit, so entries accumulate across fits",
                    f"in-place mutation of pre-fit self.{a}")
    ctx.ob("R19.3", fi.fq, None, True, f"{cname}.fit: {n_mut} in-place container mutations inspected; each mutated "
           "container was created in this fit", construct=f"{cname}.fit containers are fresh", nontrivial=bool(n_mut))
    ctx.ob("R19.3", fi.fq, None, True, f"{cname}.fit: {len(tests)} existence tests and {len(reads)} reads of non-"
           "configuration state inspected", construct=f"{cname}.fit history scan", nontrivial=bool(tests or reads))
    # R19.6 un-copied fit of a constructor-parameter estimator
    for e in r.events:
        if e.kind != "call" or e.data.get("resolved"):
            continue
        f = e.data["fterm"]
        if f.op == "attr" and f.args[1] in ("fit", "partial_fit", "fit_transform"):
            recv = f.args[0]
            if recv.op == "attr" and recv.args[0] is r.self_term and recv.args[1] in params:
                guarded = any(x.op == "attr" and x.args[1] == "prefit" for x in pc_literals(e.pc))
                _note_or_ob(ctx, is_subject, "R19.6", e.func, e.node, bool(guarded),
                            f"{cname}.fit calls {f.args[1]} on the constructor-parameter object self.{recv.args[1]} "
                            "itself (no clone/deepcopy): the caller's estimator is mutated and refits are coupled",
                            f"un-copied {recv.args[1]}.{f.args[1]}")
            shallow = [x for x in _alternatives(recv) if x.op == "call" and x.args[0].op == "global" and x.args[0].args[0] == "copy.copy"]
            if shallow:
                _note_or_ob(ctx, is_subject, "R19.6", e.func, e.node, False,
                            f"{cname}.fit calls {f.args[1]} on a shallow copy ({show(shallow[0], maxdepth=3)[:60]}): nested objects "
                            "(sub-estimators, state containers) stay shared with the configured estimator and with every other copy, "
                            "so one fit rewrites what an earlier fitted model predicts with",
                            f"shallow-copied {f.args[1]} receiver")
    fits = [e for e in r.events if e.kind == "call" and not e.data.get("resolved") and e.data["fterm"].op == "attr"
            and e.data["fterm"].args[1] == "fit"]
    ctx.ob("R19.6", fi.fq, None, True, f"{cname}.fit: {len(fits)} wrapped-estimator fit calls inspected",
           construct=f"{cname}.fit wrapped fits", nontrivial=bool(fits))


def _alternatives(t):
    """the values a term can take, through conditionals, refinements and loop-carried variables"""
    out, stack, n = [], [t], 0
    while stack and n < 64:
        x = stack.pop()
        n += 1
        if x.op == "ite":
            stack.extend([x.args[1], x.args[2]])
        elif x.op == "assume":
            stack.append(x.args[1])
        elif x.op == "loopvar" and len(x.args) >= 3 and isinstance(x.args[2], T):
            stack.append(x.args[2])
        else:
            out.append(x)
    return out


def _predict_rules(ctx, A, cls, m, fi, r, is_subject):
    cname = cls.split(":")[1]
    writes = self_stores(r)
    bad = False
    seen = set()
    for e, a, k in writes:
        if (a, e.func) in seen:
            continue
        seen.add((a, e.func))
        bad = True
        _note_or_ob(ctx, is_subject, "R19.4", e.func, e.node, False,
                    f"{cname}.{m} writes self.{a} ({k}): prediction alters fitted state", f"self.{a} written in {m}")
    # in-place arithmetic on an alias of a fitted array:  b = self.beta_ ; b *= k   (ndarray.__imul__ mutates the fitted array)
    fit_heap = None
    for e in r.events:
        if not (e.kind == "store" and e.data.get("tkind") == "name" and isinstance(e.node, ast.AugAssign)):
            continue
        v = e.data["value"]
        cur = v.args[1] if v.op == "binop" else None
        if cur is None:
            continue
        attrs = [x.args[1] for x in _leaves(cur) if x.op == "attr" and x.args[0] is r.self_term]
        for a in attrs:
            if fit_heap is None:
                ff = ctx.prog.lookup_method(cls, "fit")
                rf = A.run(ff.fq, cls_ctx=cls) if ff is not None else None
                fit_heap = rf.final.heap if rf is not None and rf.final is not None else {}
                fit_self = rf.self_term if rf is not None else None
            fv = fit_heap.get((fit_self, a))
            if fv is not None and _scalar_like(fv):
                continue
            if (a, e.func) in seen:
                continue
            seen.add((a, e.func))
            bad = True
            _note_or_ob(ctx, is_subject, "R19.4", e.func, e.node, False,
                        f"{cname}.{m} applies an augmented assignment to a local alias of self.{a} (no copy): for an array this "
                        "updates the fitted attribute in place, so repeated predictions and a fresh estimator disagree",
                        f"self.{a} updated in place through an alias in {m}")
    for e in r.events:
        if e.kind == "call" and e.data.get("callee") in ("sklearn.utils.validation.validate_data",) and e.data["args"] \
                and e.data["args"][0] is r.self_term:
            rs = kw(e, "reset")
            if rs is not const(False):
                bad = True
                _note_or_ob(ctx, is_subject, "R19.4", e.func, e.node, False,
                            f"{cname}.{m} calls validate_data(self, ...) without reset=False: n_features_in_/"
                            "feature_names_in_ are overwritten (or deleted) by prediction", "validate_data resets in " + m)
        if e.kind == "call" and not e.data.get("resolved") and e.data["fterm"].op == "attr" \
                and e.data["fterm"].args[1] == "_validate_data" and e.data["fterm"].args[0] is r.self_term:
            if kw(e, "reset") is not const(False):
                bad = True
                _note_or_ob(ctx, is_subject, "R19.4", e.func, e.node, False,
                            f"{cname}.{m} calls self._validate_data(...) without reset=False", "_validate_data resets in " + m)
    if not bad:
        ctx.ob("R19.4", fi.fq, None, True, f"{cname}.{m} writes no estimator state", construct=f"{cname}.{m} is pure")


IDEMPOTENT = ("builtins.float", "builtins.int", "builtins.bool", "builtins.str")  # f(f(x)) is f(x): clone(get_params()) is stable


def _ctor_verbatim(ctx, classes, subjects, minimum=5):
    prog = ctx.prog
    A = Analysis(ctx, max_depth=4)
    n = 0
    for cls in classes:
        fi = prog.lookup_method(cls, "__init__")
        if fi is None or fi.cls not in prog.classes:
            continue
        r = A.run(fi.fq, cls_ctx=cls)
        if r.final is None:
            continue
        n += 1
        bad = []
        for p in prog.ctor_params(cls):
            if p not in r.params:
                continue  # declared by a base class and forwarded through **kwargs
            v = r.final.heap.get((r.self_term, p))
            idem = v is not None and v.op == "call" and v.args[0].op == "global" and v.args[0].args[0] in IDEMPOTENT \
                and len(v.args[1]) == 1 and v.args[1][0] is r.params[p] and not v.args[2]
            if v is not r.params[p] and not idem:
                bad.append((p, v))
        cname = cls.split(":")[1]
        if bad:
            p, v = bad[0]
            _note_or_ob(ctx, cls in subjects, "R19.8", fi.fq, None, False,
                        f"{cname}.__init__ stores {'nothing' if v is None else show(v, maxdepth=3)[:80]} in self.{p} instead of the "
                        f"argument itself ({len(bad)} parameter(s)): get_params()/clone no longer reproduce the configuration",
                        f"{cname}.__init__ verbatim")
        else:
            ctx.ob("R19.8", fi.fq, None, True, f"{cname}.__init__ stores its {len(prog.ctor_params(cls))} parameters verbatim",
                   construct=f"{cname}.__init__ verbatim")
    ctx.floor("R19.8", "estimator constructors", n, minimum)


def _latch_facts(A, prog, cls, mname):
    """Does cls.mname (with its super chain inlined) assert/raise on a flag of self and then set it?"""
    fi = prog.lookup_method(cls, mname)
    if fi is None:
        return None
    r = A.run(fi.fq, cls_ctx=cls)
    latches = []
    for e in r.events:
        if e.kind == "store" and e.data.get("tkind") == "attr" and e.data["obj"] is r.self_term \
                and e.data["value"] is TRUE:
            flag = e.data["attr"]
            fl = mk("attr", r.self_term, flag)
            for g in r.events:
                if g.seq >= e.seq:
                    break
                if g.kind == "assert" and contains(g.data["cond"], lambda s: s is fl):
                    latches.append((flag, g, e))
                if g.kind == "raise" and any(contains(c, lambda s: s is fl) for c in g.pc):
                    latches.append((flag, g, e))
    return latches


def _latches(ctx):
    prog = ctx.prog
    A = Analysis(ctx, max_depth=5)
    n_calls = 0
    for cls in SUBJECTS:
        fi = prog.lookup_method(cls, "fit")
        if fi is None:
            continue
        params = set(prog.ctor_params(cls))
        r = A.run(fi.fq, cls_ctx=cls)
        for e in r.events:
            if e.kind != "call" or e.data.get("resolved"):
                continue
            f = e.data["fterm"]
            if f.op != "attr":
                continue
            recv, mname = f.args
            if not (recv.op == "attr" and recv.args[0] is r.self_term and recv.args[1] in params):
                continue
            impls = [c for c in prog.classes if mname in prog.classes[c].methods]
            if not impls or mname in ("fit", "predict", "predict_proba", "transform", "fit_transform"):
                continue
            n_calls += 1
            facts = {c: _latch_facts(A, prog, c, mname) for c in impls}
            latched = {c: f_ for c, f_ in facts.items() if f_}
            ok = not (latched and len(latched) == len(impls))
            flag = next(iter(latched.values()))[0][0] if latched else ""
            ctx.ob("R19.5", e.func, e.node, ok,
                   f"{cls.split(':')[1]}.fit calls .{mname}() on its constructor parameter '{recv.args[1]}'; "
                   + (f"none of the {len(impls)} in-repo implementations is a one-shot latch" if ok else
                      f"every in-repo implementation asserts/raises unless self.{flag} is unset and then sets it: a second "
                      "fit (or the fit of a clone of a fitted estimator) fails"),
                   construct=f"{recv.args[1]}.{mname}() from fit")
    ctx.floor("R19.5", "method calls on constructor-parameter objects from fit", n_calls, 2)
    # fit must not branch on state that an earlier fit left in the caller's moment objects: a loaded-state attribute of an
    # object held in a constructor parameter may be tested only after this fit has (re)loaded that object
    base = M_MOMENT + ":Moment"
    state = {"data_loaded"}
    for c in prog.subclasses(base) + [base]:
        ld = prog.lookup_method(c, "load_data")
        if ld is None:
            continue
        try:
            rl = A.run(ld.fq, cls_ctx=c)
        except Exception:
            continue
        state |= {a for _, a, _ in self_stores(rl)}
    n_br = 0
    for cls in SUBJECTS:
        fi = prog.lookup_method(cls, "fit")
        if fi is None:
            continue
        params = set(prog.ctor_params(cls))
        r = A.run(fi.fq, cls_ctx=cls)

        def holder(o):
            return [x.args[1] for x in subterms(o) if x.op == "attr" and x.args[0] is r.self_term and x.args[1] in params]
        loads = [(e.data["fterm"].args[0], e.seq) for e in r.events if e.kind == "call" and e.data["fterm"].op in ("attr", "boundmethod")
                 and str(e.data["fterm"].args[1]).endswith("load_data")]
        seen_b = set()
        for b in r.events:
            if b.kind != "branch" or b.data.get("folded") is not None:
                continue
            for x in subterms(b.data["cond"]):
                if not (x.op == "attr" and x.args[1] in state and isinstance(x.args[0], T)):
                    continue
                hs = holder(x.args[0])
                if not hs:
                    continue
                n_br += 1
                loaded = any(seq < b.seq and (rv is x.args[0] or A.eq(rv, x.args[0])) for rv, seq in loads)
                key = (b.func, x.args[1])
                if key in seen_b:
                    continue
                seen_b.add(key)
                ctx.ob("R19.5", b.func, b.node, loaded,
                       f"{cls.split(':')[1]}.fit tests .{x.args[1]} of its constructor parameter '{hs[0]}' only after loading it in this fit"
                       if loaded else f"{cls.split(':')[1]}.fit branches on .{x.args[1]} of the object in its constructor parameter "
                       f"'{hs[0]}' before (re)loading it: the state an earlier fit left there decides what this fit does",
                       construct=f"{hs[0]}.{x.args[1]} tested in fit")
    ctx.note(f"R19.5: {n_br} reads of moment state in branch conditions of fit inspected")


def _event_terms(e):
    out = []

    def rec(v):
        if isinstance(v, T):
            out.append(v)
        elif isinstance(v, (tuple, list)):
            for y in v:
                rec(y)
        elif isinstance(v, dict):
            for y in v.values():
                rec(y)
    for k, v in e.data.items():
        rec(v)
    return out


def _reload_completeness(ctx):
    prog = ctx.prog
    A = Analysis(ctx, max_depth=5)
    base = M_MOMENT + ":Moment"
    concrete = [c for c in prog.subclasses(base) if "load_data" in {m for k in prog.mro(c) if k in prog.classes
                                                                    for m in prog.classes[k].methods}
                and c.split(":")[1] not in ("Moment", "ClassificationMoment", "LossMoment")]
    ctx.floor("R19.5", "concrete Moment classes", len(concrete), 9)
    # attributes that the reduction algorithms read from a moment object (anything that is not their own self)
    ext_reads = set()
    for sub in (M_GS + ":GridSearch", M_EG + ":ExponentiatedGradient"):
        rr = A.run(sub + ".fit", cls_ctx=sub)
        for e in rr.events:
            for v in _event_terms(e):
                for x in subterms(v):
                    if x.op == "attr" and x.args[0] is not rr.self_term and isinstance(x.args[1], str):
                        ext_reads.add(x.args[1])
    ctx.floor("R19.5", "attribute names the reductions read from other objects", len(ext_reads), 5)
    for cls in sorted(concrete):
        ld = prog.lookup_method(cls, "load_data")
        r = A.run(ld.fq, cls_ctx=cls)
        if r.final is None:
            ctx.ob("R19.5", ld.fq, None, None, "load_data has no normal exit", construct=f"{cls} reload")
            continue
        written = set()
        conditional = set()
        for (obj, attr), v in r.final.heap.items():
            if obj is not r.self_term:
                continue
            raw = mk("attr", r.self_term, attr)
            if contains(v, lambda s: s is raw) and not v.op == "upd" and v.op in ("ite",):
                conditional.add(attr)
            else:
                written.add(attr)
        cfg = config_attrs(prog, A.ev, cls)
        missing = {}
        # containers that load_data fills in place without creating them (created by __init__ or by an earlier load): entries of the
        # previous data survive the reload
        for (obj, attr), v in r.final.heap.items():
            if obj is not r.self_term or attr in ("tags",):
                continue
            raw = mk("attr", r.self_term, attr)
            if v is not raw and any(x is raw for x in _leaves(v)) and (attr in ext_reads or attr in cfg):
                if any(x is not raw for x in _leaves(v)):
                    continue   # re-created on some path: the existence-test rule below covers conditional creation
                missing.setdefault(attr, "load_data itself (filled in place, never re-created)")
        stored_any = {a for e, a, k in self_stores(r)}
        for a in sorted((stored_any & ext_reads) - written - cfg):
            missing.setdefault(a, "the reduction algorithms (read from the constraints object)")
        for e, t, attr, how in existence_tests(r):
            infl = [b for b in r.events if b.kind == "branch" and b.data.get("folded") is None and b.seq > e.seq
                    and any(x is t for x in subterms(b.data["cond"]))]
            if how.startswith("getattr") and not infl:
                # the old value itself (not just a test of its presence) ends up in the state load_data leaves behind
                infl = [1 for (o_, a_), v_ in r.final.heap.items() if o_ is r.self_term and contains(v_, lambda s_: s_ is t)]
            ctx.ob("R19.5", e.func, e.node, not infl,
                   f"{cls.split(':')[1]}.load_data tests for state of an earlier load ({how} {attr!r}) and branches on it: "
                   "reloading does not behave like loading into a fresh object" if infl else
                   f"{how} {attr!r} in load_data does not influence a branch", construct=f"{how} {attr} in load_data")
        for q in MOMENT_QUERIES:
            qf = prog.lookup_method(cls, q)
            if qf is None:
                continue
            rq = A.run(qf.fq, cls_ctx=cls)
            for e in rq.events:
                if e.kind == "read" and e.data["obj"] is rq.self_term:
                    a = e.data["attr"]
                    if a not in written and a not in cfg:
                        missing.setdefault(a, q)
        ok = not missing
        ctx.ob("R19.5", ld.fq, None, ok,
               f"{cls.split(':')[1]}.load_data (re)assigns all {len(written)} attributes its query methods read "
               "(reloading is a full reset)" if ok else
               f"{cls.split(':')[1]}: attributes {sorted(missing)} read by {sorted(set(missing.values()))} are not "
               "unconditionally assigned by load_data, so a reload keeps state of the previous data",
               construct=f"{cls.split(':')[1]} reload completeness")


def _pickle(ctx):
    prog = ctx.prog
    A = Analysis(ctx, max_depth=5)
    n = 0
    for cls in PICKLABLE:
        for m in ("fit", "__init__"):
            fi = prog.lookup_method(cls, m)
            if fi is None or fi.cls not in prog.classes:
                continue
            r = A.run(fi.fq, cls_ctx=cls)
            bad = False
            for e in r.events:
                val = None
                if e.kind == "store" and e.data.get("tkind") in ("attr", "sub"):
                    val = e.data["value"]
                elif e.kind == "call" and not e.data.get("resolved") and e.data["fterm"].op == "attr" \
                        and e.data["fterm"].args[1] in ("append", "extend", "insert", "add", "update", "setdefault"):
                    val = mk("tuple", tuple(e.data["args"]))
                if val is None:
                    continue
                n += 1
                # only state that ends up reachable from self matters: attribute of self, or of an object self stores
                what = unpicklable(val)
                if what is None:
                    continue
                reach = _reaches_self(e, r)
                if reach:
                    bad = True
                    ctx.ob("R19.7", e.func, e.node, False,
                           f"{cls.split(':')[1]}.{m} stores a {what} in estimator state ({reach}): the fitted estimator "
                           "cannot be pickled", construct=f"{what} stored by {m}")
            if not bad:
                ctx.ob("R19.7", fi.fq, None, True, f"{cls.split(':')[1]}.{m}: no unpicklable value reaches stored state",
                       construct=f"{cls.split(':')[1]}.{m} picklable state")
    ctx.floor("R19.7", "state stores inspected in the picklable estimators", n, 20)


def _reaches_self(e, r):
    """Is the store target (transitively, through objects constructed in this fit) estimator state?"""
    if e.kind == "store" and e.data.get("tkind") == "attr":
        obj = e.data["obj"]
        if obj is r.self_term:
            return f"self.{e.data['attr']}"
        if obj.op == "new":
            return f"attribute {e.data['attr']} of a {obj.args[0].split(':')[1]} object created during fit"
        return None
    if e.kind == "store" and e.data.get("tkind") == "sub":
        import ast as _ast
        b = e.data.get("base_node")
        if isinstance(b, _ast.Attribute):
            return f"item of .{b.attr}"
        return None
    if e.kind == "call":
        recv = e.data["fterm"].args[0]
        if contains(recv, lambda s: s is r.self_term) or recv.op in ("attr",):
            return "container " + show(recv, maxdepth=2)[:60]
    return None
