"""D-SHAPE: numpy rank / extent-class abstract interpretation over terms.

Abstract values:  Scalar | Arr(extents) | Lst(n) | Top, where an extent is (name, 'one' | 'many') -
'one' means exactly 1, 'many' means >= 2.  Branch conditions on .size / .ndim / len(.shape) are decided
in the abstract, so helpers like `_convert_to_ndarray_and_squeeze` are interpreted path-sensitively
without running them.
"""
from __future__ import annotations

from .terms import NONE, T, const_value


class Sh:
    pass


class Scalar(Sh):
    def __repr__(self):
        return "scalar"

    def __eq__(self, o):
        return isinstance(o, Scalar)

    def __hash__(self):
        return 1


class NoneV(Sh):
    def __repr__(self):
        return "None"

    def __eq__(self, o):
        return isinstance(o, NoneV)

    def __hash__(self):
        return 2


class Top(Sh):
    def __init__(self, why=""):
        self.why = why

    def __repr__(self):
        return f"top({self.why})"


class Arr(Sh):
    def __init__(self, ext):
        self.ext = tuple(ext)  # each: (name, 'one'|'many')

    @property
    def rank(self):
        return len(self.ext)

    def size_class(self):
        return "many" if any(k == "many" for _, k in self.ext) else "one"

    def __repr__(self):
        return "array(" + ", ".join(("1" if k == "one" else n) for n, k in self.ext) + ")"

    def __eq__(self, o):
        return isinstance(o, Arr) and [k for _, k in self.ext] == [k for _, k in o.ext] and \
            [n for n, k in self.ext if k == "many"] == [n for n, k in o.ext if k == "many"]

    def __hash__(self):
        return hash(tuple(k for _, k in self.ext))


class Tup(Sh):
    def __init__(self, items):
        self.items = list(items)

    def __repr__(self):
        return "tuple(" + ", ".join(map(repr, self.items)) + ")"


class Num(Sh):
    """A known small non-negative integer / extent used in shape arithmetic (len(x), x.shape[0], .size, .ndim)."""

    def __init__(self, val=None, ext=None):
        self.val = val  # concrete int, or None
        self.ext = ext  # (name, kind) when the number is an extent

    def __repr__(self):
        return f"num({self.val if self.val is not None else self.ext})"


class Unknown(Exception):
    pass


def broadcast(a: Sh, b: Sh) -> Sh:
    if isinstance(a, (Scalar, Num)) and isinstance(b, (Scalar, Num)):
        return Scalar()
    if isinstance(a, (Scalar, Num)):
        return b
    if isinstance(b, (Scalar, Num)):
        return a
    if isinstance(a, Arr) and isinstance(b, Arr):
        ra, rb = list(a.ext), list(b.ext)
        while len(ra) < len(rb):
            ra.insert(0, ("1", "one"))
        while len(rb) < len(ra):
            rb.insert(0, ("1", "one"))
        out = []
        for x, y in zip(ra, rb):
            out.append(y if x[1] == "one" else x)
        return Arr(out)
    return Top("broadcast")


class ShapeEval:
    def __init__(self, env: dict):
        self.env = env  # term -> Sh
        self.memo = {}

    def ev(self, t: T) -> Sh:
        if t in self.env:
            return self.env[t]
        r = self.memo.get(t.uid)
        if r is None:
            r = self._ev(t)
            self.memo[t.uid] = r
        return r

    # -- conditions
    def truth(self, c: T):
        """True / False / None (unknown) of a condition in the abstract."""
        op, a = c.op, c.args
        if op == "const":
            return bool(const_value(c))
        if op == "not":
            r = self.truth(a[0])
            return None if r is None else (not r)
        if op == "and":
            rs = [self.truth(x) for x in a[0]]
            if any(r is False for r in rs):
                return False
            return True if all(r is True for r in rs) else None
        if op == "or":
            rs = [self.truth(x) for x in a[0]]
            if any(r is True for r in rs):
                return True
            return False if all(r is False for r in rs) else None
        if op == "cmp":
            o, l, r = a
            if o in ("is", "is not") and (l is NONE or r is NONE):
                other = r if l is NONE else l
                v = self.ev(other)
                if isinstance(v, Top):
                    return None
                res = isinstance(v, NoneV)
                return res if o == "is" else (not res)
            lv, rv = self.ev(l), self.ev(r)
            if isinstance(lv, Num) and isinstance(rv, Num):
                return _cmp_num(o, lv, rv)
            return None
        # a bare extent / count used as a condition: true exactly when it is not 0
        try:
            v = self.ev(c)
        except Exception:  # noqa: BLE001
            return None
        if isinstance(v, Num):
            return _cmp_num("!=", v, Num(0))
        return None

    def _num_of(self, t: T):
        v = self.ev(t)
        return v if isinstance(v, Num) else None

    def _ev(self, t: T) -> Sh:
        op, a = t.op, t.args
        if op == "const":
            v = const_value(t)
            if v is None:
                return NoneV()
            if isinstance(v, bool):
                return Scalar()
            if isinstance(v, int):
                return Num(v)
            return Scalar()
        if op in ("assume", "modconst"):
            return self.ev(a[1])
        if op == "ite":
            c = self.truth(a[0])
            if c is True:
                return self.ev(a[1])
            if c is False:
                return self.ev(a[2])
            x, y = self.ev(a[1]), self.ev(a[2])
            if _same(x, y):
                return x
            return Top(f"undecided branch")
        if op in ("binop", "cmp"):
            o = a[0]
            l, r = self.ev(a[1]), self.ev(a[2])
            if isinstance(l, Num) and isinstance(r, Num) and op == "binop":
                return _num_arith(o, l, r)
            if isinstance(l, (Top, NoneV)) or isinstance(r, (Top, NoneV)):
                return Top("operand")
            return broadcast(l, r)
        if op == "unop":
            return self.ev(a[1])
        if op == "not":
            return Scalar()
        if op in ("tuple", "list"):
            return Tup([self.ev(x) for x in a[0]])
        if op == "attr":
            base = self.ev(a[0])
            n = a[1]
            if isinstance(base, Arr):
                if n == "size":
                    return Num(1 if base.size_class() == "one" else None, ("size", base.size_class()))
                if n == "ndim":
                    return Num(base.rank)
                if n == "shape":
                    return Tup([Num(1 if k == "one" else None, (nm, k)) for nm, k in base.ext])
                if n == "T":
                    return Arr(tuple(reversed(base.ext)))
                if n == "values":
                    return base
            return Top(f"attr {n}")
        if op == "sub":
            base = self.ev(a[0])
            key = a[1]
            if isinstance(base, Tup) and key.op == "const" and isinstance(const_value(key), int):
                k = const_value(key)
                if -len(base.items) <= k < len(base.items):
                    return base.items[k]
            if isinstance(base, Arr):
                return self._index(base, key)
            return Top("subscript")
        if op == "call":
            return self._call(t)
        return Top(op)

    def _index(self, base: Arr, key: T) -> Sh:
        keys = key.args[0] if key.op == "tuple" else (key,)
        ext = list(base.ext)
        out = []
        i = 0
        for k in keys:
            if i >= len(ext):
                return Top("too many indices")
            if k.op == "slice":
                if all(x is NONE for x in k.args):
                    out.append(ext[i])
                else:
                    out.append((ext[i][0] + "'", "many" if ext[i][1] == "many" else "one"))
            else:
                kv = self.ev(k)
                if isinstance(kv, (Num, Scalar)):
                    pass  # integer index drops the axis
                elif isinstance(kv, Arr) and kv.rank == 1:
                    out.append(kv.ext[0])  # fancy / mask index keeps one axis
                elif isinstance(kv, Tup):
                    out.append((f"sel{len(kv.items)}", "many" if len(kv.items) >= 2 else "one"))
                else:
                    return Top("index")
            i += 1
        out.extend(ext[i:])
        return Arr(out) if out else Scalar()

    def _call(self, t: T) -> Sh:
        f, args, kwargs = t.args
        kw = dict(kwargs)
        name = None
        recv = None
        if f.op == "global":
            name = f.args[0]
            n = name.split(".")[-1]
            if name.startswith("numpy.") or name.startswith("builtins.") or name.startswith("sklearn."):
                pass
            else:
                return Top(name)
            vals = [self.ev(x) for x in args]
        elif f.op == "attr":
            recv = self.ev(f.args[0])
            n = f.args[1]
            vals = [recv] + [self.ev(x) for x in args]
        else:
            return Top("call")
        x = vals[0] if vals else None
        if n in ("asarray", "array", "copy", "astype", "abs", "absolute", "exp", "sqrt", "log", "clip", "negative",
                 "to_numpy", "float", "int"):
            if isinstance(x, Tup):
                if all(isinstance(i, (Scalar, Num)) for i in x.items):
                    return Arr([(f"lit{len(x.items)}", "many" if len(x.items) >= 2 else "one")])
                return Top("array of non-scalars")
            if isinstance(x, Num):
                return Scalar()
            return x if x is not None else Top(n)
        if n == "squeeze":
            if isinstance(x, Arr):
                ax = kw.get("axis")
                if ax is not None or len(vals) > 1:
                    return Top("squeeze axis")
                return Arr([e for e in x.ext if e[1] != "one"])
            return x
        if n in ("ravel", "flatten"):
            if isinstance(x, Arr):
                return Arr([("flat", x.size_class())])
            return Top(n)
        if n == "reshape":
            if isinstance(x, Arr) and len(args) >= 1:
                dims = args if recv is not None else args[1:]
                if len(dims) == 1 and dims[0].op == "tuple":
                    dims = dims[0].args[0]
                out = []
                for d in dims:
                    dv = self.ev(d)
                    if isinstance(dv, Num) and dv.val == 1:
                        out.append(("1", "one"))
                    elif isinstance(dv, Num) and dv.val == -1:
                        out.append(("flat", x.size_class()))
                    elif isinstance(dv, Num) and dv.ext is not None:
                        out.append(dv.ext)
                    else:
                        return Top("reshape dim")
                return Arr(out)
            return Top("reshape")
        if n in ("atleast_1d",):
            if isinstance(x, Arr):
                return x if x.rank >= 1 else Arr([("1", "one")])
            if isinstance(x, (Scalar, Num)):
                return Arr([("1", "one")])
            return Top(n)
        if n == "atleast_2d":
            if isinstance(x, Arr):
                if x.rank >= 2:
                    return x
                if x.rank == 1:
                    return Arr([("1", "one")] + list(x.ext))
                return Arr([("1", "one"), ("1", "one")])
            return Top(n)
        if n == "len":
            if isinstance(x, Arr) and x.rank >= 1:
                return Num(1 if x.ext[0][1] == "one" else None, x.ext[0])
            if isinstance(x, Tup):
                return Num(len(x.items))
            return Top("len")
        if n in ("ones_like", "zeros_like", "empty_like", "full_like"):
            if isinstance(x, (Arr, Scalar)):
                return x
            if isinstance(x, Num):
                return Scalar()
            return Top(n)
        if n in ("ones", "zeros", "empty", "full"):
            d = vals[0] if recv is None else None
            if isinstance(d, Num):
                if d.ext is not None:
                    return Arr([d.ext])
                return Arr([(f"c{d.val}", "one" if d.val == 1 else "many")])
            if isinstance(d, Tup) and all(isinstance(i, Num) for i in d.items):
                return Arr([(i.ext if i.ext is not None else (f"c{i.val}", "one" if i.val == 1 else "many")) for i in d.items])
            return Top(n)
        if n in ("sum", "mean", "max", "min", "amax", "amin", "std", "var", "prod"):
            if isinstance(x, Arr):
                ax = kw.get("axis")
                if ax is None and len(vals) > 1 and recv is not None and isinstance(vals[1], Num):
                    axv = vals[1].val
                elif ax is None and recv is None and len(vals) > 1 and isinstance(vals[1], Num):
                    axv = vals[1].val
                elif ax is None:
                    return Scalar()
                else:
                    av = self.ev(ax)
                    if isinstance(av, NoneV):
                        return Scalar()
                    if not isinstance(av, Num) or av.val is None:
                        return Top("axis")
                    axv = av.val
                if not (-x.rank <= axv < x.rank):
                    return Top("axis out of range")
                ext = list(x.ext)
                del ext[axv]
                return Arr(ext) if ext else Scalar()
            if isinstance(x, (Scalar, Num)):
                return Scalar()
            return Top(n)
        if n in ("dot", "matmul", "inner"):
            if len(vals) < 2:
                return Top("dot arity")
            a_, b_ = vals[0], vals[1]
            if isinstance(a_, (Scalar, Num)) or isinstance(b_, (Scalar, Num)):
                return broadcast(a_, b_)
            if isinstance(a_, Arr) and isinstance(b_, Arr):
                if a_.rank == 0 or b_.rank == 0:
                    return broadcast(a_, b_)  # scalar multiplication: result keeps the other operand's shape
                if a_.rank == 1 and b_.rank == 1:
                    return Scalar()
                if a_.rank == 2 and b_.rank == 1:
                    return Arr([a_.ext[0]])
                if a_.rank == 1 and b_.rank == 2:
                    return Arr([b_.ext[1]])
                if a_.rank == 2 and b_.rank == 2:
                    return Arr([a_.ext[0], b_.ext[1]])
            return Top("dot")
        if n == "vstack":
            if isinstance(x, Tup) and all(isinstance(i, Arr) and i.rank == 1 for i in x.items):
                return Arr([(f"rows{len(x.items)}", "many" if len(x.items) >= 2 else "one"), x.items[0].ext[0]])
            return Top("vstack")
        if n == "confusion_matrix":
            lab = kw.get("labels")
            return Arr([("L", "many"), ("L", "many")])
        if n == "unique":
            return Arr([("uniq", "many")]) if isinstance(x, Arr) else Top("unique")
        if n == "lstsq":
            a_, b_ = vals[0], vals[1]
            if isinstance(a_, Arr) and isinstance(b_, Arr) and a_.rank == 2 and b_.rank == 2:
                return Tup([Arr([a_.ext[1], b_.ext[1]]), Top("res"), Top("rank"), Top("sv")])
            return Top("lstsq")
        if n in ("transpose",):
            if isinstance(x, Arr):
                return Arr(tuple(reversed(x.ext)))
        return Top(n)


def _same(x, y):
    if type(x) is not type(y):
        return False
    if isinstance(x, Arr):
        return x == y
    return isinstance(x, (Scalar, NoneV))


def _cmp_num(o, l: Num, r: Num):
    def rng(n):
        if n.val is not None:
            return n.val, n.val
        if n.ext is not None:
            return (1, 1) if n.ext[1] == "one" else (2, float("inf"))
        return 0, float("inf")
    (a0, a1), (b0, b1) = rng(l), rng(r)
    if o == "==":
        if a0 == a1 == b0 == b1:
            return True
        if a1 < b0 or b1 < a0:
            return False
        return None
    if o == "!=":
        r_ = _cmp_num("==", l, r)
        return None if r_ is None else (not r_)
    if o == "<":
        if a1 < b0:
            return True
        if a0 >= b1:
            return False
        return None
    if o == "<=":
        if a1 <= b0:
            return True
        if a0 > b1:
            return False
        return None
    if o == ">":
        return _cmp_num("<", r, l)
    if o == ">=":
        return _cmp_num("<=", r, l)
    return None


def _num_arith(o, l: Num, r: Num):
    if l.val is not None and r.val is not None:
        try:
            return Num({"+": l.val + r.val, "-": l.val - r.val, "*": l.val * r.val}[o])
        except KeyError:
            return Scalar()
    return Scalar()
