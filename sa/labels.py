"""D-LABEL: pandas label-provenance analysis (raw-alias discipline) over the term/event model.

Every value is abstracted to (kind, provenance): kind in {CLEAN (ndarray / list / scalar / unknown external
result), DEFAULT (pandas object whose index was created internally), USER (may still be the caller's
pandas object, or a label-preserving derivative of it)}; provenance is the set of source parameters the
labels may come from.  A *sink* is an operation that aligns or looks up by label and involves a USER value
together with a differently-labelled pandas value (or a constant / foreign key).  Only sinks are reported;
sanitising, benign and pass-through uses are not.
"""
from __future__ import annotations

from .terms import NONE, Event, Result, T, const_value, glob, show, subterms

CLEAN, DEFAULT, USER = 0, 1, 2

DATA_PARAM_NAMES = {"y", "y_true", "y_pred", "sensitive_features", "control_features", "sample_weight", "labels",
                    "scores", "sample_params", "kwargs", "sensitive_feature_vector", "other_params", "X"}

# external callables whose result never carries the argument's labels (position-only conversions, reductions to
# scalars, validators).  Trusted table.
SANITISING_FUNCS = {
    "numpy.asarray", "numpy.array", "builtins.list", "builtins.tuple", "builtins.len", "builtins.sum", "builtins.set",
    "builtins.sorted", "builtins.int", "builtins.float", "builtins.str", "builtins.bool", "builtins.type",
    "builtins.isinstance", "builtins.callable", "builtins.hasattr", "builtins.enumerate", "builtins.zip",
    "builtins.min", "builtins.max", "builtins.any", "builtins.all", "builtins.range", "builtins.map",
    "sklearn.utils.validation.check_array", "sklearn.utils.validation.validate_data",
    "sklearn.utils.validation.check_consistent_length", "sklearn.utils.validation.check_is_fitted",
    "sklearn.utils.multiclass.type_of_target", "sklearn.metrics.confusion_matrix", "numpy.unique", "numpy.vstack",
    "numpy.hstack", "numpy.concatenate", "numpy.zeros", "numpy.ones", "numpy.atleast_1d", "numpy.atleast_2d",
    "numpy.isscalar", "numpy.dot", "numpy.sum", "numpy.mean", "numpy.linspace", "numpy.searchsorted", "numpy.where",
    "numpy.argmax", "numpy.argmin", "numpy.full", "numpy.ravel", "numpy.shape", "numpy.size", "numpy.ndim",
    "numpy.isnan", "numpy.issubdtype", "pandas.isnull", "pandas.notnull", "pandas.isna", "pandas.notna",
    "pandas.api.types.is_scalar", "copy.deepcopy", "logging.Logger.debug",
}
# numpy functions that hand a pandas argument back as pandas (ufunc protocol / delegation to the method)
PRESERVING_FUNCS = {
    "numpy.squeeze", "numpy.abs", "numpy.absolute", "numpy.exp", "numpy.log", "numpy.sqrt", "numpy.clip",
    "numpy.negative", "numpy.maximum", "numpy.minimum", "numpy.multiply", "numpy.add", "numpy.subtract",
    "numpy.divide", "numpy.around", "numpy.round", "numpy.amin", "numpy.amax", "numpy.min", "numpy.max",
    "numpy.transpose", "numpy.square", "numpy.sign", "numpy.floor", "numpy.ceil", "numpy.cumsum",
}
SANITISING_METHODS = {"to_numpy", "tolist", "to_list", "item", "to_dict", "nunique", "count", "all", "any"}
SANITISING_ATTRS = {"values", "shape", "size", "ndim", "dtype", "dtypes", "name", "empty", "__name__", "__class__"}
LABEL_ATTRS = {"index", "columns"}
# methods that align their pandas argument with the receiver by label
ALIGNING_METHODS = {"combine", "combine_first", "add", "sub", "mul", "div", "truediv", "dot", "where", "mask", "join",
                    "merge", "align", "reindex_like", "groupby", "corr", "cov", "eq", "ne", "lt", "le", "gt", "ge",
                    "update", "assign", "insert", "map", "isin_", "radd", "rsub", "rmul", "rdiv", "multiply", "subtract",
                    "divide", "corrwith", "append", "compare", "equals_"}
ESTIMATOR_METHODS = {"fit", "predict", "predict_proba", "decision_function", "transform", "fit_transform",
                     "partial_fit", "score", "inverse_transform", "evaluate", "train_step"}
NON_PANDAS_TYPES = {"builtins.list", "numpy.ndarray", "builtins.str",
                    "builtins.int", "builtins.float"}


def _python_container(t: T, depth=0) -> bool:
    """a python list / tuple / dict / set (literal, comprehension, grown in a loop), or an element of one that is itself a tuple / list"""
    while t.op in ("loopout", "loopvar", "assume", "listappend", "listextend"):
        t = t.args[1] if t.op == "assume" else (t.args[2] if t.op in ("loopout", "loopvar") else t.args[0])
    if t.op in ("list", "tuple", "dict", "set", "comp"):
        return True
    if t.op == "elem" and depth < 3:
        items = _put_items(t.args[0])
        return bool(items) and all(x.op in ("tuple", "list") for x in items)
    return False


def _put_items(c: T):
    """the terms put into a python list / tuple / comprehension (also when it is grown by append in a loop); [] when unknown"""
    items = []
    while c.op in ("loopout", "loopvar", "assume", "listappend", "listextend"):
        if c.op in ("listappend",):
            items.append(c.args[1])
        if c.op == "loopout":
            for v_ in c.args[3]:
                while v_.op == "assume":
                    v_ = v_.args[1]
                if v_.op == "listappend":
                    items.append(v_.args[1])
        c = c.args[1] if c.op == "assume" else (c.args[2] if c.op in ("loopout", "loopvar") else c.args[0])
    if c.op == "comp":
        items.append(c.args[1])
    elif c.op in ("list", "tuple", "set"):
        items.extend(c.args[0])
    else:
        return []
    return items if all(isinstance(x, T) for x in items) else []


class LabelDomain:
    def __init__(self, sources: dict, assume_clean_params=()):
        """sources: {param term: display name}."""
        self.sources = dict(sources)
        self.memo = {}
        self.passthrough_unanalysed = 0
        self.fields = {}  # attribute name -> (kind, prov) of values stored into fields of in-repo objects

    def learn_fields(self, events):
        """Field summaries: what was stored in attributes of objects constructed during the walk."""
        for _ in range(2):
            changed = False
            self.memo = {}
            for e in events:
                if e.kind == "store" and e.data.get("tkind") == "attr" and e.data["obj"].op == "new":
                    k, p = self.val(e.data["value"])
                    if k == CLEAN:
                        continue
                    old = self.fields.get(e.data["attr"], (CLEAN, frozenset()))
                    new = self._join([old, (k, p)])
                    if new != old:
                        self.fields[e.data["attr"]] = new
                        changed = True
            if not changed:
                break
        self.memo = {}

    # ------------------------------------------------------------------ abstraction
    def val(self, t: T, clean: frozenset = frozenset()):
        key = (t.uid, clean)
        r = self.memo.get(key)
        if r is None:
            self.memo[key] = (CLEAN, frozenset())  # cycle guard
            r = self._val(t, clean)
            self.memo[key] = r
        return r

    def _join(self, vals):
        k = CLEAN
        p = frozenset()
        for kk, pp in vals:
            if kk > k:
                k = kk
            p = p | pp
        return k, p

    def _val(self, t: T, clean):
        op, a = t.op, t.args
        v = lambda x: self.val(x, clean)  # noqa: E731
        if t.uid in clean:
            return CLEAN, frozenset()
        if op == "param":
            if t in self.sources:
                return USER, frozenset([self.sources[t]])
            return CLEAN, frozenset()
        if op in ("const", "global", "modconst", "bv", "lam", "lambda", "closure", "new", "undef", "noreturn", "fstr",
                  "slice", "exception", "super", "boundmethod", "classattr", "localclass", "dictkeys"):
            return CLEAN, frozenset()
        if op == "attr":
            base, name = a
            if name in SANITISING_ATTRS:
                return CLEAN, frozenset()
            k, p = v(base)
            if k == CLEAN and name in self.fields:
                return self.fields[name]
            return k, p
        if op == "sub":
            # positional scalar pick from a reduction: labels.sum().iloc[0] is a scalar
            if a[0].op == "attr" and a[0].args[1] in ("iloc", "iat") and a[1].op == "const" \
                    and isinstance(const_value(a[1]), int) and _is_reduction(a[0].args[0]):
                return CLEAN, frozenset()
            if a[0].op == "elem" and a[1].op == "const" and isinstance(const_value(a[1]), int) and not isinstance(const_value(a[1]), bool):
                # (name, values) = pair of a list of pairs: the i-th component of the records
                its = _put_items(a[0].args[0])
                i_ = const_value(a[1])
                if its and all(x.op in ("tuple", "list") and -len(x.args[0]) <= i_ < len(x.args[0]) and isinstance(x.args[0][i_], T)
                               for x in its):
                    return self._join([v(x.args[0][i_]) for x in its])
            tu = _tuple_unpack(t)
            if tu is not None:
                recv, meth, i = tu
                if meth in ("items", "iteritems") and i == 0:
                    return CLEAN, frozenset()
                if meth in ("groupby",) and i == 0:
                    return CLEAN, frozenset()
                if meth in ("enumerate", "zip"):
                    return CLEAN, frozenset()
                return v(recv) if recv is not None else (CLEAN, frozenset())
            return v(a[0])
        if op == "upd":
            base = a[0]
            while base.op in ("upd", "loopvar", "assume", "loopout"):
                base = base.args[0] if base.op == "upd" else (base.args[1] if base.op == "assume" else base.args[2])
            if base.op in ("dict", "list", "comp") or (base.op == "call" and base.args[0].op == "global"
                                                       and base.args[0].args[0] in ("builtins.dict", "builtins.list")):
                # a python container holds what was put into it: d[k] = series; ... d[k] is that series, labels included
                return self._join([v(a[0]), v(a[2])])
            return v(a[0])
        if op == "assume":
            ca, _ = refine_by_cond(a[0], clean)
            return self.val(a[1], ca)
        if op == "ite":
            ca, cb = refine_by_cond(a[0], clean)
            return self._join([self.val(a[1], ca), self.val(a[2], cb)])
        if op in ("binop", "cmp"):
            return self._join([v(a[1]), v(a[2])])
        if op == "unop":
            return v(a[1])
        if op == "not":
            return v(a[0])
        if op in ("and", "or"):
            return self._join([v(x) for x in a[0]])
        if op == "dict":
            return self._join([v(val_) for _k, val_ in a[0]])     # the label state of what the container holds (a python
        if op == "kv":                                                # container has no labels of its own; its elements may)
            return v(a[1])
        if op in ("tuple", "list", "set"):
            return self._join([v(x) for x in a[0]])
        if op == "comp":
            return v(a[1])
        if op in ("listappend", "listextend"):
            return self._join([v(a[0]), v(a[1])])
        if op == "elem":
            it = a[0]
            if it.op == "call" and it.args[0].op == "attr" and it.args[0].args[1] in ("groupby", "iterrows", "items",
                                                                                      "itertuples", "iteritems"):
                return v(it.args[0].args[0])
            if it.op == "call" and it.args[0].op == "attr" and it.args[0].args[1] in ("groupby",):
                return v(it.args[0].args[0])
            k, p = v(it)
            if k != CLEAN and it.op == "call" and it.args[0].op == "attr" and it.args[0].args[1] == "groupby":
                return k, p
            base = it
            while base.op in ("loopout", "loopvar", "assume", "listappend", "listextend", "upd"):
                base = base.args[1] if base.op == "assume" else (base.args[2] if base.op in ("loopout", "loopvar") else base.args[0])
            if base.op in ("list", "tuple", "set", "dict", "comp"):
                return k, p      # an element of a python container is one of the (possibly labelled) objects put into it
            return CLEAN, frozenset()
        if op in ("loopvar",):
            return v(a[2])
        if op == "loopout":
            return self._join([v(a[2])] + [v(x) for x in a[3]])
        if op in ("maybe", "enter", "starred", "starsub", "yielded", "fmtval"):
            return CLEAN, frozenset()
        if op == "call":
            return self._call(t, clean)
        return CLEAN, frozenset()

    def _call(self, t: T, clean):
        f, args, kwargs = t.args
        v = lambda x: self.val(x, clean)  # noqa: E731
        allargs = list(args) + [x for _, x in kwargs]
        if f.op == "global":
            n = f.args[0]
            if n in SANITISING_FUNCS:
                return CLEAN, frozenset()
            if n in PRESERVING_FUNCS:
                return self._join([v(x) for x in allargs])
            if n in ("pandas.Series", "pandas.DataFrame", "pandas.DataFrame.from_dict"):
                data = args[0] if args else dict(kwargs).get("data")
                idx = dict(kwargs).get("index")
                parts = []
                if data is not None:
                    parts.append(v(data))
                    parts.extend(self.val(x, c2) for x, c2 in _container_items(data, clean) if x is not data)
                if idx is not None:
                    parts.append(v(idx))
                k, p = self._join(parts) if parts else (CLEAN, frozenset())
                if k == CLEAN:
                    return DEFAULT, frozenset(["<default>"])
                return k, p
            if n in ("pandas.concat",):
                parts = []
                for x in allargs:
                    if x.op in ("list", "tuple"):
                        parts.extend(v(y) for y in x.args[0])
                    else:
                        parts.append(v(x))
                return self._join(parts)
            if n == "builtins.getattr" and len(args) >= 2 and args[1].op == "const" and const_value(args[1]) in LABEL_ATTRS | {"loc", "values"}:
                if const_value(args[1]) == "values":
                    return CLEAN, frozenset()
                return self._join([v(args[0])] + ([v(args[2])] if len(args) > 2 else []))  # getattr(x, "index", d) is x.index
            if n.startswith("numpy.") or n.startswith("builtins.") or n.startswith("sklearn.") \
                    or n.startswith("scipy.") or n.startswith("math.") or n.startswith("time."):
                return CLEAN, frozenset()
            if ":" in n:
                # in-repo function that was not inlined: conservative pass-through of the arguments' labels
                self.passthrough_unanalysed += 1
                return self._join([v(x) for x in allargs])
            return CLEAN, frozenset()
        if f.op == "attr":
            recv, m = f.args
            rk, rp = v(recv)
            if m in SANITISING_METHODS:
                return CLEAN, frozenset()
            if m == "reset_index":
                return (DEFAULT, frozenset(["<default>"])) if rk != CLEAN else (CLEAN, frozenset())
            if m in ESTIMATOR_METHODS and rk == CLEAN:
                return CLEAN, frozenset()  # documented assumption: wrapped estimators return label-free arrays
            if rk == CLEAN:
                return CLEAN, frozenset()
            return self._join([(rk, rp)] + [v(x) for x in allargs if self.val(x, clean)[0] != CLEAN])
        if f.op == "boundmethod":
            self.passthrough_unanalysed += 1
            return self._join([v(x) for x in allargs])
        return CLEAN, frozenset()

    # ------------------------------------------------------------------ sinks
    def own_key(self, key: T, obj: T) -> bool:
        """Is the key drawn from the object's own index / columns?"""
        for s in subterms(key):
            if s.op == "attr" and s.args[1] in LABEL_ATTRS and _same_root(s.args[0], obj):
                return True
            if s.op == "call" and s.args[0].op == "attr" and s.args[0].args[1] in ("keys", "idxmax", "idxmin") \
                    and _same_root(s.args[0].args[0], obj):
                return True
        return False

    def _walk(self, t, clean, seen):
        """Sub-terms of t with the refinement that holds where they occur (ite-aware)."""
        if isinstance(t, tuple):
            for x in t:
                yield from self._walk(x, clean, seen)
            return
        if not isinstance(t, T):
            return
        k = (t.uid, clean)
        if k in seen:
            return
        seen.add(k)
        yield t, clean
        if t.op == "ite":
            ca, cb = refine_by_cond(t.args[0], clean)
            yield from self._walk(t.args[0], clean, seen)
            yield from self._walk(t.args[1], ca, seen)
            yield from self._walk(t.args[2], cb, seen)
            return
        if t.op == "assume":
            ca, _ = refine_by_cond(t.args[0], clean)
            yield from self._walk(t.args[1], ca, seen)
            return
        if t.op == "and":
            # conjuncts to the right of an isinstance test are evaluated under it
            cur = clean
            for x in t.args[0]:
                yield from self._walk(x, cur, seen)
                cur, _ = refine_by_cond(x, cur)
            return
        for x in t.args:
            yield from self._walk(x, clean, seen)

    def sinks_in(self, t: T, clean0: frozenset, seen=None):
        """Yield (term, description) for label sinks that are sub-terms of t (each (term, refinement) once per `seen`)."""
        for s, clean in self._walk(t, clean0, seen if seen is not None else set()):
            v = lambda x, _c=clean: self.val(x, _c)  # noqa: E731
            op, a = s.op, s.args
            if op in ("binop", "cmp") and a[0] not in ("is", "is not", "in", "not in"):
                (lk, lp), (rk, rp) = v(a[1]), v(a[2])
                if USER in (lk, rk) and lk != CLEAN and rk != CLEAN and lp != rp:
                    yield s, (f"label-aligning {a[0]!r} between pandas values with different label provenance "
                              f"({_pp(lp)} vs {_pp(rp)})")
            elif op == "sub":
                base, key = a
                if _tuple_unpack(s) is not None:
                    continue
                loc = False
                obj = base
                if base.op == "attr" and base.args[1] in ("loc", "at"):
                    loc, obj = True, base.args[0]
                elif base.op == "attr" and base.args[1] in ("iloc", "iat"):
                    continue
                elif base.op == "attr" and base.args[1] in ("columns", "index", "shape", "values", "dtypes"):
                    continue   # an Index / tuple / ndarray is subscripted by position
                elif _python_container(base):
                    continue   # pair[0], rows[i], table[key]: python containers have no pandas labels of their own
                ok_, op_ = v(obj)
                if ok_ != USER:
                    continue
                if self.own_key(key, obj):
                    continue
                kk, kp = v(key)
                if kk != CLEAN:
                    if kp != op_:
                        yield s, f"indexing {_pp(op_)} with a differently-labelled pandas mask/key ({_pp(kp)})"
                    continue
                if key.op == "slice" or (key.op == "tuple" and any(x.op == "slice" for x in key.args[0])):
                    continue
                if loc:
                    yield s, f".loc/.at lookup on {_pp(op_)} with key {show(key, maxdepth=2)} (caller-chosen labels)"
                elif key.op == "const" and isinstance(const_value(key), (int, str)) and not isinstance(const_value(key), bool) \
                        and not _internally_built(obj):
                    yield s, f"label lookup [{const_value(key)!r}] on {_pp(op_)}, which may be a caller-labelled pandas object"
            elif op == "upd":
                base, key, val_ = a
                (bk, bp), (vk, vp) = v(base), v(val_)
                kk, kp = v(key)
                if kk != CLEAN and bk != CLEAN and USER in (kk, bk) and kp != bp and not self.own_key(key, base):
                    yield s, f"assigning through a mask/key labelled {_pp(kp)} into a pandas object labelled {_pp(bp)} aligns by label"
                if vk == USER and bk != CLEAN and bp != vp:
                    yield s, f"storing caller-labelled {_pp(vp)} into a pandas object ({_pp(bp)}) aligns on the index"
                elif bk == USER and vk == DEFAULT:
                    yield s, f"storing an internally-indexed series into caller-labelled {_pp(bp)} aligns on the index"
            elif op == "call":
                f, args, kwargs = a
                allargs = list(args) + [x for _, x in kwargs]
                if f.op == "global" and f.args[0] in ("pandas.DataFrame", "pandas.DataFrame.from_dict", "pandas.concat",
                                                      "pandas.Series"):
                    items = []
                    for x in allargs:
                        items.extend(_container_items(x, clean))
                    vals = [self.val(x, c2) for x, c2 in items]
                    pandas_vals = [(k, p) for k, p in vals if k != CLEAN]
                    if any(k == USER for k, _ in pandas_vals) and (
                            len({p for _, p in pandas_vals}) > 1 or
                            (f.args[0] == "pandas.Series" and dict(kwargs).get("index") is not None
                             and v(args[0] if args else dict(kwargs).get("data"))[0] == USER)):
                        axis = dict(kwargs).get("axis")
                        if f.args[0] == "pandas.concat" and (axis is None or (axis.op == "const" and const_value(axis) == 0)):
                            continue
                        yield s, (f"{f.args[0]} combines caller-labelled pandas values "
                                  f"({', '.join(sorted({_pp(p) for _, p in pandas_vals}))}) by index label")
                elif f.op == "attr" and f.args[1] in ALIGNING_METHODS:
                    recv = f.args[0]
                    rk, rp = v(recv)
                    for x in allargs:
                        xk, xp = v(x)
                        if xk != CLEAN and rk != CLEAN and USER in (rk, xk) and xp != rp:
                            yield s, (f".{f.args[1]}() aligns {_pp(rp)} with differently-labelled {_pp(xp)} by label")
                            break


REDUCTIONS = {"sum", "mean", "min", "max", "std", "var", "median", "count", "nunique", "prod", "idxmax", "idxmin"}


def _is_reduction(t: T) -> bool:
    return t.op == "call" and t.args[0].op == "attr" and t.args[0].args[1] in REDUCTIONS


def refine_by_cond(c: T, clean: frozenset):
    """(clean set in the then-branch, clean set in the else-branch) of `ite(c, ., .)`."""
    ca, cb = set(), set()

    def lits(x, positive):
        # yields (literal, polarity) that are certainly true in the branch
        if x.op == "not":
            yield from lits(x.args[0], not positive)
        elif x.op == "and" and positive:
            for y in x.args[0]:
                yield from lits(y, True)
        elif x.op == "or" and not positive:
            for y in x.args[0]:
                yield from lits(y, False)
        else:
            yield x, positive

    for branch_true, acc in ((True, ca), (False, cb)):
        for l, pos in lits(c, branch_true):
            if l.op == "cmp" and l.args[0] in ("is", "is not") and (l.args[1] is NONE or l.args[2] is NONE):
                x = l.args[2] if l.args[1] is NONE else l.args[1]
                is_none = (l.args[0] == "is") == pos
                if is_none:
                    acc.add(x.uid)
            elif pos and l.op == "call" and l.args[0] is glob("builtins.isinstance") and len(l.args[1]) == 2:
                x, ty = l.args[1]
                tys = ty.args[0] if ty.op == "tuple" else (ty,)
                if all(y.op == "global" and y.args[0] in NON_PANDAS_TYPES for y in tys):
                    acc.add(x.uid)
    return (clean | frozenset(ca)) if ca else clean, (clean | frozenset(cb)) if cb else clean


def _internally_built(t: T) -> bool:
    """Is the pandas object (after label-preserving wrappers) the result of an internal pandas constructor?"""
    for _ in range(60):
        if t.op in ("upd", "sub"):
            t = t.args[0]
        elif t.op == "attr":
            t = t.args[0]
        elif t.op == "elem":
            t = t.args[0]
        elif t.op == "loopvar":
            t = t.args[2]
        elif t.op == "call" and t.args[0].op == "attr":
            t = t.args[0].args[0]
        elif t.op == "call" and t.args[0].op == "global":
            return t.args[0].args[0] in ("pandas.DataFrame", "pandas.DataFrame.from_dict", "pandas.Series", "pandas.concat")
        else:
            return False
    return False


def _container_items(x: T, clean=frozenset(), _depth=0):
    """(value, refinement) pairs held by a python container term (dict / list literal, possibly extended by
    item stores, merged over branches)."""
    out = []
    if _depth > 60:
        return [(x, clean)]
    while x.op in ("upd", "loopvar", "loopout", "assume", "listappend", "listextend"):
        if x.op == "upd":
            out.append((x.args[2], clean))
            x = x.args[0]
        elif x.op in ("listappend", "listextend"):
            out.append((x.args[1], clean))
            x = x.args[0]
        elif x.op == "loopvar":
            x = x.args[2]
        elif x.op == "assume":
            clean, _ = refine_by_cond(x.args[0], clean)
            x = x.args[1]
        else:
            for y in x.args[3]:
                out.extend(_container_items(y, clean, _depth + 1))
            x = x.args[2]
    if x.op == "ite":
        ca, cb = refine_by_cond(x.args[0], clean)
        out.extend(_container_items(x.args[1], ca, _depth + 1))
        out.extend(_container_items(x.args[2], cb, _depth + 1))
    elif x.op == "dict":
        out.extend((y, clean) for _, y in x.args[0])
    elif x.op in ("list", "tuple"):
        out.extend((y, clean) for y in x.args[0])
    else:
        out.append((x, clean))
    return out


def _tuple_unpack(t: T):
    """sub(elem(<iteration over pairs>), const i): returns (receiver, method, i) for tuple unpacking, else None."""
    if t.op != "sub" or t.args[0].op != "elem" or t.args[1].op != "const":
        return None
    i = const_value(t.args[1])
    if not isinstance(i, int) or isinstance(i, bool):
        return None
    it = t.args[0].args[0]
    if it.op == "call" and it.args[0].op == "attr" and it.args[0].args[1] in ("items", "iteritems", "groupby",
                                                                           "iterrows", "itertuples"):
        return it.args[0].args[0], it.args[0].args[1], i
    if it.op == "call" and it.args[0].op == "global" and it.args[0].args[0] in ("builtins.enumerate", "builtins.zip"):
        return None, it.args[0].args[0].split(".")[-1], i
    return None


def _same_root(a: T, b: T) -> bool:
    if a is b:
        return True
    # strip label-preserving wrappers
    for x in (a, b):
        pass
    ra, rb = _root(a), _root(b)
    return ra is rb


def _root(t: T) -> T:
    while True:
        if t.op in ("upd", "sub"):
            t = t.args[0]
        elif t.op == "attr" and t.args[1] in ("iloc", "loc", "T"):
            t = t.args[0]
        elif t.op == "call" and t.args[0].op == "attr" and t.args[0].args[1] in ("astype", "copy", "transpose"):
            t = t.args[0].args[0]
        elif t.op == "loopvar":
            t = t.args[2]
        else:
            return t


def _pp(p) -> str:
    return "{" + ", ".join(sorted(p)) + "}" if p else "{}"


def clean_set(ev: Event, sources) -> frozenset:
    """Parameters proven to be a non-pandas container by an isinstance literal of the event's path condition."""
    out = set()
    for c in ev.pc:
        lits = c.args[0] if c.op == "and" else (c,)
        for l in lits:
            if l.op == "call" and l.args[0] is glob("builtins.isinstance") and len(l.args[1]) == 2:
                x, ty = l.args[1]
                tys = ty.args[0] if ty.op == "tuple" else (ty,)
                if all(y.op == "global" and y.args[0] in NON_PANDAS_TYPES for y in tys):
                    out.add(x.uid)
    return frozenset(out)


def event_terms(e: Event):
    d = e.data
    if e.kind == "store":
        yield d["value"]
        if d.get("tkind") == "sub":
            from .terms import mk
            yield mk("upd", d["obj"], d["key"], d["value"])
    elif e.kind == "call":
        f = d.get("fterm")
        if not d.get("inlined"):
            from .terms import mk
            if f is not None:
                yield mk("call", f, tuple(d.get("args", ())), tuple(d.get("kwargs", ())))
        else:
            for x in d.get("args", ()):
                yield x
            for _, x in d.get("kwargs", ()):
                yield x
    elif e.kind in ("return", "expr", "yield"):
        if d.get("value") is not None:
            yield d["value"]
    elif e.kind in ("branch", "assert"):
        yield d["cond"]
    elif e.kind == "loop":
        yield d["iter"]
    elif e.kind == "raise":
        pass


def find_sinks(r: Result, sources: dict):
    """Return (list of (event, term, description), domain)."""
    dom = LabelDomain(sources)
    dom.learn_fields(r.events)
    out = []
    seen = set()
    walked = set()
    for e in r.events:
        clean = clean_set(e, sources)
        for t in event_terms(e):
            for s, why in dom.sinks_in(t, clean, walked):
                k = (s.uid, clean)
                if k in seen:
                    continue
                seen.add(k)
                out.append((e, s, why))
    return out, dom
