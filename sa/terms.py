"""Hash-consed terms and the abstract term builder.

`Evaluator.run(func)` walks the *syntax tree* of a function (and, through resolved calls, of the
in-repo functions it calls) once, in program order, and builds for every variable / attribute /
return value a symbolic term over root atoms (parameters, opaque calls, loop elements).  Branches are
merged with `ite` terms, loops are summarised (loop-carried variables become opaque atoms), so the walk
is linear in the size of the code: no path is executed, no path is enumerated and no solver is asked.
Besides the terms, the walk emits an ordered stream of *events* (stores, calls, branches, raises,
returns, reads of `self` state) each with the path condition under which it happens; the ordering /
dominance / life-cycle rules are queries over that stream.
"""
from __future__ import annotations

import ast
from dataclasses import dataclass, field

from .model import AnalysisError, FunctionInfo, Program

# ----------------------------------------------------------------------------- terms


class T:
    __slots__ = ("op", "args", "uid")
    _table: dict = {}
    _n = 0

    def __repr__(self):
        return show(self)


def mk(op, *args) -> T:
    key = (op, args)
    t = T._table.get(key)
    if t is None:
        t = T()
        t.op = op
        t.args = args
        T._n += 1
        t.uid = T._n
        T._table[key] = t
    return t


def const(v) -> T:
    if isinstance(v, tuple):
        return mk("tuple", tuple(const(x) for x in v))
    return mk("const", type(v).__name__, v if not isinstance(v, float) else repr(v))


def const_value(t: T):
    """Python value of a const term (floats are stored by repr to keep 1 / 1.0 / True apart)."""
    assert t.op == "const"
    ty, v = t.args
    if ty == "float":
        return float(v)
    return v


def is_const(t: T, value=None):
    if t.op != "const":
        return False
    if value is None:
        return True
    return const_value(t) == value and type(const_value(t)) is type(value)


NONE = const(None)
TRUE = const(True)
FALSE = const(False)


# different import paths of the same external object (trusted: sklearn re-exports)
EXTERNAL_ALIASES = {
    "sklearn.utils.check_consistent_length": "sklearn.utils.validation.check_consistent_length",
    "sklearn.utils.check_array": "sklearn.utils.validation.check_array",
    "sklearn.utils.check_random_state": "sklearn.utils.validation.check_random_state",
    "sklearn.utils.check_scalar": "sklearn.utils.validation.check_scalar",
    "sklearn.utils.validation.check_is_fitted": "sklearn.utils.validation.check_is_fitted",
    "sklearn.clone": "sklearn.base.clone",
    "sklearn.utils.Bunch": "sklearn.utils.Bunch",
}


def glob(name: str) -> T:
    return mk("global", EXTERNAL_ALIASES.get(name, name))


def root_of(t: T) -> T:
    """The underlying container of an updated / loop-summarised value (identity of the object)."""
    while True:
        if t.op == "upd":
            t = t.args[0]
        elif t.op == "assume":
            t = t.args[1]
        elif t.op in ("listappend", "listextend"):
            t = t.args[0]
        elif t.op == "loopvar":
            t = t.args[2]
        elif t.op == "loopout":
            t = t.args[2]
        elif t.op == "ite":
            # an object updated in place under a condition is the same object either way
            a, b = root_of(t.args[1]), root_of(t.args[2])
            if a is not b:
                return t
            t = a
        else:
            return t


def neg(c: T) -> T:
    if c.op == "not":
        return c.args[0]
    if c is TRUE:
        return FALSE
    if c is FALSE:
        return TRUE
    return mk("not", c)


def conj(lits) -> T:
    lits = [x for x in lits if x is not TRUE]
    if not lits:
        return TRUE
    if len(lits) == 1:
        return lits[0]
    return mk("and", tuple(lits))


def ite(c: T, a: T, b: T) -> T:
    if a is b:
        return a
    if c is TRUE:
        return a
    if c is FALSE:
        return b
    if c.op == "not":
        return ite(c.args[0], b, a)
    if a.op == "tuple" and b.op == "tuple" and len(a.args[0]) == len(b.args[0]):
        # (x1, y1) if c else (x2, y2)  is  (x1 if c else x2, y1 if c else y2): two returns of a tuple merge component-wise
        return mk("tuple", tuple(ite(c, x, y) for x, y in zip(a.args[0], b.args[0])))
    return mk("ite", c, a, b)


SHOW_HOOKS: dict = {}


def show(t, depth=0, maxdepth=12) -> str:
    if isinstance(t, T) and t.op in SHOW_HOOKS:
        return SHOW_HOOKS[t.op](t, maxdepth, depth)
    if not isinstance(t, T):
        if isinstance(t, tuple):
            return "(" + ", ".join(show(x, depth + 1, maxdepth) for x in t) + ")"
        return repr(t)
    if depth > maxdepth:
        return "…"
    op, a = t.op, t.args
    s = lambda x: show(x, depth + 1, maxdepth)  # noqa: E731
    if op == "const":
        return repr(const_value(t))
    if op == "global":
        return a[0]
    if op == "param":
        return a[1]
    if op == "attr":
        return f"{s(a[0])}.{a[1]}"
    if op == "sub":
        return f"{s(a[0])}[{s(a[1])}]"
    if op == "call":
        parts = [s(x) for x in a[1]] + [f"{k}={s(v)}" for k, v in a[2]]
        return f"{s(a[0])}({', '.join(parts)})"
    if op == "binop":
        return f"({s(a[1])} {a[0]} {s(a[2])})"
    if op == "unop":
        return f"({a[0]}{s(a[1])})"
    if op == "cmp":
        return f"({s(a[1])} {a[0]} {s(a[2])})"
    if op == "not":
        return f"not {s(a[0])}"
    if op in ("and", "or"):
        return "(" + f" {op} ".join(s(x) for x in a[0]) + ")"
    if op == "ite":
        return f"ite({s(a[0])}, {s(a[1])}, {s(a[2])})"
    if op in ("tuple", "list", "set"):
        br = {"tuple": "()", "list": "[]", "set": "{}"}[op]
        return br[0] + ", ".join(s(x) for x in a[0]) + br[1]
    if op == "dict":
        return "{" + ", ".join(f"{s(k)}: {s(v)}" for k, v in a[0]) + "}"
    if op == "elem":
        return f"elem({s(a[0])})"
    if op == "assume":
        return s(a[1])
    if op == "vattr":
        return f"{s(a[0])}.{a[1]}@{len(a[2])}"
    if op == "upd":
        return f"upd({s(a[0])}, {s(a[1])}, {s(a[2])})"
    return f"{op}(" + ", ".join(s(x) for x in a) + ")"


def subterms(t: T, _seen=None):
    """Iterate over all distinct sub-terms (including t)."""
    seen = _seen if _seen is not None else set()
    stack = [t]
    while stack:
        x = stack.pop()
        if isinstance(x, T):
            if x.uid in seen:
                continue
            seen.add(x.uid)
            yield x
            stack.extend(x.args)
        elif isinstance(x, tuple):
            stack.extend(x)


def contains(t: T, pred) -> bool:
    return any(pred(x) for x in subterms(t))


def substitute(t, mapping: dict, _memo=None):
    """Replace sub-terms (keys of mapping are T) bottom-up."""
    memo = _memo if _memo is not None else {}

    def go(x):
        if isinstance(x, T):
            if x in mapping:
                return mapping[x]
            r = memo.get(x.uid)
            if r is None:
                r = mk(x.op, *[go(y) for y in x.args])
                memo[x.uid] = r
            return r
        if isinstance(x, tuple):
            return tuple(go(y) for y in x)
        return x

    return go(t)


# ----------------------------------------------------------------------------- state / events


class State:
    __slots__ = ("loc", "heap", "pc")

    def __init__(self, loc=None, heap=None, pc=()):
        self.loc = loc if loc is not None else {}
        self.heap = heap if heap is not None else {}
        self.pc = pc

    def fork(self, extra=None):
        s = State(dict(self.loc), dict(self.heap), self.pc)
        if extra is not None:
            s.pc = s.pc + (extra,)
        return s


@dataclass
class Event:
    seq: int
    kind: str
    pc: tuple
    node: ast.AST
    func: str  # fq of the function whose body contains the construct
    cls_ctx: str | None
    stack: tuple  # call-site nodes (outermost first) through which this activation was inlined
    loops: tuple  # loop ids enclosing the construct (within all activations)
    data: dict = field(default_factory=dict)
    state: State | None = None
    self_term: T | None = None

    def __getattr__(self, k):
        d = self.__dict__.get("data", {})
        if k in d:
            return d[k]
        raise AttributeError(k)

    @property
    def line(self):
        return getattr(self.node, "lineno", 0)

    def where(self, prog=None):
        mod = self.func.split(":")[0]
        rel = prog.modules[mod].relpath if prog and mod in prog.modules else mod
        return f"{rel}:{self.line} ({self.func.split(':', 1)[1]})"


@dataclass
class Result:
    func: str
    ret: T | None
    returns: list  # [(pc, term)]
    events: list
    final: State | None
    self_term: T | None
    params: dict

    def select(self, kind=None, pred=None, func=None):
        out = []
        for e in self.events:
            if kind is not None and e.kind != kind:
                continue
            if func is not None and e.func != func:
                continue
            if pred is not None and not pred(e):
                continue
            out.append(e)
        return out


class _Exit:
    __slots__ = ("kind", "state", "value")

    def __init__(self, kind, state, value=None):
        self.kind = kind
        self.state = state
        self.value = value


def merge_states(a: State, b: State):
    """Join two states that diverged after a common path-condition prefix."""
    n = 0
    while n < len(a.pc) and n < len(b.pc) and a.pc[n] is b.pc[n]:
        n += 1
    ra, rb = a.pc[n:], b.pc[n:]
    if ra and not (rb and len(rb) < len(ra) and len(rb) == 1 and neg(rb[0]).uid in {x.uid for x in ra}):
        cond = conj(ra)
    elif rb:
        cond = neg(conj(rb))
    else:
        cond = mk("nondet")
    out = State({}, {}, a.pc[:n])
    # facts that hold on side b beyond "not cond" (e.g. `elif isinstance(x, list)` when the final else raises)
    nega = {neg(x).uid for x in ra}
    extra_b = [l for l in rb if l.uid not in nega and l.op not in ("inloop", "exc")] if ra else []
    negb = {neg(x).uid for x in rb}
    by_b = cond is not conj(ra) if ra else bool(rb)
    extra_a = [l for l in ra if l.uid not in negb and l.op not in ("inloop", "exc")] if by_b else []
    if by_b:
        extra_b = []
    for src_a, src_b, dst, missing in ((a.loc, b.loc, out.loc, True), (a.heap, b.heap, out.heap, False)):
        for k in set(src_a) | set(src_b):
            va, vb = src_a.get(k), src_b.get(k)
            if va is vb:
                dst[k] = va
                continue
            if va is None:
                va = mk("undef", k) if missing else mk("attr", k[0], k[1])
            if vb is None:
                vb = mk("undef", k) if missing else mk("attr", k[0], k[1])
            if extra_b and len(ra) == 1:
                vb = mk("assume", conj(extra_b), vb)
            if extra_a and len(rb) == 1:
                va = mk("assume", conj(extra_a), va)
            dst[k] = ite(cond, va, vb)
    return out, cond


def _peel(t):
    while t.op == "assume":
        t = t.args[1]
    return t


def _list_built_by_loop(t):
    """(source, item) when t is a list grown from empty by exactly one unconditional append of `item` per element of `source`"""
    t = _peel(t)
    if t.op == "loopout" and t.args[2].op == "list" and not t.args[2].args[0] and len(t.args[3]) == 1 and t.args[1].op == "elem":
        v = _peel(t.args[3][0])
        if v.op == "listappend" and v.args[0].op == "loopvar" and v.args[0].args[0] == t.args[0]:
            return t.args[1].args[0], v.args[1]
    return None


def _segments(src):
    """src as a sequence of (condition or None, list) pieces walked one after the other; None when src is not of such a form"""
    src = _peel(src)
    if src.op == "binop" and src.args[0] == "+":
        a, b = _segments(src.args[1]), _segments(src.args[2])
        return a + b if a is not None and b is not None else None
    if src.op == "ite":
        c, x, y = src.args
        x, y = _peel(x), _peel(y)
        if y.op == "binop" and y.args[0] == "+" and y.args[1] is x:
            rest = _segments(y.args[2])
            return [(None, x)] + [(neg(c) if cc is None else conj([neg(c), cc]), X) for cc, X in rest] if rest is not None else None
        if x.op == "binop" and x.args[0] == "+" and x.args[1] is y:
            rest = _segments(x.args[2])
            return [(None, y)] + [(c if cc is None else conj([c, cc]), X) for cc, X in rest] if rest is not None else None
        # `None if c else Z`: walking None raises, so wherever the walk happens the value is Z
        if x is NONE or y is NONE:
            rest = _segments(y if x is NONE else x)
            return rest
    return [(None, src)]      # any other iterable: one piece


def _is_table(t):
    return t.op in ("tuple", "list") and 1 <= len(t.args[0]) <= 6 and all(x.op in ("tuple", "list") for x in t.args[0])


def _is_simple_comp(t):
    return t.op == "comp" and t.args[0] == "list" and len(t.args) == 3 and len(t.args[2]) == 1 and not t.args[2][0][1]


def _direct_jumps(body, kinds=(ast.Break, ast.Continue, ast.Return)) -> bool:
    """break / continue / return directly in a loop body (not inside a nested loop or function)"""
    stack = list(body)
    while stack:
        n = stack.pop()
        if isinstance(n, kinds):
            return True
        if isinstance(n, (ast.For, ast.While, ast.AsyncFor, ast.FunctionDef, ast.AsyncFunctionDef, ast.ClassDef, ast.Lambda)):
            continue
        stack.extend(ast.iter_child_nodes(n))
    return False


def _assigned_in(stmts):
    """Names / (base-name, attr) pairs possibly (re)bound inside a statement list (syntactic)."""
    names, attrs = set(), set()

    class V(ast.NodeVisitor):
        def visit_Name(self, n):
            if isinstance(n.ctx, (ast.Store, ast.Del)):
                names.add(n.id)

        def visit_Attribute(self, n):
            if isinstance(n.ctx, (ast.Store, ast.Del)):
                attrs.add(n)
            self.generic_visit(n)

        def visit_Subscript(self, n):
            if isinstance(n.ctx, (ast.Store, ast.Del)):
                b = n.value
                while isinstance(b, ast.Subscript):
                    b = b.value
                if isinstance(b, ast.Name):
                    names.add(b.id)
                elif isinstance(b, ast.Attribute):
                    attrs.add(b)
                    if b.attr in ("at", "loc"):
                        # x.at[k] = v updates x
                        if isinstance(b.value, ast.Name):
                            names.add(b.value.id)
                        elif isinstance(b.value, ast.Attribute):
                            attrs.add(b.value)
            self.generic_visit(n)

        def visit_FunctionDef(self, n):
            names.add(n.name)

        def visit_Expr(self, n):
            c = n.value
            if isinstance(c, ast.Call) and isinstance(c.func, ast.Attribute) and c.func.attr in ("append", "extend") \
                    and isinstance(c.func.value, ast.Name):
                names.add(c.func.value.id)
            self.generic_visit(n)

        def visit_Lambda(self, n):
            pass

        def visit_ClassDef(self, n):
            names.add(n.name)

    v = V()
    for s in stmts:
        v.visit(s)
    return names, attrs


_BINOPS = {
    ast.Add: "+", ast.Sub: "-", ast.Mult: "*", ast.Div: "/", ast.FloorDiv: "//", ast.Mod: "%", ast.Pow: "**",
    ast.MatMult: "@", ast.BitAnd: "&", ast.BitOr: "|", ast.BitXor: "^", ast.LShift: "<<", ast.RShift: ">>",
}
_UNOPS = {ast.USub: "-", ast.UAdd: "+", ast.Invert: "~"}
_CMPOPS = {
    ast.Eq: "==", ast.NotEq: "!=", ast.Lt: "<", ast.LtE: "<=", ast.Gt: ">", ast.GtE: ">=",
    ast.Is: "is", ast.IsNot: "is not", ast.In: "in", ast.NotIn: "not in",
}


# in-repo compatibility wrappers that are, by reading, the external function they wrap (trusted table)
WRAPPER_ALIASES = {
    "fairlearn.utils._fixes:check_array": "sklearn.utils.validation.check_array",
    "fairlearn.utils._fixes:validate_data": "sklearn.utils.validation.validate_data",
}


# keyword-argument records whose attributes are their keyword arguments (sklearn.utils.Bunch, SimpleNamespace)
RECORD_CONSTRUCTORS = {"sklearn.utils.Bunch", "types.SimpleNamespace", "sklearn.utils._bunch.Bunch"}

# autograd protocol: `.grad` is rewritten by these calls, so a read of `.grad` is keyed by the calls seen so far
VOLATILE_ATTRS = {"grad"}
EFFECT_METHODS = {"backward", "zero_grad", "step"}


class Evaluator:
    """Abstract term builder (see module docstring)."""

    def __init__(self, prog: Program, max_depth=4, inline=None, record_state=True, inline_props=True):
        self.prog = prog
        self.max_depth = max_depth
        self.inline_policy = inline
        self.record_state = record_state
        self.inline_props = inline_props
        self.events: list[Event] = []
        self._seq = 0
        self._uid = 0
        self._active: list[str] = []
        self._frames: list = []  # (fi, cls_ctx, callsite)
        self._attrib: dict = {}   # frame index -> function the events of a transparent (new-helper) activation are attributed to
        self._transparent = 0     # number of transparent activations on the frame stack (they do not count against max_depth)
        self._loops: list = []
        self.closures: dict = {}  # term -> (FunctionInfo|ast.Lambda, captured State, cls_ctx, self_term, fi)
        self.unresolved_calls = 0
        self.resolved_calls = 0
        self._effects: tuple = ()  # results of state-changing opaque calls seen so far (autograd protocol)

    # ---------------------------------------------------------------- public API
    def run(self, func_fq: str, cls_ctx: str | None = None, args: dict | None = None, heap=None) -> Result:
        fi = self.prog.func(func_fq)
        if cls_ctx is None and fi.cls is not None:
            cls_ctx = fi.cls
        self.events = []
        self._seq = 0
        self._effects = ()
        st = State({}, dict(heap or {}), ())
        params = {}
        a = fi.node.args
        allp = a.posonlyargs + a.args + a.kwonlyargs
        for p in allp:
            params[p.arg] = mk("param", func_fq, p.arg)
        if a.vararg:
            params[a.vararg.arg] = mk("param", func_fq, a.vararg.arg)
        if a.kwarg:
            params[a.kwarg.arg] = mk("param", func_fq, a.kwarg.arg)
        if args:
            params.update(args)
        st.loc.update(params)
        self_term = None
        if fi.cls is not None and not fi.is_static and (a.posonlyargs + a.args):
            self_term = st.loc[(a.posonlyargs + a.args)[0].arg]
        ret, final, returns = self._activate(fi, cls_ctx, st, self_term, callsite=None)
        return Result(func_fq, ret, returns, self.events, final, self_term, params)

    def run_module(self, modname: str) -> Result:
        """Walk the top-level statements of a module (used for registries built by module-level loops)."""
        mod = self.prog.modules.get(modname)
        if mod is None:
            raise AnalysisError(f"anchor vanished: module {modname}")
        fi = FunctionInfo(f"{modname}:<module>", modname, "<module>", "<module>", mod.tree, None)
        self.events = []
        self._seq = 0
        self._effects = ()
        st = State({}, {}, ())
        body = [s for s in mod.tree.body if not isinstance(s, (ast.FunctionDef, ast.AsyncFunctionDef, ast.ClassDef))]
        self._frames.append((fi, None, None, None))
        self._active.append(fi.fq)
        try:
            exits = self._block(body, st)
        finally:
            self._active.pop()
            self._frames.pop()
        final = None
        for ex in exits:
            if ex.kind == "fall":
                final = ex.state
        return Result(fi.fq, NONE, [], self.events, final, None, {})

    def eval_src(self, src: str, bindings: dict, module: str | None = None, cls_ctx=None, self_term=None,
                 heap=None) -> T:
        """Evaluate a Python *expression* given as text in an environment of terms (used for specs)."""
        node = ast.parse(src, mode="eval").body
        modname = module or next(iter(self.prog.modules))
        fi = FunctionInfo(f"{modname}:<spec>", modname, "<spec>", "<spec>", ast.parse("def f(): pass").body[0], None)
        st = State(dict(bindings), dict(heap or {}), ())
        self._frames.append((fi, cls_ctx, None, self_term))
        saved = self.events
        self.events = []
        try:
            return self._expr(node, st)
        finally:
            self.events = saved
            self._frames.pop()

    def call_term(self, fterm: T, args, state: State, module: str, cls_ctx=None, self_term=None) -> T:
        """Apply a callable term (closure / lambda / bound method / function) to argument terms."""
        fi = FunctionInfo(f"{module}:<spec>", module, "<spec>", "<spec>", ast.parse("def f(): pass").body[0], None)
        self._frames.append((fi, cls_ctx, None, self_term))
        saved, self.events = self.events, []
        try:
            node = ast.parse("f()").body[0].value
            return self._call(fterm, list(args), [], state, node)
        finally:
            self.events = saved
            self._frames.pop()

    # ---------------------------------------------------------------- helpers
    def _fresh(self, tag):
        self._uid += 1
        return self._uid

    def _emit(self, kind, node, st: State, **data):
        fi, cls_ctx, _cs, _self = self._frames[-1]
        self._seq += 1
        owner = self._attrib.get(len(self._frames) - 1)
        if owner is not None and kind == "return":
            kind = "return-inlined"   # the return of a helper is not an exit of the function its events are attributed to
        if owner is not None:
            # the event belongs to the function the helper was extracted from: `self` of that function stays reachable from it
            for i in range(len(self._frames) - 1, -1, -1):
                if i not in self._attrib:
                    if _self is None:
                        _self = self._frames[i][3]
                    if cls_ctx is None:
                        cls_ctx = self._frames[i][1]
                    break
        if kind == "store" and data.get("tkind") == "name":
            data["scope"] = fi.fq      # the function whose local this is (a helper's locals are not the caller's, whatever their names)
        ev = Event(
            self._seq, kind, st.pc, node, owner if owner is not None else fi.fq, cls_ctx,
            tuple(f[2] for f in self._frames if f[2] is not None), tuple(self._loops), data,
            st.fork() if self.record_state else None, _self,
        )
        self.events.append(ev)
        return ev

    def _cur(self):
        return self._frames[-1]

    # ---------------------------------------------------------------- activation
    def _activate(self, fi: FunctionInfo, cls_ctx, st: State, self_term, callsite, transparent=False):
        owner = None
        if transparent and self._frames:
            owner = self._attrib.get(len(self._frames) - 1) or self._frames[-1][0].fq
        self._frames.append((fi, cls_ctx, callsite, self_term))
        self._active.append(fi.fq)
        if owner is not None:
            self._attrib[len(self._frames) - 1] = owner
            self._transparent += 1
        try:
            exits = self._block(fi.node.body, st)
        finally:
            if owner is not None:
                self._attrib.pop(len(self._frames) - 1, None)
                self._transparent -= 1
            self._active.pop()
            self._frames.pop()
        rets = []
        for ex in exits:
            if ex.kind == "return":
                rets.append((ex.state, ex.value if ex.value is not None else NONE))
            elif ex.kind == "fall":
                rets.append((ex.state, NONE))
        if not rets:
            return mk("noreturn"), None, []
        returns = [(s.pc, v) for s, v in rets]
        if owner is not None and len(rets) > 1:
            # an extracted helper with several returns: each returned value keeps the type tests of its own path (`if not
            # isinstance(x, list): raise` ... `return x`), which the merge below would forget - the inlined original had them
            # as the path condition of the statement that used the value
            n0 = len(st.pc)
            kept = []
            for s_, v_ in rets:
                facts = [l for l in s_.pc[n0:] if l.op == "call" and l.args[0].op == "global" and l.args[0].args[0] == "builtins.isinstance"
                         and l.args[1] and any(x is l.args[1][0] for x in subterms(v_))]
                kept.append((s_, mk("assume", conj(facts), v_) if facts else v_))
            rets = kept
        state, val = rets[0]
        for s2, v2 in rets[1:]:
            merged, cond = merge_states(state, s2)
            val = ite(cond, val, v2)
            state = merged
        return val, state, returns

    # ---------------------------------------------------------------- statements
    def _block(self, stmts, st: State):
        exits = []
        cur = st
        for s in stmts:
            if cur is None:
                break
            res = self._stmt(s, cur)
            cur = None
            falls = []
            for ex in res:
                if ex.kind == "fall":
                    falls.append(ex.state)
                else:
                    exits.append(ex)
            if falls:
                cur = falls[0]
                for f in falls[1:]:
                    cur, _ = merge_states(cur, f)
        if cur is not None:
            exits.append(_Exit("fall", cur))
        return exits

    def _stmt(self, s, st: State):
        m = getattr(self, "_s_" + type(s).__name__, None)
        if m is None:
            raise AnalysisError(f"unsupported statement {type(s).__name__} at line {getattr(s, 'lineno', '?')}")
        return m(s, st)

    def _s_Pass(self, s, st):
        return [_Exit("fall", st)]

    _s_Global = _s_Nonlocal = _s_Pass

    def _s_Expr(self, s, st):
        v = self._expr(s.value, st)
        self._emit("expr", s, st, value=v)
        # in-place growth of a local list: x.append(v) / x.extend(v) rebinds x to the grown list
        c = s.value
        if isinstance(c, ast.Call) and isinstance(c.func, ast.Attribute) and c.func.attr in ("append", "extend") \
                and isinstance(c.func.value, ast.Name) and c.func.value.id in st.loc and len(c.args) == 1 \
                and not c.keywords and v.op == "call" and v.args[1]:
            old = st.loc[c.func.value.id]
            if old.op == "list" and c.func.attr == "append":
                # appending to a list whose items are all known gives a list whose items are all known
                st.loc[c.func.value.id] = mk("list", tuple(old.args[0]) + (v.args[1][0],))
            elif old.op in ("list", "listappend", "loopvar", "ite", "call", "assume", "loopout", "comp", "listextend"):
                st.loc[c.func.value.id] = mk("listappend" if c.func.attr == "append" else "listextend", old, v.args[1][0])
        return [_Exit("fall", st)]

    def _s_Import(self, s, st):
        for a in s.names:
            if a.asname:
                st.loc[a.asname] = glob(a.name)
            else:
                st.loc[a.name.split(".")[0]] = glob(a.name.split(".")[0])
        return [_Exit("fall", st)]

    def _s_ImportFrom(self, s, st):
        fi = self._cur()[0]
        mod = self.prog.modules.get(fi.module)
        base = self.prog._abs_module(mod, s.level, s.module) if mod else (s.module or "")
        for a in s.names:
            if base in self.prog.modules:
                st.loc[a.asname or a.name] = self._global_term(self.prog.resolve_name(base, a.name))
            else:
                st.loc[a.asname or a.name] = glob(f"{base}.{a.name}")
        return [_Exit("fall", st)]

    def _s_Assign(self, s, st):
        v = self._expr(s.value, st)
        for tgt in s.targets:
            self._assign(tgt, v, st, s)
        return [_Exit("fall", st)]

    def _s_AnnAssign(self, s, st):
        if s.value is not None:
            v = self._expr(s.value, st)
            self._assign(s.target, v, st, s)
        return [_Exit("fall", st)]

    def _s_AugAssign(self, s, st):
        load = ast.copy_location(_to_load(s.target), s.target)
        cur = self._expr(load, st)
        rhs = self._expr(s.value, st)
        v = mk("binop", _BINOPS[type(s.op)], cur, rhs)
        self._assign(s.target, v, st, s, aug=True)
        return [_Exit("fall", st)]

    def _s_Return(self, s, st):
        v = self._expr(s.value, st) if s.value is not None else NONE
        self._emit("return", s, st, value=v, bare=s.value is None)
        return [_Exit("return", st, v)]

    def _s_Raise(self, s, st):
        v = self._expr(s.exc, st) if s.exc is not None else mk("reraise")
        self._emit("raise", s, st, exc=v)
        return [_Exit("raise", st, v)]

    def _s_Assert(self, s, st):
        c = self._expr(s.test, st)
        self._emit("assert", s, st, cond=c)
        # an assert does not constrain the continuation (it vanishes under -O)
        return [_Exit("fall", st)]

    def _s_Delete(self, s, st):
        for tgt in s.targets:
            if isinstance(tgt, ast.Name):
                st.loc.pop(tgt.id, None)
                self._emit("del", s, st, target=("name", tgt.id))
            elif isinstance(tgt, ast.Attribute):
                obj = self._expr(tgt.value, st)
                st.heap[(obj, tgt.attr)] = mk("deleted", obj, tgt.attr)
                self._emit("del", s, st, target=("attr", obj, tgt.attr))
            else:
                obj = self._expr(tgt.value, st)
                self._emit("del", s, st, target=("sub", obj))
        return [_Exit("fall", st)]

    def _s_Break(self, s, st):
        self._emit("break", s, st)
        return [_Exit("break", st)]

    def _s_Continue(self, s, st):
        self._emit("continue", s, st)
        return [_Exit("continue", st)]

    def _s_FunctionDef(self, s, st):
        fi = self._cur()[0]
        # nested function: find its FunctionInfo
        cand = None
        for f in self.prog.functions.values():
            if f.node is s:
                cand = f
                break
        t = mk("closure", cand.fq if cand else f"{fi.fq}.<locals>.{s.name}", self._fresh("clo"))
        self.closures[t] = (cand, st, self._cur()[1], self._cur()[3])
        st.loc[s.name] = t
        return [_Exit("fall", st)]

    _s_AsyncFunctionDef = _s_FunctionDef

    def _s_ClassDef(self, s, st):
        st.loc[s.name] = mk("localclass", s.name, self._fresh("cls"))
        return [_Exit("fall", st)]

    def _s_If(self, s, st):
        c = self._expr(s.test, st)
        bev = self._emit("branch", s, st, cond=c)
        folded = self._fold_truth(c)
        bev.data["folded"] = folded
        if folded is True:
            return self._block(s.body, st)
        if folded is False:
            return self._block(s.orelse, st) if s.orelse else [_Exit("fall", st)]
        a = st.fork(c)
        b = st.fork(neg(c))
        self._refine(c, a, True)
        self._refine(c, b, False)
        ex_a = self._block(s.body, a)
        ex_b = self._block(s.orelse, b) if s.orelse else [_Exit("fall", b)]
        return self._join(ex_a + ex_b)

    def _join(self, exits):
        falls = [e for e in exits if e.kind == "fall"]
        others = [e for e in exits if e.kind != "fall"]
        if len(falls) > 1:
            cur = falls[0].state
            for f in falls[1:]:
                cur, _ = merge_states(cur, f.state)
            falls = [_Exit("fall", cur)]
        return others + falls

    def _refine(self, c: T, st: State, truth: bool):
        """Hook for subclasses / domains: refine variable facts under a branch condition."""
        return None

    def _loop(self, s, st, body, orelse, key_term, bind, loop_event=None):
        lid = self._fresh("loop")
        if loop_event is not None:
            loop_event.data["lid"] = lid
        names, attrs = _assigned_in(body)
        pre = st
        body_st = st.fork(mk("inloop", lid))
        for n in names:
            # loop-carried: the value at the top of an iteration is the initial one or one left by an earlier iteration
            body_st.loc[n] = mk("loopvar", n, key_term, pre.loc[n] if n in pre.loc else mk("undef", n))
        akeys = []
        for an in attrs:
            try:
                obj = self._expr(_to_load(an.value), pre.fork())
            except AnalysisError:
                continue
            akeys.append((obj, an.attr))
            if (obj, an.attr) not in pre.heap and obj is self._cur()[3] and self._is_container_update(an, body):
                # self.x[k] = v / self.x += v inside the loop without an earlier write: reads the old container
                self._emit("read", s, pre, obj=obj, attr=an.attr)
            cur = pre.heap.get((obj, an.attr), mk("attr", obj, an.attr))
            body_st.heap[(obj, an.attr)] = mk("loopvar", an.attr, key_term, cur)
        if bind is not None:
            bind(body_st)
        self._loops.append(lid)
        try:
            exits = self._block(body, body_st)
        finally:
            self._loops.pop()
        out = []
        after = pre.fork()
        # state after the loop: assigned variables are summarised
        end_states = [e.state for e in exits if e.kind in ("fall", "continue", "break")]
        for n in names:
            vals = {e.loc.get(n) for e in end_states}
            init = pre.loc.get(n)
            after.loc[n] = mk("loopout", n, key_term, init if init is not None else mk("undef", n),
                              tuple(sorted((v for v in vals if v is not None), key=lambda t: t.uid)))
        for k in akeys:
            vals = {e.heap.get(k) for e in end_states}
            init = pre.heap.get(k, mk("attr", k[0], k[1]))
            after.heap[k] = mk("loopout", k[1], key_term, init,
                               tuple(sorted((v for v in vals if v is not None), key=lambda t: t.uid)))
        for e in exits:
            if e.kind in ("return", "raise"):
                out.append(e)
        if orelse:
            out.extend(self._block(orelse, after))
        else:
            out.append(_Exit("fall", after))
        return out

    @staticmethod
    def _is_container_update(attr_node, body):
        """Is the attribute only updated in place (subscript store / augmented assignment) in this loop body?"""
        for st_ in body:
            for n in ast.walk(st_):
                if isinstance(n, ast.Assign):
                    for t in n.targets:
                        if isinstance(t, ast.Attribute) and ast.dump(t) == ast.dump(attr_node):
                            return False
        return True

    def _s_For(self, s, st):
        # `for T in [ELT for V in SRC if C]: BODY`  is  `for V' in SRC: if C': T = ELT' ; BODY`  (V' a fresh name for V)
        if isinstance(s.iter, (ast.ListComp, ast.GeneratorExp)) and len(s.iter.generators) == 1 and not s.orelse \
                and not s.iter.generators[0].is_async:
            g = s.iter.generators[0]
            fresh = {n.id: f"{n.id}__cv{getattr(s, 'lineno', 0)}" for n in ast.walk(g.target) if isinstance(n, ast.Name)}

            class _Ren(ast.NodeTransformer):
                def visit_Name(self, n):
                    return ast.copy_location(ast.Name(fresh[n.id], n.ctx), n) if n.id in fresh else n
            import copy as _copy
            ren = lambda x: _Ren().visit(_copy.deepcopy(x))  # noqa: E731
            bind_t = ast.Assign(targets=[s.target], value=ren(s.iter.elt))
            inner = [bind_t] + list(s.body)
            if g.ifs:
                test = ren(g.ifs[0]) if len(g.ifs) == 1 else ast.BoolOp(op=ast.And(), values=[ren(c) for c in g.ifs])
                inner = [ast.If(test=test, body=inner, orelse=[])]
            s2 = ast.For(target=ren(g.target), iter=g.iter, body=inner, orelse=[])
            for n in ast.walk(s2):
                if not hasattr(n, "lineno"):
                    ast.copy_location(n, s)
            ast.copy_location(s2, s)
            ast.fix_missing_locations(s2)
            return self._s_For(s2, st)
        return self._for_over(s, st, self._expr(s.iter, st))

    def _for_over(self, s, st, it, depth=0):
        while it.op == "assume":
            it = it.args[1]
        # `rows = TABLE if c else [f(x) for x in xs]; for r in rows: BODY` is `if c: for r in TABLE: BODY / else: for x in xs:
        # r = f(x); BODY`: the loop is evaluated once per alternative of the iterable, under that alternative's condition
        if it.op == "ite" and depth < 3 and not s.orelse and any(_is_simple_comp(_peel(x)) for x in it.args[1:]) \
                and any(_is_table(_peel(x)) for x in it.args[1:]):
            c = it.args[0]
            out = []
            for cond, alt in ((c, it.args[1]), (neg(c), it.args[2])):
                out.extend(self._for_over(s, st.fork(cond), alt, depth + 1))
            return self._join(out)
        # `rows = []; for x in XS: rows.append(f(x))` ... `for r in rows: BODY`  is  `for x in XS: r = f(x); BODY`, and a walk over
        # `A + B` (or over `A if c else A + B`: A, then B unless c) is the walk over A followed by the walk over B
        built = _list_built_by_loop(it)
        if built is not None and not s.orelse and not _direct_jumps(s.body, (ast.Break,)):
            src, item = built
            segs = _segments(src)
            if segs is not None:
                cur = st
                out = []
                for cond, X in segs:
                    elX = mk("elem", X)
                    it_item = substitute(item, {mk("elem", src): elX}) if X is not src else item

                    def bind_b(bst, it_item=it_item):
                        self._assign(s.target, it_item, bst, s, loop_target=True)
                    run_st = cur if cond is None else cur.fork(cond)
                    lev = self._emit("loop", s, run_st, iter=X, elem=elX)
                    exs = self._loop(s, run_st, s.body, [], elX, bind_b, lev)
                    if cond is not None:
                        exs = exs + [_Exit("fall", cur.fork(neg(cond)))]
                    exs = self._join(exs)
                    falls = [e for e in exs if e.kind == "fall"]
                    out.extend(e for e in exs if e.kind != "fall")
                    if not falls:
                        return out
                    cur = falls[0].state
                return out + [_Exit("fall", cur)]
        # `kept = {k: v for k, v in D.items() if c}` ... `for k, v in kept.items(): BODY`  is  `for k, v in D.items(): if c: BODY`
        # (a dict comprehension keeps the order of its source; the keys of D.items() are distinct, so nothing is overwritten)
        if it.op == "call" and it.args[0].op == "attr" and it.args[0].args[1] == "items" and not it.args[1] and not it.args[2] and not s.orelse:
            dc = _peel(it.args[0].args[0])
            if dc.op == "comp" and dc.args[0] == "dict" and len(dc.args[2]) == 1 and dc.args[1].op == "kv":
                src, conds = dc.args[2][0]
                kv = dc.args[1]
                if src.op == "call" and src.args[0].op == "attr" and src.args[0].args[1] == "items" and kv.args[0] is mk("sub", mk("elem", src), const(0)):
                    el = mk("elem", src)
                    lev = self._emit("loop", s, st, iter=src, elem=el)

                    def bind_d(bst, pair=mk("tuple", (kv.args[0], kv.args[1])), conds=conds):
                        bst.pc = tuple(bst.pc) + tuple(conds)
                        self._assign(s.target, pair, bst, s, loop_target=True)

                    return self._loop(s, st, s.body, s.orelse, el, bind_d, lev)
        # `kept = [x for x in xs if c]` ... `for x in kept: BODY`  is  `for x in xs: if c: BODY`
        if it.op == "comp" and it.args[0] == "list" and len(it.args) == 3 and len(it.args[2]) == 1 and it.args[2][0][1] and not s.orelse \
                and it.args[1] is mk("elem", it.args[2][0][0]):
            src, conds = it.args[2][0]
            el = mk("elem", src)
            lev = self._emit("loop", s, st, iter=src, elem=el)

            def bind_f(bst, conds=conds):
                bst.pc = tuple(bst.pc) + tuple(conds)
                self._assign(s.target, el, bst, s, loop_target=True)

            return self._loop(s, st, s.body, s.orelse, el, bind_f, lev)
        # a loop over a list built by a one-generator comprehension visits f(x) for each x of the source in order
        if depth and _is_simple_comp(it) and not s.orelse:
            src = it.args[2][0][0]
            el = mk("elem", src)
            lev = self._emit("loop", s, st, iter=src, elem=el)

            def bind_c(bst, elt=it.args[1]):
                self._assign(s.target, elt, bst, s, loop_target=True)

            return self._loop(s, st, s.body, s.orelse, el, bind_c, lev)
        # a table-driven loop `for k, v in ((K1, a), (K2, b), (K3, c)): BODY` is BODY for each record in turn: unrolled, so that
        # what flows into v is a, b, c themselves (label provenance, aliasing) and not "some element of a tuple"
        table = it.op in ("tuple", "list") and 1 <= len(it.args[0]) <= 6 and all(x.op in ("tuple", "list") for x in it.args[0]) \
            and isinstance(s.target, (ast.Tuple, ast.List))
        # ... and the search idiom `for cand in (A, B): if test(cand): return v` (then a raise / default after the loop)
        search = it.op in ("tuple", "list") and 1 <= len(it.args[0]) <= 6 and isinstance(s.target, ast.Name) \
            and _direct_jumps(s.body, (ast.Return,)) and all(x.op != "const" for x in it.args[0])
        # ... and the alias loop `for opt in (self.a, self.b): opt.step()` over a few objects (not a loop over constants, which
        # enumerates cases and is summarised as a loop)
        alias = it.op in ("tuple", "list") and 1 <= len(it.args[0]) <= 4 and isinstance(s.target, ast.Name) \
            and all(x.op in ("attr", "param", "loopvar", "sub", "new") for x in it.args[0])
        if (table or search or alias) and not s.orelse and not _direct_jumps(s.body, (ast.Break, ast.Continue)):
            cur = st
            out = []
            for item in it.args[0]:
                self._assign(s.target, item, cur, s)
                exs = self._block(s.body, cur)
                falls = [e for e in exs if e.kind == "fall"]
                out.extend(e for e in exs if e.kind != "fall")
                if not falls:
                    return self._join(out) if out else []
                cur = falls[0].state
                for f in falls[1:]:
                    cur, _c = merge_states(cur, f.state)
            return self._join(out + [_Exit("fall", cur)])
        el = mk("elem", it)
        lev = self._emit("loop", s, st, iter=it, elem=el)

        def bind(bst):
            self._assign(s.target, el, bst, s, loop_target=True)

        return self._loop(s, st, s.body, s.orelse, el, bind, lev)

    _s_AsyncFor = _s_For

    def _s_While(self, s, st):
        # `while True: if c: break; <body>`  is  `while not c: <body>`  (same tests in the same order, `continue` re-tests c in both)
        if isinstance(s.test, ast.Constant) and s.test.value is True and not s.orelse and s.body and isinstance(s.body[0], ast.If) \
                and len(s.body[0].body) == 1 and isinstance(s.body[0].body[0], ast.Break) and not s.body[0].orelse and len(s.body) > 1:
            g = s.body[0].test
            t = g.operand if isinstance(g, ast.UnaryOp) and isinstance(g.op, ast.Not) else ast.UnaryOp(op=ast.Not(), operand=g)
            s2 = ast.While(test=ast.copy_location(t, g), body=s.body[1:], orelse=[])
            ast.copy_location(s2, s)
            ast.fix_missing_locations(s2)
            return self._s_While(s2, st)
        # `while A and B: S`  is  `while A: if B: S else: break`  (B is tested only when A holds, the loop ends when either fails)
        if isinstance(s.test, ast.BoolOp) and isinstance(s.test.op, ast.And) and len(s.test.values) >= 2 and not s.orelse:
            rest = s.test.values[1] if len(s.test.values) == 2 else ast.copy_location(ast.BoolOp(op=ast.And(), values=s.test.values[1:]), s.test)
            inner = ast.If(test=rest, body=s.body, orelse=[ast.copy_location(ast.Break(), s)])
            s2 = ast.While(test=s.test.values[0], body=[ast.copy_location(inner, s)], orelse=[])
            ast.copy_location(s2, s)
            ast.fix_missing_locations(s2)
            return self._s_While(s2, st)
        c = self._expr(s.test, st.fork())
        lev = self._emit("loop", s, st, iter=c, elem=None)
        key = mk("while", c)

        def bind(bst):
            c2 = self._expr(s.test, bst)
            self._emit("branch", s, bst, cond=c2)

        return self._loop(s, st, s.body, s.orelse, key, bind, lev)

    def _s_With(self, s, st):
        for item in s.items:
            ctx = self._expr(item.context_expr, st)
            self._emit("with", s, st, ctx=ctx)
            if item.optional_vars is not None:
                self._assign(item.optional_vars, mk("enter", ctx), st, s)
        return self._block(s.body, st)

    _s_AsyncWith = _s_With

    def _s_Try(self, s, st):
        tid = self._fresh("try")
        names, attrs = _assigned_in(s.body)
        body_exits = self._block(s.body, st.fork())
        out = []
        falls = []
        for e in body_exits:
            if e.kind == "raise" and s.handlers:
                continue  # possibly caught; the handlers are evaluated below
            out.append(e) if e.kind != "fall" else falls.append(e)
        if s.orelse and falls:
            merged = falls[0].state
            for f in falls[1:]:
                merged, _ = merge_states(merged, f.state)
            ex = self._block(s.orelse, merged)
            falls = [e for e in ex if e.kind == "fall"]
            out.extend(e for e in ex if e.kind != "fall")
        for i, h in enumerate(s.handlers):
            ty = self._expr(h.type, st.fork()) if h.type is not None else glob("builtins.BaseException")
            hst = st.fork(mk("exc", tid, i, ty))
            for n in names:
                hst.loc[n] = mk("maybe", n, tid)
            for an in attrs:
                try:
                    obj = self._expr(_to_load(an.value), st.fork())
                except AnalysisError:
                    continue
                hst.heap[(obj, an.attr)] = mk("maybe", an.attr, tid)
            if h.name:
                hst.loc[h.name] = mk("exception", ty)
            self._emit("handler", h, hst, exc_type=ty)
            ex = self._block(h.body, hst)
            for e in ex:
                (falls if e.kind == "fall" else out).append(e)
        res = self._join(out + falls)
        if s.finalbody:
            final = []
            for e in res:
                if e.kind == "fall":
                    final.extend(self._block(s.finalbody, e.state))
                else:
                    final.append(e)
            res = self._join(final)
        return res

    _s_TryStar = _s_Try

    def _s_Match(self, s, st):
        raise AnalysisError("match statements are not modelled")

    # ---------------------------------------------------------------- assignment
    def _assign(self, tgt, v: T, st: State, stmt, aug=False, loop_target=False):
        if isinstance(tgt, ast.Name):
            shared = ()
            if aug and v.op == "binop":
                # other local names bound to the very object that `x op= e` may update in place
                shared = tuple(sorted(n for n, t in st.loc.items() if n != tgt.id and t is v.args[1]))
            st.loc[tgt.id] = v
            self._emit("store", stmt, st, tkind="name", name=tgt.id, value=v, target_node=tgt, shared=shared)
        elif isinstance(tgt, (ast.Tuple, ast.List)):
            items = v.args[0] if v.op in ("tuple", "list") and len(v.args[0]) == len(tgt.elts) else None
            for i, el in enumerate(tgt.elts):
                if isinstance(el, ast.Starred):
                    self._assign(el.value, mk("starsub", v, i), st, stmt)
                else:
                    self._assign(el, items[i] if items is not None else mk("sub", v, const(i)), st, stmt)
        elif isinstance(tgt, ast.Attribute):
            obj = self._expr(tgt.value, st)
            st.heap[(obj, tgt.attr)] = v
            self._emit("store", stmt, st, tkind="attr", obj=obj, attr=tgt.attr, value=v, target_node=tgt)
        elif isinstance(tgt, ast.Subscript):
            key = self._slice(tgt.slice, st)
            base = tgt.value
            old = self._expr(_to_load(base), st)
            new = mk("upd", old, key, v)
            # write the updated container back to where it lives
            self._writeback(base, new, st)
            if isinstance(base, ast.Attribute) and base.attr in ("at", "loc") and isinstance(base.value, (ast.Name, ast.Attribute)):
                # x.at[k] = v / x.loc[k] = v update x itself (by label, as x[k] = v does for a labelled container)
                under = self._expr(_to_load(base.value), st)
                self._writeback(base.value, mk("upd", under, key, v), st)
            self._emit("store", stmt, st, tkind="sub", obj=old, key=key, value=v, base_node=base, target_node=tgt)
        elif isinstance(tgt, ast.Starred):
            self._assign(tgt.value, v, st, stmt)
        else:
            raise AnalysisError(f"unsupported assignment target {type(tgt).__name__}")

    def _writeback(self, base, new, st):
        if isinstance(base, ast.Name):
            st.loc[base.id] = new
        elif isinstance(base, ast.Attribute):
            obj = self._expr(base.value, st)
            st.heap[(obj, base.attr)] = new
        elif isinstance(base, ast.Subscript):
            key = self._slice(base.slice, st)
            old = self._expr(_to_load(base.value), st)
            self._writeback(base.value, mk("upd", old, key, new), st)
        # other bases (calls) are not tracked

    # ---------------------------------------------------------------- expressions
    def _expr(self, e, st: State) -> T:
        m = getattr(self, "_e_" + type(e).__name__, None)
        if m is None:
            raise AnalysisError(f"unsupported expression {type(e).__name__} at line {getattr(e, 'lineno', '?')}")
        return m(e, st)

    def _e_Constant(self, e, st):
        return const(e.value) if not isinstance(e.value, (bytes, complex, type(Ellipsis))) else mk("const", type(e.value).__name__, repr(e.value))

    def _global_term(self, dotted: str) -> T:
        mc = self.prog.module_const_expr(dotted)
        if mc is not None:
            mod, expr = mc
            if dotted in self._active:
                return glob(dotted)
            # fold module-level constants (strings, numbers, tuples/lists/dicts of them, .format)
            self._active.append(dotted)
            fi = FunctionInfo(f"{mod.name}:<module>", mod.name, "<module>", "<module>", mod.tree, None)
            self._frames.append((fi, None, None, None))
            saved, self.events = self.events, []
            try:
                v = self._expr(expr, State({}, {}, ()))
            except AnalysisError:
                v = glob(dotted)
            finally:
                self.events = saved
                self._frames.pop()
                self._active.pop()
            if _is_literal(v):
                return v
            return mk("modconst", dotted, v)
        return glob(dotted)

    def _e_Name(self, e, st):
        if e.id in st.loc:
            return st.loc[e.id]
        fi = self._cur()[0]
        mod = self.prog.modules.get(fi.module)
        if mod is not None and (e.id in mod.imports or e.id in mod.functions or e.id in mod.classes or e.id in mod.assigns):
            return self._global_term(self.prog.resolve_name(mod.name, e.id))
        if e.id in ("True", "False", "None"):
            return const({"True": True, "False": False, "None": None}[e.id])
        import builtins
        if hasattr(builtins, e.id):
            return glob(f"builtins.{e.id}")
        return mk("undef", e.id)

    def _e_Attribute(self, e, st):
        obj = self._expr(e.value, st)
        return self._getattr(obj, e.attr, st, e)

    def _getattr(self, obj: T, attr: str, st: State, node) -> T:
        if obj.op == "global":
            name = obj.args[0]
            if name in self.prog.modules:
                return self._global_term(self.prog.resolve_name(name, attr))
            if ":" in name and name in self.prog.classes:
                ci = self.prog.classes[name]
                m = self.prog.lookup_method(name, attr)
                if m is not None:
                    return glob(m.fq)
                if attr in ci.class_attrs:
                    return mk("classattr", name, attr)
            sep = "."
            return glob(f"{name}{sep}{attr}")
        key = (obj, attr)
        if key in st.heap:
            return st.heap[key]
        if obj.op == "call" and obj.args[0].op == "global" and obj.args[0].args[0] in RECORD_CONSTRUCTORS:
            # attribute of a record built from keyword arguments: Bunch(a=x).a is x
            for k, v in obj.args[2]:
                if k == attr:
                    return v
        fi, cls_ctx, _cs, self_term = self._cur()
        cls = self._class_of(obj)
        if cls is not None:
            m = self.prog.lookup_method(cls, attr)
            if m is not None and m.is_property and self.inline_props and len(self._frames) <= self.max_depth + 2 \
                    and m.fq not in self._active:
                sub = State({m.params()[0]: obj}, st.heap, st.pc)
                ret, final, _ = self._activate(m, cls, sub, obj, callsite=node)
                if final is not None:
                    st.heap.update(final.heap)
                    return ret
            if m is not None and not m.is_property:
                return mk("boundmethod", obj, m.fq)
            if m is None:
                for c in self.prog.mro(cls):
                    ci = self.prog.classes.get(c)
                    if ci and attr in ci.class_attrs:
                        return mk("classattr", c, attr)
        if obj is self_term or obj.op == "param":
            self._emit("read", node, st, obj=obj, attr=attr)
        if attr in VOLATILE_ATTRS:
            # value depends on the state-changing calls made so far (x.grad after backward / zero_grad)
            return mk("vattr", obj, attr, self._effects)
        return mk("attr", obj, attr)

    def _class_of(self, obj: T):
        """Static class of a receiver term, when known."""
        fi, cls_ctx, _cs, self_term = self._cur()
        if self_term is not None and obj is self_term:
            return cls_ctx
        if obj.op == "new":
            return obj.args[0]
        if obj.op == "typed":
            return obj.args[0]
        return None

    def _slice(self, sl, st):
        if isinstance(sl, ast.Slice):
            return mk("slice", *[self._expr(x, st) if x is not None else NONE for x in (sl.lower, sl.upper, sl.step)])
        if isinstance(sl, ast.Tuple):
            return mk("tuple", tuple(self._slice(x, st) for x in sl.elts))
        return self._expr(sl, st)

    def _e_Subscript(self, e, st):
        obj = self._expr(e.value, st)
        key = self._slice(e.slice, st)
        return self._getitem(obj, key)

    def _getitem(self, obj, key):
        if obj.op in ("tuple", "list") and key.op == "const" and isinstance(const_value(key), int) \
                and not isinstance(const_value(key), bool):
            items = obj.args[0]
            k = const_value(key)
            if -len(items) <= k < len(items):
                return items[k]
        if obj.op == "dict" and key.op == "const":
            for k, v in obj.args[0]:
                if k is key:
                    return v
        if obj.op == "modconst":
            inner = self._getitem(obj.args[1], key)
            if inner.op != "sub":
                return inner
        return mk("sub", obj, key)

    def _e_Slice(self, e, st):
        return self._slice(e, st)

    def _e_Starred(self, e, st):
        return mk("starred", self._expr(e.value, st))

    def _e_Tuple(self, e, st):
        return mk("tuple", tuple(self._expr(x, st) for x in e.elts))

    def _e_List(self, e, st):
        return mk("list", tuple(self._expr(x, st) for x in e.elts))

    def _e_Set(self, e, st):
        return mk("set", tuple(sorted((self._expr(x, st) for x in e.elts), key=lambda t: t.uid)))

    def _e_Dict(self, e, st):
        items = []
        for k, v in zip(e.keys, e.values):
            if k is None:
                vv = self._expr(v, st)
                if vv.op == "dict":
                    items.extend(vv.args[0])
                else:
                    items.append((mk("dictsplat"), vv))
            else:
                items.append((self._expr(k, st), self._expr(v, st)))
        return mk("dict", tuple(items))

    def _e_BinOp(self, e, st):
        l, r = self._expr(e.left, st), self._expr(e.right, st)
        op = _BINOPS[type(e.op)]
        if l.op == "const" and r.op == "const":
            lv, rv = const_value(l), const_value(r)
            try:
                if op == "+" and isinstance(lv, str) and isinstance(rv, str):
                    return const(lv + rv)
                if op == "%" and isinstance(lv, str):
                    return const(lv % rv)
            except Exception:
                pass
        if op == "+" and l.op in ("list", "tuple") and r.op == l.op:
            return mk(l.op, l.args[0] + r.args[0])
        return mk("binop", op, l, r)

    def _e_UnaryOp(self, e, st):
        v = self._expr(e.operand, st)
        if isinstance(e.op, ast.Not):
            return neg(v)
        if v.op == "const" and isinstance(const_value(v), (int, float)) and not isinstance(const_value(v), bool):
            if isinstance(e.op, ast.USub):
                return const(-const_value(v))
            if isinstance(e.op, ast.UAdd):
                return v
        return mk("unop", _UNOPS[type(e.op)], v)

    def _e_BoolOp(self, e, st):
        # operands after the first are evaluated only when the earlier ones did not decide the result: the events of a later
        # operand (calls with effects, e.g. `stop = stop or cb(...)`) carry that short-circuit condition in their pc
        is_and = isinstance(e.op, ast.And)
        vals = []
        cur = st
        for i, x in enumerate(e.values):
            vals.append(self._expr(x, cur))
            if i + 1 < len(e.values) and any(isinstance(n, (ast.Call, ast.NamedExpr, ast.Await)) for n in ast.walk(e.values[i + 1])):
                cur = cur.fork(vals[-1] if is_and else neg(vals[-1]))
        return mk("and" if is_and else "or", tuple(vals))

    def _e_Compare(self, e, st):
        left = self._expr(e.left, st)
        parts = []
        for op, comp in zip(e.ops, e.comparators):
            right = self._expr(comp, st)
            parts.append(mk("cmp", _CMPOPS[type(op)], left, right))
            left = right
        return parts[0] if len(parts) == 1 else mk("and", tuple(parts))

    def _e_IfExp(self, e, st):
        c = self._expr(e.test, st)
        bev = self._emit("branch", e, st, cond=c)
        folded = self._fold_truth(c)
        bev.data["folded"] = folded
        if folded is True:
            return self._expr(e.body, st)
        if folded is False:
            return self._expr(e.orelse, st)
        return ite(c, self._expr(e.body, st.fork(c)), self._expr(e.orelse, st.fork(neg(c))))

    def _e_JoinedStr(self, e, st):
        parts = []
        for v in e.values:
            if isinstance(v, ast.Constant):
                parts.append(const(v.value))
            else:
                parts.append(mk("fmtval", self._expr(v.value, st), v.conversion,
                                self._expr(v.format_spec, st) if v.format_spec is not None else NONE))
        if all(p.op == "const" for p in parts):
            return const("".join(str(const_value(p)) for p in parts))
        # constant-fold interpolated constant strings
        folded = []
        for p in parts:
            if p.op == "fmtval" and p.args[0].op == "const" and p.args[1] == -1 and p.args[2] is NONE \
                    and isinstance(const_value(p.args[0]), str):
                folded.append(const(const_value(p.args[0])))
            else:
                folded.append(p)
        if all(p.op == "const" for p in folded):
            return const("".join(str(const_value(p)) for p in folded))
        return mk("fstr", tuple(folded))

    def _e_FormattedValue(self, e, st):
        return mk("fmtval", self._expr(e.value, st), e.conversion, NONE)

    def _e_Lambda(self, e, st):
        t = mk("lambda", self._fresh("lam"))
        self.closures[t] = (e, st, self._cur()[1], self._cur()[3], self._cur()[0])
        # canonical body term (bound variables are positional)
        sub = st.fork()
        a = e.args
        for i, p in enumerate(a.posonlyargs + a.args + a.kwonlyargs):
            sub.loc[p.arg] = mk("bv", i)
        saved, self.events = self.events, []
        try:
            body = self._expr(e.body, sub)
        except AnalysisError:
            body = mk("opaque_lambda", t.args[0])
        finally:
            inner_events = self.events
            self.events = saved
        lam = mk("lam", len(a.posonlyargs + a.args + a.kwonlyargs), body)
        self.closures[lam] = (e, st, self._cur()[1], self._cur()[3], self._cur()[0])
        self._emit("lambda", e, st, term=lam, inner=inner_events)
        return lam

    def _comp(self, e, st, kind, elt_fn):
        sub = st.fork()
        gens = []
        for g in e.generators:
            it = self._expr(g.iter, sub)
            el = mk("elem", it)
            self._assign(g.target, el, sub, e)
            conds = tuple(self._expr(c, sub) for c in g.ifs)
            gens.append((it, conds))
        body = elt_fn(sub)
        self._emit("comp", e, st, ckind=kind)
        return mk("comp", kind, body, tuple(gens))

    def _e_ListComp(self, e, st):
        return self._comp(e, st, "list", lambda s: self._expr(e.elt, s))

    def _e_SetComp(self, e, st):
        return self._comp(e, st, "set", lambda s: self._expr(e.elt, s))

    def _e_GeneratorExp(self, e, st):
        return self._comp(e, st, "gen", lambda s: self._expr(e.elt, s))

    def _e_DictComp(self, e, st):
        return self._comp(e, st, "dict", lambda s: mk("kv", self._expr(e.key, s), self._expr(e.value, s)))

    def _helper_as_lam(self, t: T) -> T:
        """A helper function introduced after the rules were written, passed as a value (`col.apply(_scalar_or_nan)`), denotes the
        same callable as the lambda it replaced: summarise a straight-line / branching body over bound variables."""
        if t.op != "global" or not self.prog.is_new_helper(t.args[0]) or t.args[0] not in self.prog.functions:
            return t
        fi = self.prog.functions[t.args[0]]
        a = fi.node.args
        if a.vararg or a.kwarg or a.defaults or a.kw_defaults or getattr(fi, "cls", None) or fi.fq in self._active or _is_generator(fi.node):
            return t
        params = a.posonlyargs + a.args + a.kwonlyargs
        sub = State({p.arg: mk("bv", i) for i, p in enumerate(params)}, {}, ())
        saved, self.events = self.events, []
        try:
            ret, final, _ = self._activate(fi, None, sub, None, callsite=None)
        except AnalysisError:
            return t
        finally:
            self.events = saved
        if final is None or ret is None:
            return t
        return mk("lam", len(params), ret)

    def _e_NamedExpr(self, e, st):
        v = self._expr(e.value, st)
        self._assign(e.target, v, st, e)
        return v

    def _e_Await(self, e, st):
        return self._expr(e.value, st)

    def _e_Yield(self, e, st):
        v = self._expr(e.value, st) if e.value is not None else NONE
        self._emit("yield", e, st, value=v)
        return mk("yielded", v)

    _e_YieldFrom = _e_Yield

    # ---------------------------------------------------------------- calls
    def _e_Call(self, e, st):
        # list(map(f, xs)) is [f(x) for x in xs] (evaluated as the comprehension so that f is applied, not just named)
        if isinstance(e.func, ast.Name) and e.func.id == "list" and "list" not in st.loc and len(e.args) == 1 and not e.keywords \
                and isinstance(e.args[0], ast.Call) and isinstance(e.args[0].func, ast.Name) and e.args[0].func.id == "map" \
                and "map" not in st.loc and len(e.args[0].args) == 2 and not e.args[0].keywords \
                and not any(isinstance(x, ast.Starred) for x in e.args[0].args):
            v_ = ast.Name(id="_map_item", ctx=ast.Load())
            comp = ast.ListComp(elt=ast.Call(func=e.args[0].args[0], args=[v_], keywords=[]),
                                generators=[ast.comprehension(target=ast.Name(id="_map_item", ctx=ast.Store()), iter=e.args[0].args[1],
                                                              ifs=[], is_async=0)])
            ast.copy_location(comp, e)
            ast.fix_missing_locations(comp)
            return self._expr(comp, st)
        fterm = self._expr(e.func, st)
        args = []
        star = False
        for a in e.args:
            if isinstance(a, ast.Starred):
                v = self._expr(a.value, st)
                if v.op in ("tuple", "list"):
                    args.extend(v.args[0])
                else:
                    args.append(mk("starred", v))
                    star = True
            else:
                args.append(self._expr(a, st))
        args = [self._helper_as_lam(a) for a in args]
        kwargs = []
        for k in e.keywords:
            v = self._helper_as_lam(self._expr(k.value, st)) if k.arg is not None else self._expr(k.value, st)
            if k.arg is None:
                if v.op == "dict" and all(kk.op == "const" and isinstance(const_value(kk), str) for kk, _ in v.args[0]):
                    kwargs.extend((const_value(kk), vv) for kk, vv in v.args[0])
                else:
                    kwargs.append(("**", v))
            else:
                kwargs.append((k.arg, v))
        if fterm.op == "global" and fterm.args[0] == "builtins.dict" and not args and not star and kwargs \
                and all(k != "**" for k, _ in kwargs):
            return mk("dict", tuple((const(k), v) for k, v in kwargs))   # dict(a=x, b=y) is {"a": x, "b": y}
        return self._call(fterm, args, kwargs, st, e, star)

    def _call(self, fterm: T, args, kwargs, st: State, node, star=False) -> T:
        target = None  # (FunctionInfo, cls_ctx, self_term)
        recv = None
        fi_cur, cls_ctx, _cs, self_term = self._cur()
        kind = "external"
        if fterm.op == "global" and fterm.args[0] in WRAPPER_ALIASES:
            fterm = glob(WRAPPER_ALIASES[fterm.args[0]])
        if fterm.op == "global":
            name = fterm.args[0]
            if name in self.prog.functions:
                f = self.prog.functions[name]
                if f.cls is not None and not f.is_static and args:
                    # unbound method call Class.m(self, ...)
                    target = (f, self._class_of(args[0]) or f.cls, args[0])
                    recv, args = args[0], args[1:]
                else:
                    target = (f, None, None)
            elif name in self.prog.classes:
                return self._construct(name, args, kwargs, st, node, star)
            elif name == "builtins.super":
                if args:
                    return mk("super", self._class_name(args[0]), args[1] if len(args) > 1 else self_term)
                return mk("super", fi_cur.cls, self_term)
        elif fterm.op == "boundmethod":
            recv = fterm.args[0]
            f = self.prog.functions[fterm.args[1]]
            target = (f, self._class_of(recv) or f.cls, recv)
        elif fterm.op == "attr":
            recv, name = fterm.args
            if recv.op == "super":
                start, sself = recv.args
                ctx = self._class_of(sself) or cls_ctx
                f = self.prog.lookup_method(ctx, name, after=start) if ctx and start else None
                if f is not None:
                    target = (f, ctx, sself)
                    recv = sself
            else:
                folded = self._fold_method(recv, name, args, kwargs)
                if folded is not None:
                    return folded
        elif fterm.op in ("closure", "lambda", "lam"):
            return self._call_closure(fterm, args, kwargs, st, node, star)
        elif fterm.op == "ite" and all(x.op in ("boundmethod", "global", "closure", "lam", "lambda") for x in fterm.args[1:]):
            # a callable chosen by a branch (method value stored in a local): follow both alternatives
            c, fa, fb = fterm.args
            sa_, sb_ = st.fork(c), st.fork(neg(c))
            ra = self._call(fa, list(args), list(kwargs), sa_, node, star)
            rb = self._call(fb, list(args), list(kwargs), sb_, node, star)
            merged, cond = merge_states(sa_, sb_)
            st.loc.clear()
            st.loc.update(merged.loc)
            st.heap.clear()
            st.heap.update(merged.heap)
            st.pc = merged.pc
            return ite(c, ra, rb)

        if target is not None:
            f, ctx, sself = target
            self.resolved_calls += 1
            helper = self.prog.is_new_helper(f.fq)
            can_inline = (
                not star and f.fq not in self._active and not _is_generator(f.node)
                and (helper or (len(self._frames) - self._transparent <= self.max_depth
                                and (self.inline_policy is None or self.inline_policy(f.fq, len(self._frames) - self._transparent))))
            )
            # the call of a transparent helper is not a call as far as the rules are concerned: its body is seen in place
            ev = self._emit("call-inlined" if (helper and can_inline) else "call", node, st, callee=f.fq, fterm=fterm, args=tuple(args),
                            kwargs=tuple(kwargs), recv=sself, inlined=can_inline, resolved=True)
            if can_inline:
                bound = self._bind(f, sself, args, kwargs, st)
                if bound is not None:
                    params0 = dict(bound)   # the parameter bindings at entry (the activation adds the callee's locals to `bound`)
                    sub = State(bound, st.heap, st.pc)
                    ret, final, _ = self._activate(f, ctx, sub, sself, callsite=node, transparent=helper)
                    if final is None:
                        # callee never returns normally: the continuation is dead; keep going with an
                        # opaque value under an impossible-looking but harmless state
                        ev.data["noreturn"] = True
                        ev.data["result"] = ret
                        return ret
                    _h = dict(final.heap)
                    st.heap.clear()
                    st.heap.update(_h)
                    st.pc = final.pc
                    self._propagate_mutations(st, params0, final)
                    ev.data["result"] = ret
                    return ret
                ev.data["inlined"] = False
                ev.kind = "call"
            res = mk("call", glob(f.fq) if sself is None else mk("boundmethod", sself, f.fq), tuple(args), tuple(kwargs))
            ev.data["result"] = res
            return res
        self.unresolved_calls += 1
        res = mk("call", fterm, tuple(args), tuple(kwargs))
        if fterm.op == "attr" and fterm.args[1] in EFFECT_METHODS:
            self._effects = self._effects + (res,)
        self._emit("call", node, st, callee=_callee_name(fterm), fterm=fterm, args=tuple(args), kwargs=tuple(kwargs),
                   recv=recv, inlined=False, resolved=False, result=res)
        return res

    def _propagate_mutations(self, st: State, bound: dict, final: State):
        """In-place mutation of an argument object by an inlined callee (x[k] = v on a parameter) is made
        visible to the caller's variables / attributes that hold the same object."""
        for p, argt in bound.items():
            fin = final.loc.get(p)
            if fin is None or fin is argt or fin.op not in ("upd", "ite", "loopout"):
                continue
            if not any(x is argt for x in subterms(fin)):
                continue
            if root_of(fin) is not argt and fin.op != "ite" and fin.op != "loopout":
                continue
            for k, v in list(st.loc.items()):
                if v is argt:
                    st.loc[k] = fin
            for k, v in list(st.heap.items()):
                if v is argt:
                    st.heap[k] = fin

    def _class_name(self, t: T):
        if t.op == "global" and t.args[0] in self.prog.classes:
            return t.args[0]
        return None

    def _construct(self, cls_fq, args, kwargs, st, node, star):
        inst = mk("new", cls_fq, tuple(args), tuple(kwargs), self._fresh("obj"))
        init = self.prog.lookup_method(cls_fq, "__init__")
        ev = self._emit("call", node, st, callee=cls_fq, fterm=glob(cls_fq), args=tuple(args), kwargs=tuple(kwargs),
                        recv=None, inlined=False, resolved=True, result=inst, constructs=cls_fq)
        if init is not None and not star and init.fq not in self._active and len(self._frames) <= self.max_depth \
                and (self.inline_policy is None or self.inline_policy(init.fq, len(self._frames))):
            bound = self._bind(init, inst, args, kwargs, st)
            if bound is not None:
                ev.data["inlined"] = True
                sub = State(bound, st.heap, st.pc)
                ret, final, _ = self._activate(init, cls_fq, sub, inst, callsite=node)
                if final is not None:
                    _h = dict(final.heap)
                    st.heap.clear()
                    st.heap.update(_h)
                    st.pc = final.pc
        return inst

    def _bind(self, f: FunctionInfo, sself, args, kwargs, st):
        a = f.node.args
        pos = a.posonlyargs + a.args
        names = [p.arg for p in pos]
        bound = {}
        args = list(args)
        if f.cls is not None and not f.is_static and sself is not None:
            if not names:
                return None
            bound[names[0]] = sself
            names = names[1:]
            pos = pos[1:]
        elif f.is_classmethod:
            bound[names[0]] = glob(f.cls)
            names = names[1:]
            pos = pos[1:]
        if len(args) > len(names):
            if a.vararg is None:
                return None
            bound[a.vararg.arg] = mk("tuple", tuple(args[len(names):]))
            args = args[: len(names)]
        elif a.vararg is not None:
            bound[a.vararg.arg] = mk("tuple", ())
        for n, v in zip(names, args):
            bound[n] = v
        extra = []
        konly = [p.arg for p in a.kwonlyargs]
        for k, v in kwargs:
            if k == "**":
                if a.kwarg is None:
                    return None
                extra.append((mk("dictsplat"), v))
                continue
            if k in names or k in konly:
                if k in bound:
                    return None
                bound[k] = v
            elif a.kwarg is not None:
                extra.append((const(k), v))
            else:
                return None
        if a.kwarg is not None:
            bound[a.kwarg.arg] = mk("dict", tuple(extra))
        # defaults
        allpos = a.posonlyargs + a.args
        defaults = dict(zip([p.arg for p in allpos[len(allpos) - len(a.defaults):]], a.defaults))
        for p, d in zip(a.kwonlyargs, a.kw_defaults):
            if d is not None:
                defaults[p.arg] = d
        for n in names + konly:
            if n not in bound:
                if n in defaults:
                    bound[n] = self._default(f, defaults[n])
                else:
                    return None
        return bound

    def _default(self, f: FunctionInfo, expr):
        fi = FunctionInfo(f"{f.module}:<defaults>", f.module, "<defaults>", "<defaults>", f.node, None)
        self._frames.append((fi, None, None, None))
        saved, self.events = self.events, []
        try:
            return self._expr(expr, State({}, {}, ()))
        finally:
            self.events = saved
            self._frames.pop()

    def _call_closure(self, fterm, args, kwargs, st, node, star):
        info = self.closures.get(fterm)
        res = mk("call", fterm, tuple(args), tuple(kwargs))
        if info is None or star or len(self._frames) > self.max_depth + 1:
            self._emit("call", node, st, callee=show(fterm, maxdepth=2), fterm=fterm, args=tuple(args),
                       kwargs=tuple(kwargs), recv=None, inlined=False, resolved=False, result=res)
            return res
        what = info[0]
        if isinstance(what, ast.Lambda):
            _n, cst, ctx, sself, fi = info
            a = what.args
            names = [p.arg for p in a.posonlyargs + a.args]
            if len(args) != len(names) or kwargs:
                return res
            sub = State(dict(cst.loc), st.heap, st.pc)
            sub.loc.update(zip(names, args))
            self._frames.append((fi, ctx, node, sself))
            try:
                r = self._expr(what.body, sub)
            finally:
                self._frames.pop()
            self._emit("call", node, st, callee="<lambda>", fterm=fterm, args=tuple(args), kwargs=tuple(kwargs),
                       recv=None, inlined=True, resolved=True, result=r)
            return r
        f, cst, ctx, sself = info
        if f is None or f.fq in self._active or _is_generator(f.node):
            return res
        bound = self._bind(f, None, args, kwargs, st)
        ev = self._emit("call", node, st, callee=f.fq, fterm=fterm, args=tuple(args), kwargs=tuple(kwargs), recv=None,
                        inlined=bound is not None, resolved=True)
        if bound is None:
            ev.data["result"] = res
            return res
        loc = dict(cst.loc)
        loc.update(bound)
        sub = State(loc, st.heap, st.pc)
        # the closure keeps the defining frame's self / class context
        self._frames.append((f, ctx, node, sself))
        self._active.append(f.fq)
        try:
            exits = self._block(f.node.body, sub)
        finally:
            self._active.pop()
            self._frames.pop()
        rets = [(x.state, x.value if x.value is not None else NONE) for x in exits if x.kind in ("return", "fall")]
        if not rets:
            ev.data["result"] = mk("noreturn")
            return mk("noreturn")
        state, val = rets[0]
        for s2, v2 in rets[1:]:
            state, cond = merge_states(state, s2)
            val = ite(cond, val, v2)
        _h = dict(state.heap)
        st.heap.clear()
        st.heap.update(_h)
        st.pc = state.pc
        ev.data["result"] = val
        return val

    # ---------------------------------------------------------------- small folds
    def _fold_method(self, recv: T, name: str, args, kwargs):
        if recv.op == "modconst":
            inner = self._fold_method(recv.args[1], name, args, kwargs)
            return inner
        if recv.op == "dict" and name == "get" and args and args[0].op == "const" and not kwargs:
            if all(k.op == "const" for k, _ in recv.args[0]):
                for k, v in recv.args[0]:
                    if k is args[0]:
                        return v
                return args[1] if len(args) > 1 else NONE
        if recv.op == "dict" and name == "keys" and not args:
            return mk("dictkeys", recv)
        if recv.op == "const" and isinstance(const_value(recv), str):
            s = const_value(recv)
            if name == "format" and all(a.op == "const" for a in args) and all(v.op == "const" for _, v in kwargs):
                try:
                    return const(s.format(*[const_value(a) for a in args], **{k: const_value(v) for k, v in kwargs}))
                except Exception:
                    return None
            if name == "join" and len(args) == 1 and args[0].op in ("list", "tuple") \
                    and all(a.op == "const" for a in args[0].args[0]):
                try:
                    return const(s.join(const_value(a) for a in args[0].args[0]))
                except Exception:
                    return None
        return None

    def _fold_truth(self, c: T):
        """Constant-fold a condition when it is syntactically decided (used for call-site constants)."""
        if c is TRUE:
            return True
        if c is FALSE:
            return False
        if c.op == "const":
            return bool(const_value(c))
        if c.op == "not":
            r = self._fold_truth(c.args[0])
            return None if r is None else (not r)
        if c.op == "and":
            rs = [self._fold_truth(x) for x in c.args[0]]
            if any(r is False for r in rs):
                return False
            if all(r is True for r in rs):
                return True
            return None
        if c.op == "or":
            rs = [self._fold_truth(x) for x in c.args[0]]
            if any(r is True for r in rs):
                return True
            if all(r is False for r in rs):
                return False
            return None
        if c.op == "cmp":
            op, l, r = c.args
            if op in ("is", "is not") and (l is NONE or r is NONE):
                other = r if l is NONE else l
                if other.op == "const":
                    res = other is NONE
                    return res if op == "is" else (not res)
                if other.op in ("new", "tuple", "list", "dict", "lam", "lambda", "closure", "binop", "fstr", "comp"):
                    return op == "is not"
                return None
            if op in ("in", "not in") and l.op == "const" and _is_literal(r) and r.op in ("list", "tuple", "set", "dict"):
                try:
                    res = const_value(l) in literal_value(r)
                    return res if op == "in" else (not res)
                except Exception:
                    return None
            if l.op == "const" and r.op == "const":
                lv, rv = const_value(l), const_value(r)
                try:
                    return {
                        "==": lv == rv, "!=": lv != rv, "<": lv < rv, "<=": lv <= rv, ">": lv > rv, ">=": lv >= rv,
                        "is": lv is rv, "is not": lv is not rv,
                    }.get(op)
                except Exception:
                    return None
        return None


def _callee_name(fterm: T) -> str:
    if fterm.op == "global":
        return fterm.args[0]
    if fterm.op == "attr":
        return "." + fterm.args[1]
    return fterm.op


def _is_literal(t: T) -> bool:
    if t.op == "const":
        return True
    if t.op in ("tuple", "list", "set"):
        return all(_is_literal(x) for x in t.args[0])
    if t.op == "dict":
        return all(_is_literal(k) and _is_literal(v) for k, v in t.args[0])
    return False


def _is_generator(node) -> bool:
    for n in ast.walk(node):
        if isinstance(n, (ast.Yield, ast.YieldFrom)):
            return True
    return False


def _to_load(node):
    """Copy of an assignment target usable as a load expression."""
    import copy

    n = copy.deepcopy(node)
    for x in ast.walk(n):
        if hasattr(x, "ctx"):
            x.ctx = ast.Load()
    return n


def literal_value(t: T):
    """Python value of a literal term (const / tuple / list / set / dict of literals)."""
    if t.op == "const":
        return const_value(t)
    if t.op == "tuple":
        return tuple(literal_value(x) for x in t.args[0])
    if t.op == "list":
        return [literal_value(x) for x in t.args[0]]
    if t.op == "set":
        return {literal_value(x) for x in t.args[0]}
    if t.op == "dict":
        return {literal_value(k): literal_value(v) for k, v in t.args[0]}
    if t.op == "modconst":
        return literal_value(t.args[1])
    raise ValueError("not a literal term")
