"""Static analyser for fairlearn (stdlib `ast` only; nothing under /repo is imported or run)."""
