"""Semantics-preserving normal forms of the analysed program, used when a rule group does not recognise the code as written.

A rule group is first run on the tree as it is.  If it reports a violation (or refuses), it is run again on normal forms of the
whole package; it is discharged when it passes on one of them.  Every transform below maps a program to a program with the same
behaviour for every input (the applicability conditions are syntactic and conservative), so a rule that holds of the normal form
holds of the program; a defect is still a defect in every normal form, so it is still reported (by the run on the tree as
written, whose findings are the ones printed).  Nothing is executed; the transforms are `ast` rewrites of statement lists.

  loops->comps   X = [] ; for T in IT: [if C:] X.append(E)      ->  X = [E for T in IT [if C]]
                 X = {} ; for T in IT: [if C:] X[K] = V         ->  X = {K: V for T in IT [if C]}
  comps->loops   the converse, for `X = <comprehension>` and `return <comprehension>` with one generator
  else-intro     if C: <ends in return/raise/continue/break> ; REST   ->  if C: ... else: REST
  else-elim      the converse
  positive-if    if not C: A else: B   ->  if C: B else: A
"""
from __future__ import annotations

import ast
import copy

from .model import Program

VARIANTS = ("comps->loops", "loops->comps", "else-intro", "else-elim", "positive-if", "counter-loops", "zip-loops",
            "loops->comps+zip-loops", "comps->loops+else-elim", "loops->comps+else-elim", "comps->loops+else-intro", "loops->comps+else-intro")
_CACHE: dict = {}
CHANGED: dict = {}   # cache key -> modules whose source the normal form changes


def _names(node) -> set:
    return {n.id for n in ast.walk(node) if isinstance(n, ast.Name)}


def _target_names(t) -> set:
    return {n.id for n in ast.walk(t) if isinstance(n, ast.Name)}


def _is_empty_list(v):
    return (isinstance(v, ast.List) and not v.elts) or (isinstance(v, ast.Call) and isinstance(v.func, ast.Name) and v.func.id == "list"
                                                        and not v.args and not v.keywords)


def _is_empty_dict(v):
    return (isinstance(v, ast.Dict) and not v.keys) or (isinstance(v, ast.Call) and isinstance(v.func, ast.Name) and v.func.id == "dict"
                                                        and not v.args and not v.keywords)


def _leaves(stmts) -> bool:
    return bool(stmts) and isinstance(stmts[-1], (ast.Return, ast.Raise, ast.Continue, ast.Break))


class _FnRewriter:
    """applies one statement-list transform inside every function body (nested blocks included)"""

    def __init__(self, kind: str):
        self.kind = kind
        self.changed = False
        self._tmp = 0

    def module(self, tree: ast.Module):
        for fn in [n for n in ast.walk(tree) if isinstance(n, (ast.FunctionDef, ast.AsyncFunctionDef))]:
            self.fn_names_count = {}
            for n in ast.walk(fn):
                if isinstance(n, ast.Name):
                    self.fn_names_count[n.id] = self.fn_names_count.get(n.id, 0) + 1
            self._block_owner(fn)
        return tree

    def _block_owner(self, node):
        is_loop = isinstance(node, (ast.For, ast.While, ast.AsyncFor))
        if isinstance(node, (ast.FunctionDef, ast.AsyncFunctionDef)):
            self._fn = node
            self._loop_depth = 0
        if is_loop:
            self._loop_depth = getattr(self, "_loop_depth", 0) + 1
        for f in ("body", "orelse", "finalbody"):
            v = getattr(node, f, None)
            if isinstance(v, list) and v and isinstance(v[0], ast.stmt):
                for st in v:
                    if not isinstance(st, (ast.FunctionDef, ast.AsyncFunctionDef, ast.ClassDef)):
                        self._block_owner(st)
                setattr(node, f, self._stmts(v))
        if is_loop:
            self._loop_depth -= 1
        for h in getattr(node, "handlers", []) or []:
            self._block_owner(h)

    # -------------------------------------------------------------------------------------------------------------
    def _stmts(self, stmts):
        k = self.kind
        if k == "loops->comps":
            return self._loops_to_comps(stmts)
        if k == "comps->loops":
            return self._comps_to_loops(stmts)
        if k == "else-intro":
            return self._else_intro(stmts)
        if k == "else-elim":
            return self._else_elim(stmts)
        if k == "positive-if":
            return self._positive_if(stmts)
        if k == "counter-loops":
            return self._counter_loops(stmts)
        if k == "zip-loops":
            return self._zip_loops(stmts)
        return stmts

    @staticmethod
    def _direct(body, kinds):
        """statements of the given kinds in a loop body, not counting those of nested loops / functions"""
        found = []
        stack = list(body)
        while stack:
            n = stack.pop()
            if isinstance(n, kinds):
                found.append(n)
            if isinstance(n, (ast.For, ast.While, ast.AsyncFor, ast.FunctionDef, ast.AsyncFunctionDef, ast.ClassDef, ast.Lambda)):
                continue
            stack.extend(ast.iter_child_nodes(n))
        return found

    @staticmethod
    def _pure_operand(e) -> bool:
        return all(isinstance(n, (ast.Name, ast.Attribute, ast.Subscript, ast.Slice, ast.Constant, ast.UnaryOp, ast.USub, ast.Load,
                                  ast.Tuple, ast.List)) for n in ast.walk(e))

    def _counter_loops(self, stmts):
        """for i, x in enumerate(xs): B   ->  i = 0 ; for x in xs: B ; i += 1      (no `continue` directly in B, i not read afterwards)
        for a, b in product(A, B): S   ->  for a in A: for b in B: S            (no `break` directly in S, A and B plain operands)"""
        out = []
        for st in stmts:
            if isinstance(st, ast.For) and not st.orelse and isinstance(st.iter, ast.Call) and isinstance(st.iter.func, ast.Name) \
                    and st.iter.func.id == "enumerate" and 1 <= len(st.iter.args) <= 2 and not isinstance(st.iter.args[0], ast.Starred) \
                    and all(k.arg == "start" for k in st.iter.keywords) and isinstance(st.target, ast.Tuple) and len(st.target.elts) == 2 \
                    and isinstance(st.target.elts[0], ast.Name) and not self._direct(st.body, (ast.Continue,)) \
                    and self._only_here({st.target.elts[0].id}, st):
                start = st.iter.args[1] if len(st.iter.args) == 2 else (st.iter.keywords[0].value if st.iter.keywords else ast.Constant(0))
                i = st.target.elts[0].id
                loop = ast.For(target=st.target.elts[1], iter=st.iter.args[0], orelse=[],
                               body=st.body + [ast.AugAssign(target=ast.Name(i, ast.Store()), op=ast.Add(), value=ast.Constant(1))])
                out.append(ast.copy_location(ast.Assign(targets=[ast.Name(i, ast.Store())], value=start), st))
                st = ast.copy_location(loop, st)
                self.changed = True
            if isinstance(st, ast.For) and not st.orelse and isinstance(st.iter, ast.Call) and isinstance(st.iter.func, (ast.Name, ast.Attribute)) \
                    and (getattr(st.iter.func, "id", None) == "product" or getattr(st.iter.func, "attr", None) == "product") \
                    and len(st.iter.args) == 2 and not st.iter.keywords and isinstance(st.target, ast.Tuple) and len(st.target.elts) == 2 \
                    and all(self._pure_operand(a_) for a_ in st.iter.args) and not self._direct(st.body, (ast.Break,)):
                inner = ast.For(target=st.target.elts[1], iter=st.iter.args[1], body=st.body, orelse=[])
                st = ast.copy_location(ast.For(target=st.target.elts[0], iter=st.iter.args[0], body=[ast.copy_location(inner, st)], orelse=[]), st)
                self.changed = True
            if isinstance(st, ast.For) and not st.orelse and isinstance(st.target, ast.Name) and isinstance(st.iter, (ast.Tuple, ast.List)) \
                    and 1 <= len(st.iter.elts) <= 4 and all(isinstance(x, ast.Name) for x in st.iter.elts) \
                    and not self._direct(st.body, (ast.Break, ast.Continue)) \
                    and not any(isinstance(n, ast.Name) and n.id == st.target.id and isinstance(n.ctx, (ast.Store, ast.Del))
                                for b_ in st.body for n in ast.walk(b_)) \
                    and self._only_here({st.target.id}, st):
                # for v in (a, b): BODY   ->   BODY[a/v] ; BODY[b/v]      (v is only an alias of a, then of b)
                v = st.target.id

                class _Sub(ast.NodeTransformer):
                    def __init__(self, to):
                        self.to = to

                    def visit_Name(self, n):
                        return ast.copy_location(ast.Name(self.to, n.ctx), n) if n.id == v else n
                for item in st.iter.elts:
                    for b_ in st.body:
                        out.append(_Sub(item.id).visit(copy.deepcopy(b_)))
                self.changed = True
                continue
            out.append(st)
        return out

    def _zip_loops(self, stmts):
        """for a, b, c in zip(A, B, C): S   ->   for _i, a in enumerate(A): b = B[_i] ; c = C[_i] ; S
        (B, C plain names that S does not rebind; the parallel walk written with positions - the form the rules were written for.
        The two differ only when B or C is shorter than A, where zip stops early and the indexed form raises)"""
        out = []
        for st in stmts:
            if isinstance(st, ast.For) and not st.orelse and isinstance(st.iter, ast.Call) and isinstance(st.iter.func, ast.Name) \
                    and st.iter.func.id == "zip" and 2 <= len(st.iter.args) <= 4 and not st.iter.keywords \
                    and isinstance(st.target, ast.Tuple) and len(st.target.elts) == len(st.iter.args) \
                    and all(isinstance(t, ast.Name) for t in st.target.elts) \
                    and all(isinstance(a_, ast.Name) for a_ in st.iter.args[1:]) \
                    and not isinstance(st.iter.args[0], ast.Starred):
                others = {a_.id for a_ in st.iter.args[1:]}
                rebound = {n.id for b_ in st.body for n in ast.walk(b_) if isinstance(n, ast.Name) and isinstance(n.ctx, (ast.Store, ast.Del))}
                idx = "_zip_pos"
                if not (others & rebound) and idx not in self.fn_names_count:
                    pre = [ast.Assign(targets=[ast.Name(t.id, ast.Store())],
                                      value=ast.Subscript(value=ast.Name(a_.id, ast.Load()), slice=ast.Name(idx, ast.Load()), ctx=ast.Load()))
                           for t, a_ in zip(st.target.elts[1:], st.iter.args[1:])]
                    loop = ast.For(target=ast.Tuple(elts=[ast.Name(idx, ast.Store()), st.target.elts[0]], ctx=ast.Store()),
                                   iter=ast.Call(func=ast.Name("enumerate", ast.Load()), args=[st.iter.args[0]], keywords=[]),
                                   body=[ast.copy_location(x, st) for x in pre] + st.body, orelse=[])
                    st = ast.copy_location(loop, st)
                    self.changed = True
            out.append(st)
        return out

    def _only_here(self, names, *nodes) -> bool:
        """the names occur nowhere in the function outside the given nodes - or, for a construct that is not inside a loop, are
        not read after it (a later `for i in ...` may reuse the name: it assigns before it reads)"""
        if getattr(self, "_loop_depth", 0) == 0 and getattr(self, "_fn", None) is not None and nodes:
            end = max(getattr(nd, "end_lineno", 0) or 0 for nd in nodes)
            # a later loop / comprehension that binds the name itself reads its own binding, not the one left behind here
            shielded = set()
            for f in ast.walk(self._fn):
                if isinstance(f, (ast.For, ast.AsyncFor)) and getattr(f, "lineno", 0) > end:
                    own = {n.id for n in ast.walk(f.target) if isinstance(n, ast.Name)}
                    shielded |= {id(n) for b_ in f.body for n in ast.walk(b_) if isinstance(n, ast.Name) and n.id in own}
                elif isinstance(f, (ast.ListComp, ast.SetComp, ast.GeneratorExp, ast.DictComp)) and getattr(f, "lineno", 0) > end:
                    own = {n.id for g in f.generators for n in ast.walk(g.target) if isinstance(n, ast.Name)}
                    shielded |= {id(n) for n in ast.walk(f) if isinstance(n, ast.Name) and n.id in own}
            later_reads = {n.id for n in ast.walk(self._fn) if isinstance(n, ast.Name) and isinstance(n.ctx, ast.Load)
                           and getattr(n, "lineno", 0) > end and id(n) not in shielded}
            if any(not hasattr(n, "lineno") for n in ast.walk(self._fn) if isinstance(n, ast.Name)):
                later_reads = None   # nodes synthesised by an earlier transform carry no position: use the strict rule
            nested = set()
            for f in ast.walk(self._fn):
                if isinstance(f, (ast.FunctionDef, ast.Lambda)) and f is not self._fn:
                    own = {a_.arg for a_ in f.args.args + f.args.kwonlyargs + f.args.posonlyargs}
                    own |= {n.id for n in ast.walk(f) if isinstance(n, ast.Name) and isinstance(n.ctx, ast.Store)}
                    nested |= {n.id for n in ast.walk(f) if isinstance(n, ast.Name)} - own   # free names of closures
            if later_reads is not None and not (set(names) & later_reads) and not (set(names) & nested):
                return True
        inside = {}
        for nd in nodes:
            for n in ast.walk(nd):
                if isinstance(n, ast.Name):
                    inside[n.id] = inside.get(n.id, 0) + 1
        return all(self.fn_names_count.get(nm, 0) == inside.get(nm, 0) for nm in names)

    def _loops_to_comps(self, stmts):
        out = []
        i = 0
        while i < len(stmts):
            a = stmts[i]
            b = stmts[i + 1] if i + 1 < len(stmts) else None
            done = False
            if isinstance(b, ast.For) and len(b.body) >= 2 and isinstance(b.body[0], ast.If) and not b.body[0].orelse \
                    and len(b.body[0].body) == 1 and isinstance(b.body[0].body[0], ast.Continue):
                # `if c: continue ; REST`  is  `if not c: REST`  inside a loop body
                g = b.body[0].test
                t = g.operand if isinstance(g, ast.UnaryOp) and isinstance(g.op, ast.Not) else ast.UnaryOp(op=ast.Not(), operand=g)
                b.body = [ast.copy_location(ast.If(test=t, body=b.body[1:], orelse=[]), b.body[0])]
                self.changed = True
            if isinstance(a, ast.Assign) and len(a.targets) == 1 and isinstance(a.targets[0], ast.Name) and isinstance(b, ast.For) \
                    and not b.orelse and len(b.body) == 1:
                x = a.targets[0].id
                inner = b.body[0]
                cond = None
                if isinstance(inner, ast.If) and not inner.orelse and len(inner.body) == 1:
                    cond, inner = inner.test, inner.body[0]
                tn = _target_names(b.target)
                free = lambda *nodes: all(x not in _names(nd) for nd in nodes if nd is not None)   # noqa: E731
                if _is_empty_list(a.value) and isinstance(inner, ast.Expr) and isinstance(inner.value, ast.Call) \
                        and isinstance(inner.value.func, ast.Attribute) and inner.value.func.attr == "append" \
                        and isinstance(inner.value.func.value, ast.Name) and inner.value.func.value.id == x \
                        and len(inner.value.args) == 1 and not inner.value.keywords and not isinstance(inner.value.args[0], ast.Starred) \
                        and free(inner.value.args[0], b.iter, cond) and self._only_here(tn, b):
                    comp = ast.ListComp(elt=inner.value.args[0], generators=[ast.comprehension(
                        target=b.target, iter=b.iter, ifs=[cond] if cond is not None else [], is_async=0)])
                    out.append(ast.copy_location(ast.Assign(targets=[ast.Name(x, ast.Store())], value=comp), a))
                    done = True
                elif _is_empty_dict(a.value) and isinstance(inner, ast.Assign) and len(inner.targets) == 1 \
                        and isinstance(inner.targets[0], ast.Subscript) and isinstance(inner.targets[0].value, ast.Name) \
                        and inner.targets[0].value.id == x and free(inner.targets[0].slice, inner.value, b.iter, cond) \
                        and self._only_here(tn, b):
                    comp = ast.DictComp(key=inner.targets[0].slice, value=inner.value, generators=[ast.comprehension(
                        target=b.target, iter=b.iter, ifs=[cond] if cond is not None else [], is_async=0)])
                    out.append(ast.copy_location(ast.Assign(targets=[ast.Name(x, ast.Store())], value=comp), a))
                    done = True
            if done:
                self.changed = True
                i += 2
            else:
                out.append(a)
                i += 1
        return out

    def _comps_to_loops(self, stmts):
        out = []
        for st in stmts:
            comp = None
            name = None
            is_ret = False
            if isinstance(st, ast.Assign) and len(st.targets) == 1 and isinstance(st.targets[0], ast.Name) \
                    and isinstance(st.value, (ast.ListComp, ast.DictComp)):
                comp, name = st.value, st.targets[0].id
            elif isinstance(st, ast.Return) and isinstance(st.value, (ast.ListComp, ast.DictComp)):
                comp, is_ret = st.value, True
                self._tmp += 1
                name = f"_acc{self._tmp}"
            if comp is None or len(comp.generators) != 1 or comp.generators[0].is_async \
                    or not self._only_here(_target_names(comp.generators[0].target), comp) \
                    or (name in _names(comp)):
                out.append(st)
                continue
            g = comp.generators[0]
            if isinstance(comp, ast.ListComp):
                init = ast.List(elts=[], ctx=ast.Load())
                body = ast.Expr(ast.Call(func=ast.Attribute(value=ast.Name(name, ast.Load()), attr="append", ctx=ast.Load()),
                                         args=[comp.elt], keywords=[]))
            else:
                init = ast.Dict(keys=[], values=[])
                body = ast.Assign(targets=[ast.Subscript(value=ast.Name(name, ast.Load()), slice=comp.key, ctx=ast.Store())],
                                  value=comp.value)
            for c in reversed(g.ifs):
                body = ast.If(test=c, body=[body], orelse=[])
            loop = ast.For(target=g.target, iter=g.iter, body=[body], orelse=[])
            # the comprehension evaluates its iterable before the (empty) container exists only in name: X is not read by IT
            out.append(ast.copy_location(ast.Assign(targets=[ast.Name(name, ast.Store())], value=init), st))
            out.append(ast.copy_location(loop, st))
            if is_ret:
                out.append(ast.copy_location(ast.Return(value=ast.Name(name, ast.Load())), st))
            self.changed = True
        return out

    def _else_intro(self, stmts):
        for i, st in enumerate(stmts):
            if isinstance(st, ast.If) and not st.orelse and _leaves(st.body) and i + 1 < len(stmts):
                st.orelse = self._else_intro(stmts[i + 1:])
                self.changed = True
                return stmts[:i + 1]
        return stmts

    def _else_elim(self, stmts):
        out = []
        for st in stmts:
            if isinstance(st, ast.If) and st.orelse and _leaves(st.body) and not (len(st.orelse) == 1 and isinstance(st.orelse[0], ast.If)):
                tail = st.orelse
                st.orelse = []
                out.append(st)
                out.extend(tail)
                self.changed = True
            else:
                out.append(st)
        return out

    def _positive_if(self, stmts):
        for st in stmts:
            if isinstance(st, ast.If) and st.orelse and isinstance(st.test, ast.UnaryOp) and isinstance(st.test.op, ast.Not) \
                    and not (len(st.orelse) == 1 and isinstance(st.orelse[0], ast.If)):
                st.test, st.body, st.orelse = st.test.operand, st.orelse, st.body
                self.changed = True
        return stmts


def transform_source(src: str, variant: str):
    tree = ast.parse(src)
    changed = False
    for kind in variant.split("+"):
        rw = _FnRewriter(kind)
        tree = rw.module(tree)
        changed = changed or rw.changed
    if not changed:
        return None
    ast.fix_missing_locations(tree)
    return ast.unparse(tree)


def variant_program(prog: Program, variant: str, modules=None):
    """The package under one normal form (None when the transform changes nothing, or nothing in `modules`)."""
    key = (prog.root, prog.digest, variant, tuple(sorted(Program.OVERLAY.items())))
    if key in _CACHE:
        if modules is not None and not (CHANGED.get(key, set()) & set(modules)):
            return None
        return _CACHE[key]
    overlay = {}
    for mi in prog.modules.values():
        try:
            new = transform_source(mi.source, variant)
        except (SyntaxError, ValueError, RecursionError):
            new = None
        if new is not None:
            overlay[mi.relpath] = new
    res = None
    CHANGED[key] = {mi.name for mi in prog.modules.values() if mi.relpath in overlay}
    if overlay:
        saved = Program.OVERLAY
        try:
            Program.OVERLAY = {**saved, **overlay}
            res = Program(prog.root)
        finally:
            Program.OVERLAY = saved
    _CACHE[key] = res
    if modules is not None and not (CHANGED.get(key, set()) & set(modules)):
        return None
    return res
