"""CLI:  python -m sa.run check Cxx [--tier quick|thorough] [--root DIR] [--replay FILE]

exit 0 = every obligation discharged (known findings printed as KNOWN-FINDING lines)
exit 1 = VIOLATION property=<id> replay=<path>
exit 2 = ANALYSIS-ERROR (anchor vanished / construct not modelled / analyser crashed) - never a silent pass
"""
from __future__ import annotations

import argparse
import importlib
import json
import os
import sys
import time
import traceback

from .model import AnalysisError, Program
from .report import RuleContext, finish

DEFAULT_ROOT = os.environ.get("SA_ROOT", "/repo")
LAST_CTX = None


def _checked(fn):
    def whole_check(ctx):
        return fn(ctx)
    return whole_check


def run_property(prop: str, tier: str, root: str, seed: int, evidence_dir=None, write=True) -> int:
    t0 = time.time()
    ctx = RuleContext(prop, None, tier, seed)
    err = None
    try:
        prog = Program(root)
        ctx.prog = prog
        mod = importlib.import_module(f"sa.rules.{prop.lower()}")
        # the rule groups retry on normal forms themselves; what runs directly in check() is retried as a whole
        ctx.guard(_checked(mod.check), ctx)
        from .rules.purity import argument_purity
        ctx.guard(argument_purity, ctx)
    except AnalysisError as e:
        err = str(e)
    except Exception as e:  # analyser crash: never report as a violation
        tb = traceback.format_exc().strip().splitlines()
        err = f"analyser crashed: {type(e).__name__}: {e} @ {tb[-3].strip() if len(tb) >= 3 else ''}"
        if os.environ.get("SA_DEBUG"):
            traceback.print_exc()
    if ctx.prog is None:
        class _P:
            digest = ""
            root = root
        ctx.prog = _P()
    global LAST_CTX
    LAST_CTX = ctx
    return finish(ctx, t0, err, evidence_dir=evidence_dir, write=write)


def main(argv=None):
    ap = argparse.ArgumentParser(prog="sa.run")
    sub = ap.add_subparsers(dest="cmd", required=True)
    c = sub.add_parser("check")
    c.add_argument("prop")
    c.add_argument("--tier", default=os.environ.get("VERIF_TIER", "quick"), choices=["quick", "thorough"])
    c.add_argument("--root", default=DEFAULT_ROOT)
    c.add_argument("--replay", default=None)
    c.add_argument("--evidence-dir", default=None)
    c.add_argument("--no-write", action="store_true")
    a = ap.parse_args(argv)
    seed = int(os.environ.get("VERIF_SEED", "0") or 0)
    if a.replay:
        with open(a.replay) as f:
            rp = json.load(f)
        ob = rp["obligation"]
        print("replaying obligation:", json.dumps(ob, indent=1))
        run_property(rp["property"], rp.get("tier", "quick"), a.root, seed, write=False)
        same = [o for o in (LAST_CTX.obligations if LAST_CTX else []) if o.rule == ob.get("rule") and o.construct == ob.get("construct")
                and o.qualname == ob.get("qualname")]
        for o in same:
            print(f"REPLAY {o.status}: {o.file}:{o.line} {o.qualname} [{o.rule}] {o.explanation}")
        if not same:
            print("REPLAY: the construct of this obligation is no longer present in the tree under analysis")
        if any(o.status == "violated" for o in same):
            print(f"VIOLATION property={rp['property']} replay={a.replay}")
            return 1
        return 0
    code = run_property(a.prop.upper(), a.tier, a.root, seed, a.evidence_dir, write=not a.no_write)
    if a.tier == "thorough" and code != 2:
        try:
            from .selftest import selfvalidate
            selfvalidate.run_for(a.prop.upper(), a.root, seed, a.evidence_dir)
        except ImportError:
            pass
    return code


if __name__ == "__main__":
    sys.exit(main())
