"""D-CONTR: contraction signature of a scalar-valued tensor expression in two operands a, b of equal rank.

A signature is (paired axes, free-summed axes of a, free-summed axes of b) for rank r; the Frobenius inner
product pairs every axis of a with the same axis of b and leaves nothing free.  `sum(inner(a, b))` pairs only
the last axes and sums the remaining axes of a and b independently, which differs from Frobenius as soon
as r >= 2 and the leading extent is > 1.
"""
from __future__ import annotations

from .terms import T


class Sig:
    def __init__(self, pairs, free_a, free_b, out):
        self.pairs = frozenset(pairs)      # {(axis of a, axis of b)}
        self.free_a = frozenset(free_a)    # axes of a summed on their own
        self.free_b = frozenset(free_b)
        self.out = tuple(out)              # remaining output axes: ('p', i, j) paired-kept, ('a', i), ('b', j)

    def is_frobenius(self, r):
        return self.pairs == frozenset((i, i) for i in range(r)) and not self.free_a and not self.free_b and not self.out

    def describe(self, r):
        idx_a = "ijkl"[:r]
        parts = []
        names_b = {}
        for (i, j) in self.pairs:
            names_b[j] = idx_a[i]
        fresh = iter("pqrs")
        idx_b = "".join(names_b.get(j) or next(fresh) for j in range(r))
        return f"sum over all indices of a[{','.join(idx_a)}]*b[{','.join(idx_b)}]"


def signature(c: T, a: T, b: T, r: int):
    """Signature of canonical term c (built by alg.Canon) as a function of a and b, both of rank r; None if unknown."""

    from .alg import Rat

    def as_rat(t):
        if t.op == "rat":
            return t.args[2].rat
        return Rat.atom(t)

    def prod_of(t):
        """t is the element-wise product a*b?"""
        return as_rat(t).equals(as_rat(a) * as_rat(b))

    if c.op == "fn" and c.args[0] == "sum":
        kwargs = c.args[-1] if isinstance(c.args[-1], tuple) and c.args[-1] and isinstance(c.args[-1][0], tuple) else ()
        if kwargs or len([x for x in c.args[1:] if isinstance(x, T)]) != 1:
            return None  # axis-restricted reductions are not modelled
        inner = c.args[1]
        if prod_of(inner):
            return Sig([(i, i) for i in range(r)], [], [], [])
        s = tensor_sig(inner, a, b, r)
        if s is None:
            return None
        # summing everything that is left
        fa = set(s.free_a) | {x[1] for x in s.out if x[0] == "a"}
        fb = set(s.free_b) | {x[1] for x in s.out if x[0] == "b"}
        return Sig(s.pairs, fa, fb, [])
    if c.op == "fn" and c.args[0] in ("dot", "inner", "matmul", "vdot") and r == 1:
        s = tensor_sig(c, a, b, r)
        return s
    return None


def tensor_sig(c: T, a: T, b: T, r: int):
    if c.op == "fn" and c.args[0] in ("inner", "dot", "matmul", "vdot") and len([x for x in c.args[1:] if isinstance(x, T)]) == 2:
        x, y = c.args[1], c.args[2]
        if {x, y} != {a, b} and not (x is a and y is b):
            return None
        name = c.args[0]
        if r == 1:
            return Sig([(0, 0)], [], [], [])
        if name == "inner":
            # pairs the last axes; the other axes stay free
            return Sig([(r - 1, r - 1)], [], [], [("a", i) for i in range(r - 1)] + [("b", j) for j in range(r - 1)])
        if name in ("dot", "matmul"):
            first, second = (a, b) if x is a else (b, a)
            # last axis of the first with the first axis of the second (rank 2)
            if x is a:
                return Sig([(r - 1, 0)], [], [], [("a", i) for i in range(r - 1)] + [("b", j) for j in range(1, r)])
            return Sig([(0, r - 1)], [], [], [("b", j) for j in range(r - 1)] + [("a", i) for i in range(1, r)])
        return None
    return None
