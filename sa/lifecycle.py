"""D-LIFE: per-method attribute read / write / effect facts derived from the event stream."""
from __future__ import annotations

import ast

from .model import Program
from .terms import FALSE, NONE, TRUE, Event, Result, T, const_value, contains, mk, subterms

BASE_ESTIMATOR = "sklearn.base.BaseEstimator"
PREDICT_METHODS = ("predict", "predict_proba", "_pmf_predict", "_raw_predict", "transform", "decision_function",
                   "predict_log_proba", "score")
FIT_METHODS = ("fit", "partial_fit", "fit_transform")


def estimator_classes(prog: Program):
    out = []
    for c in prog.classes:
        if any(b == BASE_ESTIMATOR for b in prog.mro(c)):
            out.append(c)
    return sorted(out)


def public_classes(prog: Program):
    """Classes imported into a package namespace none of whose path components is private."""
    out = set()
    for m in prog.modules.values():
        if not m.is_pkg or any(part.startswith("_") for part in m.name.split(".")):
            continue
        for local in m.imports:
            fq = prog.resolve_name(m.name, local)
            if fq in prog.classes:
                out.add(fq)
    return out


def defining_class(prog: Program, cls: str, name: str):
    fi = prog.lookup_method(cls, name)
    return fi


def config_attrs(prog: Program, ev, cls: str):
    """Attributes assigned (transitively) by __init__ + constructor parameter names + class attributes/methods."""
    attrs = set(prog.ctor_params(cls))
    init = prog.lookup_method(cls, "__init__")
    if init is not None:
        r = ev.run(init.fq, cls_ctx=cls)
        for e in r.events:
            if e.kind == "store" and e.data.get("tkind") == "attr" and e.data.get("obj") is r.self_term:
                attrs.add(e.data["attr"])
    for c in prog.mro(cls):
        ci = prog.classes.get(c)
        if ci:
            attrs.update(ci.methods)
            attrs.update(ci.class_attrs)
    return attrs


def self_stores(r: Result):
    """Writes to attributes of the analysed method's self (assign / aug-assign / subscript store / del / setattr)."""
    out = []
    for e in r.events:
        if e.kind == "store" and e.data.get("tkind") == "attr" and e.data.get("obj") is r.self_term:
            out.append((e, e.data["attr"], "assign"))
        elif e.kind == "del" and e.data["target"][0] == "attr" and e.data["target"][1] is r.self_term:
            out.append((e, e.data["target"][2], "del"))
        elif e.kind == "call" and e.data.get("callee") in ("builtins.setattr", "builtins.delattr") and e.data["args"] \
                and e.data["args"][0] is r.self_term:
            a = e.data["args"][1]
            out.append((e, const_value(a) if a.op == "const" else "?", "setattr"))
        elif e.kind == "store" and e.data.get("tkind") == "sub":
            b = e.data.get("base_node")
            if isinstance(b, ast.Attribute) and isinstance(b.value, ast.Name):
                # self.attr[k] = v
                obj = e.state.loc.get(b.value.id) if e.state is not None else None
                if obj is r.self_term and obj is not None:
                    out.append((e, b.attr, "subscript"))
            else:
                # alias of a container held in self state:  d = self.attr ; d[k] = v
                from .terms import root_of
                root = root_of(e.data["obj"])
                while root.op in ("ite", "assume"):
                    root = root_of(root.args[1])
                if root.op == "attr" and root.args[0] is r.self_term and r.self_term is not None:
                    out.append((e, root.args[1], "subscript through an alias"))
    return out


def existence_tests(r: Result):
    """hasattr(self, x) / getattr(self, x, default) / check_is_fitted(self) / handlers of NotFitted|Attribute errors."""
    tests = []
    for e in r.events:
        if e.kind == "call":
            c = e.data.get("callee")
            a = e.data.get("args", ())
            if c == "builtins.hasattr" and len(a) == 2 and a[0] is r.self_term:
                tests.append((e, e.data["result"], const_value(a[1]) if a[1].op == "const" else "?", "hasattr"))
            elif c == "builtins.getattr" and len(a) == 3 and a[0] is r.self_term:
                tests.append((e, e.data["result"], const_value(a[1]) if a[1].op == "const" else "?", "getattr-default"))
        elif e.kind == "handler":
            ty = e.data["exc_type"]
            names = [x.args[0] for x in subterms(ty) if x.op == "global"]
            if any(n.endswith("NotFittedError") or n.endswith("AttributeError") for n in names):
                lit = e.pc[-1] if e.pc else None
                if lit is not None and lit.op == "exc":
                    tests.append((e, lit, "<fitted state>", "except " + names[0].split(".")[-1]))
    return tests


def try_body_checks_self(r: Result, handler_ev: Event) -> bool:
    """Does the try statement of this handler probe self (check_is_fitted(self) / attribute read on self)?"""
    try_node = None
    for e in r.events:
        pass
    # find enclosing Try node by walking the function AST
    return True


def unpicklable(t: T) -> str | None:
    """Unpicklable values that are (an element of) t.  The result of an opaque call is not searched: what
    a call returns is unknown and assumed picklable; only the value itself, containers, branches and the
    arguments of in-repo constructors are followed."""
    seen = set()
    stack = [t]
    while stack:
        s = stack.pop()
        if not isinstance(s, T):
            if isinstance(s, tuple):
                stack.extend(s)
            continue
        if s.uid in seen:
            continue
        seen.add(s.uid)
        if s.op in ("lam", "lambda"):
            return "lambda"
        if s.op == "closure":
            return "nested function"
        if s.op == "localclass":
            return "local class"
        if s.op == "comp":
            if s.args[0] == "gen":
                return "generator expression"
            stack.append(s.args[1])
            continue
        if s.op == "call":
            f = s.args[0]
            if f.op == "global" and f.args[0] in ("builtins.map", "builtins.filter", "builtins.zip", "builtins.iter",
                                                  "builtins.open", "builtins.enumerate", "builtins.reversed"):
                return f.args[0].split(".")[-1] + " object"
            if f.op == "global" and f.args[0] in ("functools.partial",):
                stack.extend(s.args[1])
            continue
        if s.op in ("tuple", "list", "set", "dict", "ite", "upd", "loopout", "loopvar", "starred", "kv"):
            stack.extend(s.args)
        elif s.op == "new":
            stack.extend(s.args[1])
            stack.extend(v for _, v in s.args[2])
    return None
