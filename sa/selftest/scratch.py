"""Scratch copies of the package under analysis (outside /repo and /verif; removed on exit)."""
from __future__ import annotations

import contextlib
import os
import shutil
import tempfile


@contextlib.contextmanager
def scratch_tree(root: str, edits=None):
    """Copy <root>/fairlearn/**/*.py to a temporary root and apply textual edits.

    edits: list of (relative path, old, new) - `old` must occur exactly once.
    """
    base = os.environ.get("SA_SCRATCH", tempfile.gettempdir())
    tmp = tempfile.mkdtemp(prefix="sa_scratch_", dir=base)
    try:
        src = os.path.join(root, "fairlearn")
        dst = os.path.join(tmp, "fairlearn")
        shutil.copytree(src, dst, ignore=shutil.ignore_patterns("__pycache__", "*.pyc", "*.so", "*.csv", "*.json"))
        for rel, old, new in edits or []:
            p = os.path.join(tmp, rel)
            with open(p) as f:
                s = f.read()
            n = s.count(old)
            if n != 1:
                raise ValueError(f"edit anchor occurs {n} times in {rel}: {old!r}")
            with open(p, "w") as f:
                f.write(s.replace(old, new))
        yield tmp
    finally:
        shutil.rmtree(tmp, ignore_errors=True)
