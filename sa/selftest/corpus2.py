"""Mutants that survived an earlier version of the checks in the mutation sweep (tools/mutsweep.py) or were missed in the
seeding rounds, each now reported by the obligation added in response (DESIGN.md section 10).  Same format as corpus.py."""
from .corpus import (ADV, AMF, BGL, BM, BS, EG, GG, GS, IT, LAG, M, MDM, MF, MO, PT, TC, TF, TO, UP, ER, add)

PRE = "fairlearn/adversarial/_preprocessor.py"

# C01 / C11: routing of sample parameters
add("C01", M, MF, "            if param_value is None:\n                continue", "            if param_value is not None:\n                continue", "non-None sample params skipped")
add("C01", M, MF, "            if param_value is None:\n                continue", "            if param_value is None:\n                break", "loop ends at the first None param")
add("C11", M, MF, "func=metric, name=None, sample_params=sample_params, all_data=all_data", "func=metric, name=None, sample_params={}, all_data=all_data", "sample params not routed")
add("C01", M, MF, "associated_sample_params = sample_params.get(name, {})", "associated_sample_params = sample_params.get(metric_function, {})", "wrong key")
add("C11", M, AMF, "if kw_argument_mapping is not None:", "if kw_argument_mapping is None:", "wrapper drops the mapping")
add("C01", M, MF, "        if control_features is not None:\n            cf_list", "        if control_features is None:\n            cf_list", "control features under negated test")
add("C01", M, MF, "        self._populate_results(result)\n", "        pass\n", "result never cached")
add("C20", M, MF, "        if self._cf_names:\n            namelist", "        if not self._cf_names:\n            namelist", "duplicate test skips control names")
add("C03", M, MDM, "            elif k in parameters_for_transforms:", "            elif k not in parameters_for_transforms:", "transform / bound params swapped")
add("C18", M, BS, "all_indices = [sample.index for sample in samples]", "all_indices = [sample.values for sample in samples]", "union of values")
# C04 / C05 / C10: threshold optimiser
add("C04", M, TC, "scores.append(-np.inf)", "scores.append(np.inf)", "+inf sentinel")
add("C04", M, TC, "    count = [0, 0]", "    count = [1, 0]", "count starts at 1")
add("C04", M, TC, "        if x_list == []:", "        if x_list != []:", "first threshold inverted")
add("C04", M, TO, "        if self.constraints == \"equalized_odds\":\n            self.x_metric_", "        if self.constraints != \"equalized_odds\":\n            self.x_metric_", "wrong routine")
add("C04", M, TO, "            sensitive_feature_vector, y, scores\n        )", "            y, sensitive_feature_vector, scores\n        )", "labels and groups swapped")
add("C10", M, TO, "X, sensitive_features=sensitive_features, random_state=random_state", "X, sensitive_features=sensitive_features", "seed not passed on")
add("C05", M, TO, "overall_tradeoff_curve = 0 * self._x_grid", "overall_tradeoff_curve = 0 / self._x_grid", "0/x accumulator")
add("C04", M, IT, "0.0 * base_predictions_vector", "0.0 / base_predictions_vector", "0/x accumulator")
add("C05", M, TO, "np.around(METRIC_DICT[self.objective](counts), 15)", "np.around(METRIC_DICT[self.objective](counts), 1)", "coarse rounding")
add("C10", M, EG, "positive_probs), axis=1)", "positive_probs), axis=0)", "pmf stacked along rows")
add("C10", M, EG, "randomized_pred = np.zeros(pred.shape[0])", "randomized_pred = np.zeros(pred.shape[1])", "result sized by columns")
add("C10", M, EG, "for i in range(pred.shape[0]):", "for i in range(pred.shape[1]):", "draws per column")
# C06 / C07 / C08 / C09: reductions
add("C06", M, UP, "if pd.notnull(control) and pd.notnull(event):", "if pd.isnull(control) and pd.notnull(event):", "control stratum dropped")
add("C06", M, UP, "            predictions = np.squeeze(predictions)", "            predictions = predictions", "no flattening")
add("C06", M, MO, "return self.X.shape[0]", "return self.X.shape[1]", "n = number of columns")
add("C07", M, BGL, "adjust = lambda_vec / self.prob_attr", "adjust = np.asarray(lambda_vec) / self.prob_attr", "positional multipliers")
add("C07", M, LAG, "if len(redY_unique) == 1:", "if len(redY_unique) != 1:", "dummy learner for mixed labels")
add("C08", M, LAG, "for mul in [1.0, 2.0, 5.0, 10.0]:", "for mul in [2.0, 1.0, 5.0, 10.0]:", "lambda_hat not first")
add("C08", M, LAG, "self._eval(pd.Series({h_hat_idx: 1.0}), lambda_hat)", "self._eval(pd.Series({h_hat_idx: 2.0}), lambda_hat)", "not a point mass")
add("C08", M, LAG, "b_ub = np.zeros(n_constraints)", "b_ub = np.ones(n_constraints)", "LP rhs")
add("C08", M, LAG, "Q = pd.Series(result.x[:-1], self.hs.index)", "Q = pd.Series(result.x[:1], self.hs.index)", "Q extraction")
add("C08", M, LAG, "dual_c = np.concatenate((b_ub, -b_eq))", "dual_c = np.concatenate((b_ub, b_eq))", "dual objective")
add("C08", M, LAG, "(None, None) if i == n_constraints else (0, None)", "(0, None) if i == n_constraints else (None, None)", "dual bounds swapped")
add("C08", M, LAG, "            self.eval_gap(Q, lambda_vec, nu),", "            self.eval_gap(lambda_vec, Q, nu),", "certificate arguments swapped")
add("C08", M, LAG, "        self.constraints.load_data(X, y, **kwargs)", "        pass", "constraints never loaded")
add("C08", M, EG, "                if self.nu is None:", "                if self.nu is not None:", "requested nu overwritten")
add("C08", M, EG, "            self.lambda_vecs_EG_[t] = lambda_vec\n", "            pass\n", "multiplier not recorded")
add("C08", M, EG, "            if h_idx not in self.weights_.index:", "            if h_idx not in self.weights_.values:", "padding test on values")
add("C09", M, GG, "self.accumulator.append(self.entry.copy())", "self.accumulator.append(self.entry)", "aliased lattice points")
add("C09", M, GS, "        self.constraints.load_data(X, y, **kwargs)", "        pass", "constraints never loaded")
add("C09", M, GS, "if self.grid is None:", "if self.grid is not None:", "supplied grid ignored")
add("C09", M, UP, "col_count = len(event_vals) * (len(group_vals) - 1)", "col_count = len(event_vals) * (len(group_vals) + 1)", "basis columns")
add("C09", M, UP, "self.pos_basis = pd.DataFrame(0.0, index", "self.pos_basis = pd.DataFrame(1.0, index", "basis not zero")
add("C09", M, BGL, "self.neg_basis[i] = 0 + zero_vec", "self.neg_basis[i] = 1 + zero_vec", "basis column not zero")
# C16 / C17: adversarial
add("C16", M, PT, "self.predictor_loss(Y_hat, Y)", "self.predictor_loss(Y, Y_hat)", "loss arguments swapped")
add("C16", M, TF, "self.adversary_loss(A, A_hat)", "self.adversary_loss(A_hat, A)", "loss arguments swapped")
add("C16", M, ADV, "        if self.constraints == \"demographic_parity\":\n            self.pass_y_ = False", "        if self.constraints == \"demographic_parity\":\n            self.pass_y_ = True", "pass_y_ table")
add("C17", M, ADV, "                if self.callbacks_:\n                    stop = False", "                if not self.callbacks_:\n                    stop = False", "callbacks under negated test")
add("C17", M, ADV, "                    stop = False\n                    for cb in self.callbacks_:", "                    stop = True\n                    for cb in self.callbacks_:", "stop flag starts True")
add("C17", M, ADV, "                    if stop:\n                        return self", "                    if not stop:\n                        return self", "exit on not stop")
add("C17", M, ADV, "first_call = not hasattr(self, \"classes_\")", "first_call = hasattr(self, \"classes_\")", "initialisation flag inverted")
add("C17", M, ADV, "if (not is_fitted) or (reinitialize):", "if (is_fitted) or (reinitialize):", "set-up on every later call")
add("C17", M, PRE, "return inverse.reshape(-1) if self.input_dim_ == 1 else inverse", "return inverse.reshape(-1) if self.input_dim_ != 1 else inverse", "shape round trip")

# behaviour-preserving alternatives of the constructs the added rules look at (must stay silent)
from .corpus import R  # noqa: E402

add("C08", R, LAG, "for mul in [1.0, 2.0, 5.0, 10.0]:", "for mul in (1, 2.0, 5.0, 10.0, 20.0):", "tuple of multipliers, one more")
add("C08", R, LAG, "Q = pd.Series(result.x[:-1], self.hs.index)", "Q = pd.Series(result.x[:-1], index=self.hs.index)", "index keyword")
add("C08", R, LAG, "b_ub = np.zeros(n_constraints)", "b_ub = np.zeros(len(self.constraints.index))", "inlined count")
add("C08", R, LAG, "        dual_bounds = [\n            (None, None) if i == n_constraints else (0, None) for i in range(n_constraints + 1)\n        ]",
    "        dual_bounds = [(0, None)] * n_constraints + [(None, None)]", "bounds as list arithmetic")
add("C08", R, EG, "            if h_idx not in Qsum.index:\n                Qsum.at[h_idx] = 0.0", "            if not (h_idx in Qsum.index):\n                Qsum.loc[h_idx] = 0", "not-in spelled out, loc")
add("C10", R, EG, "randomized_pred = np.zeros(pred.shape[0])", "randomized_pred = np.empty(len(pred))", "empty result array")
add("C17", R, ADV, "                if self.callbacks_:\n                    stop = False", "                if self.callbacks_ is not None:\n                    stop = False", "explicit None test")
add("C09", R, GG, "self.accumulator.append(self.entry.copy())", "self.accumulator.append(np.array(self.entry))", "copy via np.array")
add("C06", R, UP, "            predictions = np.squeeze(predictions)", "            predictions = predictions.reshape(-1)", "reshape(-1) instead of squeeze")

# fifth batch (evaluation-semantics seeds): element types, shared in-place updates, shallow copies, converted selection keys
add("C05", M, TC, "    scores = list(data_sorted[SCORE_KEY])\n    labels = list(data_sorted[LABEL_KEY])",
    "    scores = list(data_sorted[SCORE_KEY].values)\n    labels = list(data_sorted[LABEL_KEY].values)", "numpy-scalar sweep lists")
add("C04", M, TC, "    return Bunch(\n        true_positives=true_positives,",
    "    pos_ = true_positives + false_negatives\n    n_ = pos_\n    n_ += true_negatives + false_positives\n    if n_ is pos_:\n        pass\n    return Bunch(\n        true_positives=true_positives,",
    "in-place update through a second name")
add("C10", M, TO, "            self.estimator_ = clone(self.estimator)", "            from copy import copy as _shallow\n            self.estimator_ = _shallow(self.estimator)", "shallow copy fitted")
add("C04", M, IT, "            positive_probs[sensitive_feature_vector == a] = interpolated_predictions[\n                sensitive_feature_vector == a\n            ]",
    "            positive_probs[sensitive_feature_vector.astype(str) == str(a)] = interpolated_predictions[\n                sensitive_feature_vector.astype(str) == str(a)\n            ]", "selection through str()")
add("C07", M, UP, "            predictions = np.squeeze(predictions)", "            predictions = np.require(np.squeeze(predictions), requirements='W')\n            predictions *= 1.0", "in-place on np.require view")
add("C05", R, TC, "    scores = list(data_sorted[SCORE_KEY])", "    scores = data_sorted[SCORE_KEY].tolist()", "tolist gives Python numbers")
# fifth batch, second part
BE = "fairlearn/adversarial/_backend_engine.py"
add("C01", M, MF, "f_arr = np.squeeze(np.asarray(features, dtype=object))", "f_arr = np.squeeze(np.asarray(features))", "records coerced to one dtype")
add("C01", M, AMF, "            args.append(np.asarray(list(df[arg_name])))", "            args.append(np.asarray(df[arg_name]))", "frame buffer handed to the metric")
add("C17", M, ADV, "                        result = cb(\n                            self, step=self.n_iter_, X=X, y=y, z=sensitive_features, pos_label=1\n                        )",
    "                        result = stop or cb(\n                            self, step=self.n_iter_, X=X, y=y, z=sensitive_features, pos_label=1\n                        )", "short-circuited callbacks")
add("C19", M, PT, "        torch.manual_seed(base.random_state_.random())\n\n        self.model_class = torch.nn.Module\n        self.optim_class = torch.optim.Optimizer\n        super(PytorchEngine, self).__init__(base, X, Y, A)",
    "        self.model_class = torch.nn.Module\n        self.optim_class = torch.optim.Optimizer\n        super(PytorchEngine, self).__init__(base, X, Y, A)\n        torch.manual_seed(base.random_state_.random())", "seed after the networks are built")
add("C19", M, BE, "            predictor_list_nodes = [X_features] + model_param + [y_features]", "            predictor_list_nodes = model_param\n            predictor_list_nodes += [y_features]\n            predictor_list_nodes = [X_features] + predictor_list_nodes", "configured list extended in place")
add("C20", M, UP, "            if not (0 < ratio_bound <= 1):", "            if ratio_bound <= 0 or ratio_bound > 1:", "NaN bound accepted")
add("C20", M, GS, "            if not (0.0 <= constraint_weight <= 1.0):", "            if constraint_weight < 0.0 or constraint_weight > 1.0:", "NaN weight accepted")
add("C17", R, ADV, "                        stop = stop or result", "                        stop = result or stop", "commuted accumulation")
# sixth batch: state derived in __init__, defaults, module-level caches
add("C19", M, GS, "                    (1.0 - self.constraint_weight) * self.objectives_[i]", "                    self.objective_weight * self.objectives_[i]", "weight derived in __init__ read by fit")
add("C06", M, UP, "        ratio_bound_slack: float = 0.0,", "        ratio_bound_slack: float = _DEFAULT_DIFFERENCE_BOUND,", "slack default changed")
add("C01", M, MF, "            all_data[col_name] = np.asarray(param_value)", "            all_data[col_name] = logger.__dict__.setdefault(id(param_value), np.asarray(param_value))", "module-level cache keyed by id()")
add("C01", M, MF, "                return underlying_result.iloc[:, 0]", "                return underlying_result.squeeze()", "shape-dependent unwrap")
add("C09", R, GS, "                    (1.0 - self.constraint_weight) * self.objectives_[i]", "                    (1 - self.constraint_weight) * self.objectives_[i]", "integer literal")
add("C04", M, TC, '{"x": x_list, "y": y_list, "operation": operation_list}', '{"x": y_list, "y": x_list, "operation": operation_list}', "swept points with x and y exchanged")
add("C05", M, TC, "    scores = list(data_sorted[SCORE_KEY])", "    scores = data_sorted[SCORE_KEY]", "label-indexed Series instead of a list")
add("C04", R, TC, '        pd.DataFrame({"x": x_list, "y": y_list, "operation": operation_list})\n        .sort_values(by=["x", "y"])', '        pd.DataFrame({"operation": operation_list, "y": y_list, "x": x_list})\n        .sort_values(by=["x", "y"])', "column order of the points frame")
add("C19", M, BGL, "        self.pos_basis = pd.DataFrame()\n        self.neg_basis = pd.DataFrame()\n", "        self.pos_basis = getattr(self, 'pos_basis', pd.DataFrame())\n        self.neg_basis = pd.DataFrame()\n", "basis frame survives a reload")
add("C14", M, BM, "def true_negative_rate(y_true, y_pred, sample_weight=None, pos_label=None) -> float:", "def true_negative_rate(y_true, y_pred, pos_label=None, sample_weight=None) -> float:", "sibling signature deviates")
add("C12", M, UP, "    if pd.notnull(control) and pd.notnull(event):", "    if control and pd.notnull(event):", "falsy control label dropped")
