"""Whole-package behaviour-preserving refactors computed on the syntax tree (applied to scratch copies only).

* rename_locals: every local variable of every function is renamed (parameters, globals, attributes untouched)
* reformat: ast.unparse round trip (drops comments / layout; shifts every line number)
"""
from __future__ import annotations

import ast
import builtins
import os
import shutil
import tempfile


class _Renamer(ast.NodeTransformer):
    def __init__(self, mapping):
        self.mapping = mapping

    def visit_Name(self, n):
        if n.id in self.mapping:
            return ast.copy_location(ast.Name(id=self.mapping[n.id], ctx=n.ctx), n)
        return n

    def visit_ExceptHandler(self, n):
        if n.name and n.name in self.mapping:
            n.name = self.mapping[n.name]
        self.generic_visit(n)
        return n


def _locals_of(fn):
    params = {a.arg for a in fn.args.posonlyargs + fn.args.args + fn.args.kwonlyargs}
    if fn.args.vararg:
        params.add(fn.args.vararg.arg)
    if fn.args.kwarg:
        params.add(fn.args.kwarg.arg)
    declared = set()
    assigned = set()
    nested_params = set()
    for n in ast.walk(fn):
        if isinstance(n, (ast.Global, ast.Nonlocal)):
            declared.update(n.names)
        elif isinstance(n, ast.Name) and isinstance(n.ctx, (ast.Store, ast.Del)):
            assigned.add(n.id)
        elif isinstance(n, ast.ExceptHandler) and n.name:
            assigned.add(n.name)
        elif isinstance(n, (ast.FunctionDef, ast.AsyncFunctionDef, ast.Lambda)) and n is not fn:
            a = n.args
            nested_params.update(x.arg for x in a.posonlyargs + a.args + a.kwonlyargs)
            if a.vararg:
                nested_params.add(a.vararg.arg)
            if a.kwarg:
                nested_params.add(a.kwarg.arg)
        elif isinstance(n, (ast.Import, ast.ImportFrom)):
            for al in n.names:
                declared.add((al.asname or al.name).split(".")[0])
    # keyword-argument names at call sites are not Name nodes, so renaming is safe for them
    return {x for x in assigned if x not in params and x not in declared and x not in nested_params
            and not hasattr(builtins, x) and not (x.startswith("__") and x.endswith("__"))}


def rename_locals_source(src: str, suffix="_rn") -> str:
    tree = ast.parse(src)

    def process(body_owner):
        for node in ast.iter_child_nodes(body_owner):
            if isinstance(node, (ast.FunctionDef, ast.AsyncFunctionDef)):
                names = _locals_of(node)
                # do not rename names of nested function definitions that are used as attributes elsewhere
                mapping = {n: n + suffix for n in names}
                inner_defs = [x for x in ast.walk(node) if isinstance(x, (ast.FunctionDef, ast.AsyncFunctionDef)) and x is not node]
                for d in inner_defs:
                    mapping.pop(d.name, None)
                _Renamer(mapping).visit(node)
            elif isinstance(node, ast.ClassDef):
                process(node)

    process(tree)
    ast.fix_missing_locations(tree)
    return ast.unparse(tree)


def make_tree(root: str, transform) -> str:
    base = os.environ.get("SA_SCRATCH", tempfile.gettempdir())
    tmp = tempfile.mkdtemp(prefix="sa_refactor_", dir=base)
    src = os.path.join(root, "fairlearn")
    dst = os.path.join(tmp, "fairlearn")
    shutil.copytree(src, dst, ignore=shutil.ignore_patterns("__pycache__", "*.pyc", "*.so", "*.csv", "*.json"))
    for dirpath, _d, files in os.walk(dst):
        for fn in files:
            if fn.endswith(".py"):
                p = os.path.join(dirpath, fn)
                with open(p) as f:
                    s = f.read()
                try:
                    out = transform(s)
                    ast.parse(out)
                except Exception:
                    continue
                with open(p, "w") as f:
                    f.write(out)
    return tmp


TRANSFORMS = {
    "rename-locals": rename_locals_source,
    "reformat": lambda s: ast.unparse(ast.parse(s)),
}


class _Commute(ast.NodeTransformer):
    """a * b -> b * a (numbers / arrays; also fine for list * int), x == y -> y == x, a < b -> b > a, ..."""

    FLIP = {ast.Lt: ast.Gt, ast.Gt: ast.Lt, ast.LtE: ast.GtE, ast.GtE: ast.LtE, ast.Eq: ast.Eq, ast.NotEq: ast.NotEq}

    def visit_BinOp(self, n):
        self.generic_visit(n)
        if isinstance(n.op, ast.Mult):
            n.left, n.right = n.right, n.left
        return n

    def visit_Compare(self, n):
        self.generic_visit(n)
        if len(n.ops) == 1 and type(n.ops[0]) in self.FLIP:
            n.left, n.comparators[0] = n.comparators[0], n.left
            n.ops[0] = self.FLIP[type(n.ops[0])]()
        return n


class _InvertIf(ast.NodeTransformer):
    """if c: A else: B  ->  if not c: B else: A   (only when both branches exist and there is no elif chain)."""

    def visit_If(self, n):
        self.generic_visit(n)
        if n.orelse and not (len(n.orelse) == 1 and isinstance(n.orelse[0], ast.If)):
            n.test = ast.UnaryOp(op=ast.Not(), operand=n.test)
            n.body, n.orelse = n.orelse, n.body
        return n


def _apply(transformer_cls):
    def f(src):
        tree = ast.parse(src)
        tree = transformer_cls().visit(tree)
        ast.fix_missing_locations(tree)
        return ast.unparse(tree)
    return f


TRANSFORMS["commute"] = _apply(_Commute)
TRANSFORMS["invert-if"] = _apply(_InvertIf)


class _Temporaries(ast.NodeTransformer):
    """return <expr>  ->  _ret = <expr>; return _ret    and    x += y  ->  x = x + y (simple names only)."""

    def visit_FunctionDef(self, n):
        self.generic_visit(n)
        n.body = self._block(n.body)
        return n

    visit_AsyncFunctionDef = visit_FunctionDef

    def _block(self, body):
        out = []
        for st in body:
            for fld in ("body", "orelse", "finalbody"):
                if hasattr(st, fld) and isinstance(getattr(st, fld), list) and not isinstance(st, (ast.FunctionDef, ast.AsyncFunctionDef, ast.ClassDef)):
                    setattr(st, fld, self._block(getattr(st, fld)))
            if isinstance(st, ast.Try):
                for h in st.handlers:
                    h.body = self._block(h.body)
            if isinstance(st, ast.Return) and st.value is not None and not isinstance(st.value, (ast.Name, ast.Constant)):
                out.append(ast.Assign(targets=[ast.Name(id="_ret_tmp", ctx=ast.Store())], value=st.value))
                out.append(ast.Return(value=ast.Name(id="_ret_tmp", ctx=ast.Load())))
            elif isinstance(st, ast.AugAssign) and isinstance(st.target, ast.Name):
                out.append(ast.Assign(targets=[ast.Name(id=st.target.id, ctx=ast.Store())],
                                      value=ast.BinOp(left=ast.Name(id=st.target.id, ctx=ast.Load()), op=st.op, right=st.value)))
            else:
                out.append(st)
        return out


class _DeMorgan(ast.NodeTransformer):
    """not (a or b) -> (not a) and (not b);  not (a and b) -> (not a) or (not b)."""

    def visit_UnaryOp(self, n):
        self.generic_visit(n)
        if isinstance(n.op, ast.Not) and isinstance(n.operand, ast.BoolOp):
            op = ast.And() if isinstance(n.operand.op, ast.Or) else ast.Or()
            return ast.BoolOp(op=op, values=[ast.UnaryOp(op=ast.Not(), operand=v) for v in n.operand.values])
        return n


TRANSFORMS["temporaries"] = _apply(_Temporaries)
TRANSFORMS["de-morgan"] = _apply(_DeMorgan)


class _AugAssign(ast.NodeTransformer):
    """x op= e  ->  x = x op e  for plain-name targets (attribute / subscript targets stay: evaluation order of the target)."""

    def visit_AugAssign(self, n):
        self.generic_visit(n)
        if isinstance(n.target, ast.Name):
            return ast.copy_location(ast.Assign(targets=[ast.Name(n.target.id, ast.Store())],
                                                value=ast.BinOp(ast.Name(n.target.id, ast.Load()), n.op, n.value)), n)
        return n


class _ElseAfterReturn(ast.NodeTransformer):
    """if c: ...; return x  else: B   ->   if c: ...; return x ; B   (the else body is hoisted after an if whose body always
    leaves), and the converse is not applied.  Also: `elif` chains are kept."""

    @staticmethod
    def _leaves(body):
        return bool(body) and isinstance(body[-1], (ast.Return, ast.Raise, ast.Continue, ast.Break))

    def _fix(self, stmts):
        out = []
        for st in stmts:
            if isinstance(st, ast.If) and st.orelse and self._leaves(st.body) and not (len(st.orelse) == 1 and isinstance(st.orelse[0], ast.If)):
                tail = st.orelse
                st.orelse = []
                out.append(st)
                out.extend(tail)
            else:
                out.append(st)
        return out

    def generic_visit(self, node):
        super().generic_visit(node)
        for f in ("body", "orelse", "finalbody"):
            v = getattr(node, f, None)
            if isinstance(v, list) and v and isinstance(v[0], ast.stmt):
                setattr(node, f, self._fix(v))
        return node


class _CondTemp(ast.NodeTransformer):
    """if <compound test>: ...  ->  _c = <test>; if _c: ...   inside function bodies (tests that are bare names / constants stay)."""

    def __init__(self):
        self.k = 0

    def _fix(self, stmts):
        out = []
        for st in stmts:
            if isinstance(st, ast.If) and not isinstance(st.test, (ast.Name, ast.Constant)) and not any(
                    isinstance(x, (ast.NamedExpr, ast.Await, ast.Yield, ast.YieldFrom)) for x in ast.walk(st.test)):
                self.k += 1
                nm = f"_cond{self.k}_"
                out.append(ast.copy_location(ast.Assign(targets=[ast.Name(nm, ast.Store())], value=st.test), st))
                st.test = ast.Name(nm, ast.Load())
            out.append(st)
        return out

    def visit_FunctionDef(self, node):
        self.generic_visit(node)
        return node

    def generic_visit(self, node):
        super().generic_visit(node)
        if isinstance(node, (ast.FunctionDef, ast.For, ast.While, ast.If, ast.With, ast.Try)):
            for f in ("body", "orelse", "finalbody"):
                v = getattr(node, f, None)
                if isinstance(v, list) and v and isinstance(v[0], ast.stmt) and not (f == "orelse" and isinstance(node, ast.If) and len(v) == 1 and isinstance(v[0], ast.If)):
                    setattr(node, f, self._fix(v))
        return node


TRANSFORMS["augassign"] = _apply(_AugAssign)
TRANSFORMS["else-after-return"] = _apply(_ElseAfterReturn)
TRANSFORMS["cond-temp"] = _apply(_CondTemp)


class _KwToPos(ast.NodeTransformer):
    """np.concatenate(xs, axis=1) -> np.concatenate(xs, 1); pd.Series(x, index=i) -> pd.Series(x, i); ... for externals whose
    leading parameters are stable (same table as the analyser's EXT_SIGS, matched by `np.` / `pd.` attribute name)."""

    SIGS = {("np", "concatenate"): ("arrays", "axis"), ("pd", "Series"): ("data", "index"), ("pd", "DataFrame"): ("data", "index", "columns"),
            ("np", "around"): ("a", "decimals"), ("np", "clip"): ("a", "a_min", "a_max"), ("np", "quantile"): ("a", "q", "axis"),
            ("np", "nanquantile"): ("a", "q", "axis"), ("np", "amin"): ("a", "axis"), ("np", "searchsorted"): ("a", "v", "side")}

    def visit_Call(self, n):
        self.generic_visit(n)
        f = n.func
        if isinstance(f, ast.Attribute) and isinstance(f.value, ast.Name) and (f.value.id, f.attr) in self.SIGS \
                and not any(isinstance(a, ast.Starred) for a in n.args) and all(k.arg for k in n.keywords):
            sig = self.SIGS[(f.value.id, f.attr)]
            kws = {k.arg: k for k in n.keywords}
            while len(n.args) < len(sig) and sig[len(n.args)] in kws:
                k = kws.pop(sig[len(n.args)])
                n.args.append(k.value)
                n.keywords.remove(k)
        return n


TRANSFORMS["kw-to-pos"] = _apply(_KwToPos)


class _PosToKw(ast.NodeTransformer):
    """the reverse of kw-to-pos: positional arguments after the first become keywords (pd.Series(x, i) -> pd.Series(x, index=i))"""

    SIGS = _KwToPos.SIGS

    def visit_Call(self, n):
        self.generic_visit(n)
        f = n.func
        if isinstance(f, ast.Attribute) and isinstance(f.value, ast.Name) and (f.value.id, f.attr) in self.SIGS \
                and not any(isinstance(a, ast.Starred) for a in n.args) and all(k.arg for k in n.keywords):
            sig = self.SIGS[(f.value.id, f.attr)]
            if 1 < len(n.args) <= len(sig):
                extra = n.args[1:]
                n.args = n.args[:1]
                n.keywords = [ast.keyword(arg=sig[i + 1], value=v) for i, v in enumerate(extra)] + n.keywords
        return n


TRANSFORMS["pos-to-kw"] = _apply(_PosToKw)
