"""Checker self-validation (thorough tier): every corpus mutant must be reported, every refactor must stay silent.

The result is recorded in the property's evidence file; it never changes the exit code of the property check
(a surviving mutant is a checker gap to be reported honestly, not a violation of the tree under analysis).
"""
from __future__ import annotations

import contextlib
import io
import json
import multiprocessing as mp
import os
import time

from .corpus import CORPUS, EXTRA_EDITS
from .scratch import scratch_tree


def _one(args):
    prop, kind, rel, old, new, note, root = args
    from ..run import run_property
    try:
        edits = [(rel, old, new)]
        if note in EXTRA_EDITS:
            edits.append(EXTRA_EDITS[note])
        with scratch_tree(root, edits) as tmp:
            import ast
            with open(os.path.join(tmp, rel)) as f:
                ast.parse(f.read())
            # a mutant is first checked without the normal-form retries (they can only discharge, and they are slow on a tree
            # that really violates a rule); when it is reported, the verdict is confirmed with the retries switched on
            passes = (True, False) if kind == "mutant" else (False,)
            for no_nf in passes:
                if no_nf:
                    os.environ["SA_NO_NORMAL_FORMS"] = "1"
                else:
                    os.environ.pop("SA_NO_NORMAL_FORMS", None)
                buf = io.StringIO()
                try:
                    with contextlib.redirect_stdout(buf):
                        code = run_property(prop, "quick", tmp, 0, write=False)
                finally:
                    os.environ.pop("SA_NO_NORMAL_FORMS", None)
                out = buf.getvalue()
                if code == 0:
                    break
    except ValueError as e:
        return dict(prop=prop, kind=kind, file=rel, note=note, outcome="skipped", why=str(e)[:120])
    except SyntaxError as e:
        return dict(prop=prop, kind=kind, file=rel, note=note, outcome="skipped", why=f"edit does not compile: {e}")
    first = [l.strip() for l in out.splitlines() if l.startswith("  ")][:1]
    return dict(prop=prop, kind=kind, file=rel, note=note, code=code,
                outcome={0: "silent", 1: "reported", 2: "analysis-error"}.get(code, "?"), first_report=(first[0][:200] if first else ""))


def _whole_package(prop, root):
    """Behaviour-preserving transformations of the whole package: every local renamed; ast round trip."""
    import shutil
    from ..run import run_property
    from .refactors import TRANSFORMS, make_tree
    out = []
    for name, tf in TRANSFORMS.items():
        tmp = make_tree(root, tf)
        try:
            buf = io.StringIO()
            with contextlib.redirect_stdout(buf):
                code = run_property(prop, "quick", tmp, 0, write=False)
            first = [l.strip() for l in buf.getvalue().splitlines() if l.startswith("  ")][:1]
            out.append(dict(prop=prop, kind="refactor", file="fairlearn/**", note=f"whole package: {name}", code=code,
                            outcome={0: "silent", 1: "reported", 2: "analysis-error"}.get(code, "?"),
                            first_report=(first[0][:200] if first else "")))
        finally:
            shutil.rmtree(tmp, ignore_errors=True)
    return out


def _seeds(prop, root):
    """Independently written breaking changes filed under /verif/seeded for this property must stay reported."""
    import shutil
    import subprocess
    import tempfile
    from ..run import run_property
    verif = os.path.dirname(os.path.dirname(os.path.dirname(os.path.abspath(__file__))))
    sd = os.path.join(verif, "seeded")
    out = []
    if not os.path.isdir(sd):
        return out
    for name in sorted(os.listdir(sd)):
        mp = os.path.join(sd, name, "meta.json")
        if not os.path.exists(mp):
            continue
        try:
            with open(mp) as f:
                if json.load(f).get("property") != prop:
                    continue
        except Exception:
            continue
        tmp = tempfile.mkdtemp(prefix="sa_seed_")
        try:
            shutil.copytree(os.path.join(root, "fairlearn"), os.path.join(tmp, "fairlearn"),
                            ignore=shutil.ignore_patterns("__pycache__", "*.pyc"))
            r = subprocess.run(["patch", "-p1", "-s", "-d", tmp, "-i", os.path.join(sd, name, "patch.diff")],
                               capture_output=True, text=True)
            if r.returncode != 0:
                out.append(dict(prop=prop, kind="mutant", file=name, note=f"seeded change {name}", outcome="skipped",
                                why="patch does not apply to this tree"))
                continue
            buf = io.StringIO()
            with contextlib.redirect_stdout(buf):
                code = run_property(prop, "quick", tmp, 0, write=False)
            first = [l.strip() for l in buf.getvalue().splitlines() if l.startswith("  ")][:1]
            out.append(dict(prop=prop, kind="mutant", file=name, note=f"seeded change {name}", code=code,
                            outcome={0: "silent", 1: "reported", 2: "analysis-error"}.get(code, "?"),
                            first_report=(first[0][:200] if first else "")))
        finally:
            shutil.rmtree(tmp, ignore_errors=True)
    return out


def _refactor_patches(prop, root):
    """Multi-site behaviour-preserving rewrites kept as patches (sa/selftest/refactor_patches/<prop>__<name>.diff): must stay
    silent."""
    import shutil
    import subprocess
    import tempfile
    from ..run import run_property
    d = os.path.join(os.path.dirname(os.path.abspath(__file__)), "refactor_patches")
    out = []
    if not os.path.isdir(d):
        return out
    for name in sorted(os.listdir(d)):
        if not name.startswith(prop + "__") or not name.endswith(".diff"):
            continue
        tmp = tempfile.mkdtemp(prefix="sa_rp_")
        try:
            shutil.copytree(os.path.join(root, "fairlearn"), os.path.join(tmp, "fairlearn"),
                            ignore=shutil.ignore_patterns("__pycache__", "*.pyc"))
            r = subprocess.run(["patch", "-p1", "-s", "-d", tmp, "-i", os.path.join(d, name)], capture_output=True, text=True)
            if r.returncode != 0:
                out.append(dict(prop=prop, kind="refactor", file=name, note=f"refactor patch {name}", outcome="skipped",
                                why="patch does not apply to this tree"))
                continue
            buf = io.StringIO()
            with contextlib.redirect_stdout(buf):
                code = run_property(prop, "quick", tmp, 0, write=False)
            first = [l.strip() for l in buf.getvalue().splitlines() if l.startswith("  ") or l.startswith("ANALYSIS")][:1]
            out.append(dict(prop=prop, kind="refactor", file=name, note=f"refactor patch {name}", code=code,
                            outcome={0: "silent", 1: "reported", 2: "analysis-error"}.get(code, "?"),
                            first_report=(first[0][:200] if first else "")))
        finally:
            shutil.rmtree(tmp, ignore_errors=True)
    return out


def _sweep_one(job):
    from .sweep import run_mutant
    code, first = run_mutant(job)
    return {"file": job["rel"], "function": job["func"], "line": job["line"], "operator": job["desc"], "old": job["old"],
            "new": job["new"], "code": code, "first_report": first}


def _sweep(prop: str, root: str, seed: int, analysed):
    """A bounded, seeded sample of syntactic mutants of every function this property's check analysed; each is handed to
    the check in memory.  Recorded as the checker's sensitivity - survivors are triaged in DESIGN.md section 10 (most change
    nothing a property names); the result never changes the exit code."""
    import random
    from .sweep import mutants_for_functions
    t0 = time.time()
    allm = mutants_for_functions(root, analysed)
    limit = int(os.environ.get("SA_SWEEP_LIMIT", "300"))
    rnd = random.Random(f"{prop}-{seed}")
    sample = allm if (limit <= 0 or len(allm) <= limit) else rnd.sample(allm, limit)
    jobs = [{"prop": prop, "rel": rel, "func": q, "line": ln, "desc": d, "old": o, "new": n, "src": src, "root": root}
            for (rel, q, ln, d, o, n, src) in sample]
    n = min(16, os.cpu_count() or 4, max(1, len(jobs)))
    # the sample is judged without the normal-form retries (they can only turn a report into a pass and cost ~10x on a reported
    # mutant); the corpus and the filed seeds above are judged with them
    os.environ["SA_NO_NORMAL_FORMS"] = "1"
    try:
        with mp.get_context("fork").Pool(n, maxtasksperchild=60) as pool:
            res = pool.map(_sweep_one, jobs, chunksize=4)
    finally:
        os.environ.pop("SA_NO_NORMAL_FORMS", None)
    rep = [r for r in res if r["code"] == 1]
    ref = [r for r in res if r["code"] == 2]
    sur = [r for r in res if r["code"] == 0]
    by_fn = {}
    for r in res:
        d = by_fn.setdefault(r["function"], {"mutants": 0, "reported": 0})
        d["mutants"] += 1
        d["reported"] += 1 if r["code"] == 1 else 0
    return {"generated": len(allm), "mutants": len(res), "reported": len(rep), "refused": len(ref), "survived": len(sur),
            "sample_seed": f"{prop}-{seed}", "limit": limit, "per_function": by_fn,
            "survivors": [{k: r[k] for k in ("file", "function", "line", "operator", "old", "new")} for r in sur[:60]],
            "operators": "comparison / arithmetic / boolean swaps, constants, negated tests, dropped statements and raises, swapped or "
                         "dropped arguments, sibling names, slice bounds (sa/selftest/sweep.py)",
            "note": "checker sensitivity, not a verdict on /repo: a survivor either changes nothing a property names (logging, "
                    "messages, heuristics, defaults, equivalent forms) or is a gap; see DESIGN.md section 10",
            "wall_s": round(time.time() - t0, 1)}


def run_for(prop: str, root: str, seed: int, evidence_dir=None):
    t0 = time.time()
    items = [(p, k, rel, old, new, note, root) for (p, k, rel, old, new, note) in CORPUS if p == prop]
    if not items:
        return
    n = min(16, os.cpu_count() or 4, len(items))
    with mp.get_context("fork").Pool(n) as pool:
        res = pool.map(_one, items)
    res.extend(_whole_package(prop, root))
    res.extend(_seeds(prop, root))
    res.extend(_refactor_patches(prop, root))
    mutants = [r for r in res if r["kind"] == "mutant" and r["outcome"] != "skipped"]
    refs = [r for r in res if r["kind"] == "refactor" and r["outcome"] != "skipped"]
    killed = [r for r in mutants if r["outcome"] == "reported"]
    silent = [r for r in refs if r["outcome"] == "silent"]
    survivors = [r for r in mutants if r["outcome"] != "reported"]
    noisy = [r for r in refs if r["outcome"] != "silent"]
    skipped = [r for r in res if r["outcome"] == "skipped"]
    print(f"[{prop}] self-validation: mutants reported {len(killed)}/{len(mutants)}, refactors silent {len(silent)}/{len(refs)}, "
          f"skipped {len(skipped)} ({round(time.time() - t0, 1)}s)")
    for r in survivors:
        print(f"  CHECKER-GAP (mutant not reported): {r['file']}: {r['note']} -> {r['outcome']}")
    for r in noisy:
        print(f"  CHECKER-NOISE (refactor not silent): {r['file']}: {r['note']} -> {r['outcome']} {r.get('first_report', '')}")
    evidence_dir = evidence_dir or os.path.join(os.path.dirname(os.path.dirname(os.path.dirname(os.path.abspath(__file__)))), "evidence")
    path = os.path.join(evidence_dir, f"{prop}.json")
    sweep = None
    if os.path.exists(path) and os.environ.get("SA_SWEEP", "1") != "0":
        with open(path) as f:
            analysed = json.load(f)["coverage"].get("functions_analysed", [])
        sweep = _sweep(prop, root, seed, analysed)
        print(f"[{prop}] mutation sample of the analysed functions: {sweep['reported']}/{sweep['mutants']} reported, "
              f"{sweep['refused']} refused, {sweep['survived']} survived (of {sweep['generated']} generated; {sweep['wall_s']}s)")
    if os.path.exists(path):
        with open(path) as f:
            ev = json.load(f)
        if sweep is not None:
            ev["coverage"]["mutation_sample"] = sweep
        ev["coverage"]["self_validation"] = {
            "programs": len(mutants) + len(refs), "mutants": len(mutants), "mutants_reported": len(killed),
            "refactors": len(refs), "refactors_silent": len(silent), "skipped_anchor_absent": len(skipped),
            "survivors": survivors, "noisy_refactors": noisy,
            "samples": (killed[:2] + silent[:2]),
            "note": "edits are applied to a scratch copy outside /repo and /verif; results do not change the exit code",
        }
        ev["coverage"]["programs"] = len(mutants) + len(refs)
        ev["wall_s"] = round(ev.get("wall_s", 0) + time.time() - t0, 3)
        with open(path, "w") as f:
            json.dump(ev, f, indent=1, default=str)


def main():
    import sys
    root = sys.argv[1] if len(sys.argv) > 1 else "/repo"
    for p in sorted({c[0] for c in CORPUS}):
        run_for(p, root, 0, "/tmp/selfval_evidence")


if __name__ == "__main__":
    main()
