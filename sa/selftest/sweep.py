"""Syntactic mutation operators and the in-memory mutant runner shared by tools/mutsweep.py (development sweep over all
properties) and the thorough tier (a bounded, seeded sample per property, recorded in the evidence as the checker's
mutation score).  Nothing is written and nothing of fairlearn is run: a mutant is one file's source handed to the
analyser through Program.OVERLAY."""
from __future__ import annotations

import ast
import contextlib
import io
import os

ROOT = os.environ.get("SA_ROOT", "/repo")

CMP = {ast.Lt: [ast.LtE, ast.Gt], ast.LtE: [ast.Lt, ast.GtE], ast.Gt: [ast.GtE, ast.Lt], ast.GtE: [ast.Gt, ast.LtE],
       ast.Eq: [ast.NotEq], ast.NotEq: [ast.Eq], ast.Is: [ast.IsNot], ast.IsNot: [ast.Is], ast.In: [ast.NotIn], ast.NotIn: [ast.In]}
BIN = {ast.Add: [ast.Sub], ast.Sub: [ast.Add], ast.Mult: [ast.Div, ast.Add], ast.Div: [ast.Mult], ast.FloorDiv: [ast.Div],
       ast.BitAnd: [ast.BitOr], ast.BitOr: [ast.BitAnd]}
NAMES = {"loc": ["iloc"], "iloc": ["loc"], "min": ["max"], "max": ["min"], "idxmax": ["idxmin"], "idxmin": ["idxmax"],
         "argmax": ["argmin"], "argmin": ["argmax"], "sum": ["mean"], "mean": ["sum"], "any": ["all"], "all": ["any"],
         "minimum": ["maximum"], "maximum": ["minimum"], "cumsum": ["sum"], "isnull": ["notnull"], "notnull": ["isnull"],
         "isna": ["notna"], "notna": ["isna"], "append": ["extend"], "at": ["iat"], "floor": ["ceil"], "ceil": ["floor"],
         "zeros": ["ones"], "ones": ["zeros"], "sort_values": ["sort_index"], "first": ["last"], "last": ["first"],
         "nanmin": ["nanmax"], "nanmax": ["nanmin"], "ge": ["gt"], "gt": ["ge"], "le": ["lt"], "lt": ["le"],
         "index": ["values"], "T": ["values"], "abs": ["asarray"], "copy": ["view"]}


def seg(src_lines, node):
    """(start offset, end offset) of node in the joined source."""
    return node.lineno, node.col_offset, node.end_lineno, node.end_col_offset


def mutants_of(func: ast.AST):
    """yield (node, replacement node or text, description)"""
    for n in ast.walk(func):
        if isinstance(n, (ast.FunctionDef, ast.AsyncFunctionDef, ast.ClassDef)) and n is not func:
            continue
        if isinstance(n, ast.Compare):
            for i, op in enumerate(n.ops):
                for alt in CMP.get(type(op), []):
                    m = ast.Compare(n.left, n.ops[:i] + [alt()] + n.ops[i + 1:], n.comparators)
                    yield n, m, f"cmp {type(op).__name__}->{alt.__name__}"
        elif isinstance(n, ast.BinOp):
            for alt in BIN.get(type(n.op), []):
                if isinstance(n.op, (ast.Add, ast.Mult)) and isinstance(n.left, ast.Constant) and isinstance(n.left.value, str):
                    continue
                yield n, ast.BinOp(n.left, alt(), n.right), f"binop {type(n.op).__name__}->{alt.__name__}"
        elif isinstance(n, ast.UnaryOp) and isinstance(n.op, (ast.Not, ast.USub, ast.Invert)):
            yield n, n.operand, f"drop unary {type(n.op).__name__}"
        elif isinstance(n, ast.BoolOp):
            alt = ast.Or if isinstance(n.op, ast.And) else ast.And
            yield n, ast.BoolOp(alt(), n.values), f"boolop {type(n.op).__name__}->{alt.__name__}"
            if len(n.values) >= 2:
                for i in range(len(n.values)):
                    rest = n.values[:i] + n.values[i + 1:]
                    yield n, (rest[0] if len(rest) == 1 else ast.BoolOp(n.op, rest)), f"drop operand {i} of {type(n.op).__name__}"
        elif isinstance(n, ast.Constant) and not isinstance(n.value, (str, bytes, type(None), type(Ellipsis))):
            v = n.value
            if isinstance(v, bool):
                yield n, ast.Constant(not v), f"const {v}->{not v}"
            elif isinstance(v, int):
                for w in ({v + 1, v - 1, 0, 1} - {v}):
                    yield n, ast.Constant(w), f"const {v}->{w}"
            elif isinstance(v, float):
                for w in ({v * 2, 0.0, 1.0} - {v}):
                    yield n, ast.Constant(w), f"const {v}->{w}"
        elif isinstance(n, ast.Attribute) and n.attr in NAMES:
            for alt in NAMES[n.attr]:
                yield n, ast.Attribute(n.value, alt, n.ctx), f"attr .{n.attr}->.{alt}"
        elif isinstance(n, ast.Name) and n.id in NAMES and isinstance(n.ctx, ast.Load):
            for alt in NAMES[n.id]:
                if alt in ("iloc", "loc", "mean", "idxmin", "idxmax", "argmin", "argmax", "view", "values", "extend", "iat"):
                    continue
                yield n, ast.Name(alt, n.ctx), f"name {n.id}->{alt}"
        elif isinstance(n, ast.Call):
            pos = [a for a in n.args if not isinstance(a, ast.Starred)]
            if len(n.args) >= 2 and len(pos) == len(n.args):
                yield n, ast.Call(n.func, [n.args[1], n.args[0]] + n.args[2:], n.keywords), "swap args 0,1"
            for i, k in enumerate(n.keywords):
                if k.arg is not None:
                    yield n, ast.Call(n.func, n.args, n.keywords[:i] + n.keywords[i + 1:]), f"drop kw {k.arg}"
            if isinstance(n.func, ast.Name) and n.func.id in ("abs", "float", "int", "sorted", "list", "set") and len(n.args) == 1 and not n.keywords:
                yield n, n.args[0], f"unwrap {n.func.id}()"
            if isinstance(n.func, ast.Attribute) and n.func.attr in ("abs", "asarray", "copy", "sort_index", "sort_values", "reset_index",
                                                                       "fillna", "dropna", "squeeze", "ravel", "reshape", "astype", "unique"):
                if isinstance(n.func.value, ast.Name) and n.func.value.id in ("np", "numpy", "pd") and len(n.args) >= 1:
                    yield n, n.args[0], f"unwrap {n.func.value.id}.{n.func.attr}()"
                elif not (isinstance(n.func.value, ast.Name) and n.func.value.id in ("np", "numpy", "pd")):
                    yield n, n.func.value, f"drop .{n.func.attr}()"
        elif isinstance(n, ast.Dict) and len(n.values) >= 2 and all(k is not None for k in n.keys):
            for i in range(len(n.values) - 1):
                vals = list(n.values)
                vals[i], vals[i + 1] = vals[i + 1], vals[i]
                yield n, ast.Dict(n.keys, vals), f"swap dict values {i},{i + 1}"
        elif isinstance(n, (ast.List, ast.Tuple)) and len(n.elts) >= 2 and isinstance(getattr(n, "ctx", ast.Load()), ast.Load) \
                and all(isinstance(e, ast.Constant) for e in n.elts):
            for i in range(len(n.elts) - 1):
                el = list(n.elts)
                el[i], el[i + 1] = el[i + 1], el[i]
                yield n, type(n)(el, ast.Load()), f"swap elements {i},{i + 1}"
            yield n, type(n)(list(n.elts[:-1]), ast.Load()), "drop last element"
        elif isinstance(n, (ast.If, ast.While)):
            yield n.test, ast.UnaryOp(ast.Not(), n.test), f"negate {type(n).__name__.lower()} test"
        elif isinstance(n, ast.IfExp):
            yield n, ast.IfExp(n.test, n.orelse, n.body), "swap ifexp arms"
        elif isinstance(n, ast.Break):
            yield n, "continue", "break->continue"
        elif isinstance(n, ast.Continue):
            yield n, "break", "continue->break"
        elif isinstance(n, ast.Subscript) and isinstance(n.slice, ast.Slice):
            sl = n.slice
            if sl.upper is not None:
                yield sl, ast.Slice(sl.lower, ast.BinOp(sl.upper, ast.Add(), ast.Constant(1)), sl.step), "slice upper+1"
            if sl.lower is not None:
                yield sl, ast.Slice(ast.BinOp(sl.lower, ast.Add(), ast.Constant(1)), sl.upper, sl.step), "slice lower+1"
        # statement deletions
        if isinstance(n, ast.Expr) and isinstance(n.value, ast.Call):
            yield n, "pass", "drop call statement"
        elif isinstance(n, ast.AugAssign):
            yield n, "pass", "drop augassign"
        elif isinstance(n, ast.Assign) and all(isinstance(t, (ast.Attribute, ast.Subscript)) for t in n.targets):
            yield n, "pass", "drop attribute/subscript store"
        elif isinstance(n, ast.Raise):
            yield n, "pass", "drop raise"
        elif isinstance(n, ast.Return) and n.value is not None and isinstance(n.value, (ast.Call, ast.BinOp)) \
                and isinstance(getattr(n.value, "func", None), ast.Attribute) and isinstance(n.value.func.value, ast.Name) and False:
            pass


def apply(src: str, node, repl) -> str | None:
    lines = src.splitlines(keepends=True)
    offs = [0]
    for ln in lines:
        offs.append(offs[-1] + len(ln.encode("utf-8")))
    b = src.encode("utf-8")
    s = offs[node.lineno - 1] + node.col_offset
    e = offs[node.end_lineno - 1] + node.end_col_offset
    if isinstance(repl, str):
        text = repl
    else:
        try:
            text = ast.unparse(ast.fix_missing_locations(repl))
        except Exception:
            return None
        if isinstance(repl, ast.expr) and not isinstance(repl, (ast.Name, ast.Constant, ast.Attribute, ast.Call, ast.Subscript)):
            text = "(" + text + ")"
    new = (b[:s] + text.encode("utf-8") + b[e:]).decode("utf-8")
    try:
        ast.parse(new)
    except SyntaxError:
        return None
    return new


def functions_in(tree):
    out = {}

    def walk(node, prefix):
        for ch in ast.iter_child_nodes(node):
            if isinstance(ch, (ast.FunctionDef, ast.AsyncFunctionDef)):
                q = prefix + ch.name
                out[q] = ch
                walk(ch, q + ".<locals>.")
            elif isinstance(ch, ast.ClassDef):
                walk(ch, prefix + ch.name + ".")
            else:
                walk(ch, prefix)
    walk(tree, "")
    return out


def run_mutant(job):
    """job: dict(prop, rel, src, root) -> exit code of the check on the overlaid tree (2 = refused / crashed)."""
    from .. import model, run
    model.Program.OVERLAY = {job["rel"]: job["src"]}
    buf = io.StringIO()
    try:
        with contextlib.redirect_stdout(buf), contextlib.redirect_stderr(buf):
            code = run.run_property(job["prop"], "quick", job.get("root", ROOT), 0, write=False)
    except BaseException as e:  # noqa
        code = 2
        buf.write(f"crash {type(e).__name__}: {e}")
    finally:
        model.Program.OVERLAY = {}
    out = buf.getvalue()
    first = ""
    for ln in out.splitlines():
        if "[R" in ln and ln.startswith("  "):
            first = ln.strip()[:200]
            break
    if not first:
        for ln in out.splitlines():
            if ln.startswith("ANALYSIS-ERROR"):
                first = ln[:200]
                break
    return code, first


def module_level(tree: ast.Module) -> ast.Module:
    """the module's own statements (assignments of constants / tables), without function and class bodies"""
    keep = [st for st in tree.body if isinstance(st, (ast.Assign, ast.AnnAssign, ast.AugAssign)) ]
    return ast.Module(body=keep, type_ignores=[])


def mutants_for_functions(root, fqs):
    """[(rel, qualname, line, desc, old, new, mutated source)] for the functions `module:qualname` in fqs"""
    bymod = {}
    for fq in fqs:
        bymod.setdefault(fq.split(":")[0], []).append(fq)
    out = []
    for mod, lst in sorted(bymod.items()):
        rel = mod.replace(".", "/") + ".py"
        if not os.path.exists(os.path.join(root, rel)):
            rel = mod.replace(".", "/") + "/__init__.py"
            if not os.path.exists(os.path.join(root, rel)):
                continue
        src = open(os.path.join(root, rel)).read()
        tree_ = ast.parse(src)
        fns = functions_in(tree_)
        fns["<module>"] = module_level(tree_)
        for fq in sorted(lst):
            q = fq.split(":")[1]
            if q not in fns:
                continue
            seen = set()
            for node, repl, desc in mutants_of(fns[q]):
                new = apply(src, node, repl)
                if new is None or new == src or new in seen:
                    continue
                seen.add(new)
                out.append((rel, q, node.lineno, desc, (ast.get_source_segment(src, node) or "")[:120],
                            (repl if isinstance(repl, str) else ast.unparse(repl))[:120], new))
    return out
