"""Self-validation corpus: property-breaking edits (must be reported) and behaviour-preserving edits (must stay silent).

Each entry: (property, kind, relative path, old text, new text, note).  `old` must occur exactly once in the file of
the tree under analysis; entries whose anchor is absent (the tree changed) are skipped and counted.
The edits are applied to a scratch copy only (sa/selftest/scratch.py); /repo is never modified.
"""

UP = "fairlearn/reductions/_moments/utility_parity.py"
ER = "fairlearn/reductions/_moments/error_rate.py"
BGL = "fairlearn/reductions/_moments/bounded_group_loss.py"
MO = "fairlearn/reductions/_moments/moment.py"
LAG = "fairlearn/reductions/_exponentiated_gradient/_lagrangian.py"
EG = "fairlearn/reductions/_exponentiated_gradient/exponentiated_gradient.py"
GS = "fairlearn/reductions/_grid_search/grid_search.py"
GG = "fairlearn/reductions/_grid_search/_grid_generator.py"
TO = "fairlearn/postprocessing/_threshold_optimizer.py"
IT = "fairlearn/postprocessing/_interpolated_thresholder.py"
TC = "fairlearn/postprocessing/_tradeoff_curve_utilities.py"
TOP = "fairlearn/postprocessing/_threshold_operation.py"
MF = "fairlearn/metrics/_metric_frame.py"
DR = "fairlearn/metrics/_disaggregated_result.py"
AMF = "fairlearn/metrics/_annotated_metric_function.py"
BM = "fairlearn/metrics/_base_metrics.py"
FM = "fairlearn/metrics/_fairness_metrics.py"
MDM = "fairlearn/metrics/_make_derived_metric.py"
GM = "fairlearn/metrics/_generated_metrics.py"
GF = "fairlearn/metrics/_group_feature.py"
BS = "fairlearn/metrics/_bootstrap.py"
IV = "fairlearn/utils/_input_validation.py"
CR = "fairlearn/preprocessing/_correlation_remover.py"
ADV = "fairlearn/adversarial/_adversarial_mitigation.py"
PT = "fairlearn/adversarial/_pytorch_engine.py"
TF = "fairlearn/adversarial/_tensorflow_engine.py"

M, R = "mutant", "refactor"
CORPUS = []


def add(prop, kind, rel, old, new, note=""):
    CORPUS.append((prop, kind, rel, old, new, note))


# ------------------------------------------------------------------ C01
add("C01", M, DR, "grouping_names=(control_feature_names or []) + sensitive_feature_names,",
    "grouping_names=sensitive_feature_names + (control_feature_names or []),", "grouping order swapped")
add("C01", M, DR, "return temp.reindex(index=all_indices)", "return temp.reindex(index=all_indices, fill_value=0)", "empty cells filled")
add("C01", M, DR, "return temp.reindex(index=all_indices)", "return temp.reindex(index=all_indices).dropna()", "empty cells dropped")
add("C01", M, DR, "if len(grouping_names) > 1:", "if len(grouping_names) > 2:", "no product index for two features")
add("C01", M, AMF, "kwargs[func_arg_name] = np.asarray(list(df[data_arg_name]))", "kwargs[func_arg_name] = np.asarray(list(df[func_arg_name]))",
    "reader uses the wrong column")
add("C01", M, MF, "kw_argument_mapping[param_name] = col_name", "kw_argument_mapping[param_name] = param_name", "writer/reader disagree")
add("C01", M, MF, "all_data[cf.name_] = list(cf.raw_feature_)", "all_data[cf.name_] = list(sf.raw_feature_)", "control column holds sensitive data")
add("C01", M, MF, "            raw_result.by_group, no_control_levels=True", "            raw_result.overall, no_control_levels=True", "by_group cache holds overall")
add("C01", R, DR, "        by_group = DisaggregatedResult._apply_functions(\n            data=data,\n            annotated_functions=annotated_functions,\n            grouping_names=(control_feature_names or []) + sensitive_feature_names,\n        )",
    "        names = (control_feature_names or []) + sensitive_feature_names\n        by_group = DisaggregatedResult._apply_functions(\n            data=data,\n            annotated_functions=annotated_functions,\n            grouping_names=names,\n        )",
    "temporary extracted")
add("C01", R, AMF, "            args.append(np.asarray(list(df[arg_name])))", "            column = list(df[arg_name])\n            args.append(np.asarray(column))", "temporary extracted")
add("C01", R, MF, "        for sf in sf_list:\n            all_data[sf.name_] = list(sf.raw_feature_)", "        for feature in sf_list:\n            all_data[feature.name_] = list(feature.raw_feature_)", "loop variable renamed")

# ------------------------------------------------------------------ C02
add("C02", M, DR, "result = (mf - subtrahend).abs().max()", "result = (mf - subtrahend).max()", "abs dropped")
add("C02", M, DR, "            if x > 1:\n                return 1 / x", "            if x >= 1:\n                return 1 - x", "fold changed")
add("C02", M, DR, "            result = self.apply_grouping(\n                \"min\", control_feature_names, errors=errors\n            ) / self.apply_grouping(\"max\", control_feature_names, errors=errors)",
    "            result = self.apply_grouping(\n                \"max\", control_feature_names, errors=errors\n            ) / self.apply_grouping(\"min\", control_feature_names, errors=errors)", "ratio inverted")
add("C02", M, DR, "                result = ratios.min()\n            else:", "                result = ratios.max()\n            else:", "max instead of min")
add("C02", M, DR, "                result = mf.groupby(level=control_feature_names).agg(grouping_function)", "                result = mf.agg(grouping_function)", "control levels ignored")
add("C02", M, MF, "        value = self._result_cache[\"ratio\"][method][errors]", "        value = self._result_cache[\"ratio\"][\"between_groups\"][errors]", "reader ignores method")
add("C02", M, MF, "            if self.control_levels or no_control_levels:\n                return underlying_result.iloc[:, 0]",
    "            if self.control_levels and no_control_levels:\n                return underlying_result.iloc[:, 0]", "extract condition")
add("C02", R, DR, "            result = (mf - subtrahend).abs().max()", "            deviation = mf - subtrahend\n            result = deviation.abs().max()", "temporary extracted")
add("C02", R, DR, "            subtrahend = self.apply_grouping(\"min\", control_feature_names, errors=errors)", "            subtrahend = self.apply_grouping(\"max\", control_feature_names, errors=errors)",
    "max - x and x - min have the same largest absolute value (accepted class)")
add("C02", R, DR, "            if x > 1:\n                return 1 / x\n            else:\n                return x", "            if x <= 1:\n                return x\n            return 1 / x", "branches reordered")

# ------------------------------------------------------------------ C03
add("C03", M, FM, "    sp = {\"tpr\": sw_dict, \"fpr\": sw_dict}", "    sp = {\"tpr\": sw_dict}", "fpr unweighted")
add("C03", M, FM, "        return min(eo.ratio(method=method))", "        return max(eo.ratio(method=method))", "worst case inverted")
add("C03", M, FM, "    result = sel_rate.ratio(method=method)", "    result = sel_rate.ratio()", "method ignored")
add("C03", M, MDM, "            elif k in parameters_for_transforms:\n                transform_parameters[k] = v", "            elif k in parameters_for_transforms:\n                params[k] = v", "partition broken")
add("C03", M, MDM, "        elif self._transform == \"group_min\":\n            result = all_metrics.group_min()", "        elif self._transform == \"group_min\":\n            result = all_metrics.group_max()", "wrong aggregate")
add("C03", M, GM, "            metric=base_metric, transform=variant, sample_param_names=[\"sample_weight\"]", "            metric=base_metric, transform=variants[0], sample_param_names=[\"sample_weight\"]", "loop variable misuse")
add("C03", R, FM, "    result = sel_rate.difference(method=method)\n    return result", "    return sel_rate.difference(method=method)", "temporary inlined")
add("C03", R, FM, "    fns = {\"tpr\": true_positive_rate, \"fpr\": false_positive_rate}\n    sw_dict = {\"sample_weight\": sample_weight}\n    sp = {\"tpr\": sw_dict, \"fpr\": sw_dict}",
    "    sw_dict = {\"sample_weight\": sample_weight}\n    fns = {\"tpr\": true_positive_rate, \"fpr\": false_positive_rate}\n    sp = {\"fpr\": sw_dict, \"tpr\": sw_dict}", "sample-param dict order / statement order")

# ------------------------------------------------------------------ C04 / C05
add("C04", M, TC, "p0 = x_distance_from_next_data_point / x_distance_between_data_points", "p0 = x_distance_between_data_points / x_distance_from_next_data_point", "p0 inverted")
add("C04", M, TC, "indices = np.searchsorted(x_values, x_grid, side=\"right\") - 1", "indices = np.searchsorted(x_values, x_grid, side=\"left\") - 1", "wrong side")
add("C04", M, TO, "self._y_min = np.amin(y_values, axis=1)", "self._y_min = np.amax(y_values, axis=1)", "max instead of min")
add("C04", M, TO, "prediction_constant=self._x_best,", "prediction_constant=self._y_best,", "wrong constant")
add("C04", M, IT, "+ (1 - interpolation.p_ignore) * interpolated_predictions", "+ interpolation.p_ignore * interpolated_predictions", "blend weights")
add("C04", M, TC, "\"false_negative_rate\": lambda x: x.false_negatives / x.positives,", "\"false_negative_rate\": lambda x: x.false_negatives / x.negatives,", "wrong denominator")
add("C04", M, TC, "positives=(true_positives + false_negatives),", "positives=(true_positives + false_positives),", "derived count")
add("C04", M, TC, "            operations = [(\">\", actual_counts), (\"<\", flipped_counts)]", "            operations = [(\"<\", actual_counts), (\">\", flipped_counts)]", "operation pairing")
add("C04", M, TOP, "            return y_hat > self._threshold", "            return y_hat >= self._threshold", "operator semantics")
add("C04", R, TC, "    p0 = x_distance_from_next_data_point / x_distance_between_data_points\n    p1 = 1 - p0", "    p0 = x_distance_from_next_data_point / x_distance_between_data_points\n    p1 = 1.0 - p0", "constant spelling")
add("C04", R, TC, "    y = p0 * y_values[interpolation_indices] + p1 * y_values[interpolation_indices + 1]", "    y = p1 * y_values[interpolation_indices + 1] + y_values[interpolation_indices] * p0", "commuted")
add("C04", R, IT, "                interpolated_predictions = (\n                    interpolation.p_ignore * interpolation.prediction_constant\n                    + (1 - interpolation.p_ignore) * interpolated_predictions\n                )",
    "                keep = 1 - interpolation.p_ignore\n                interpolated_predictions = (\n                    keep * interpolated_predictions\n                    + interpolation.p_ignore * interpolation.prediction_constant\n                )", "temporary + commuted")
add("C05", M, TC, "if (r1.y - r0.y) * (r2.x - r0.x) <= (r2.y - r0.y) * (r1.x - r0.x):", "if (r1.y - r0.y) * (r2.x - r0.x) < (r2.y - r0.y) * (r1.x - r0.x):", "strict hull test")
add("C05", M, TO, "p_sensitive_feature_value = len(group) / n", "p_sensitive_feature_value = 1 / len(data_grouped_by_sensitive_feature)", "uniform weights")
add("C05", M, TO, "i_best = overall_tradeoff_curve.idxmax()", "i_best = overall_tradeoff_curve.idxmin()", "argmin")
add("C05", M, TO, "n_negative = n - n_positive\n        self._tradeoff_curve = {}", "n_negative = n\n        self._tradeoff_curve = {}", "wrong negative count")
add("C05", R, TC, "if (r1.y - r0.y) * (r2.x - r0.x) <= (r2.y - r0.y) * (r1.x - r0.x):", "if (r2.y - r0.y) * (r1.x - r0.x) >= (r1.y - r0.y) * (r2.x - r0.x):", "comparison mirrored")
add("C05", R, TC, "if (r1.y - r0.y) * (r2.x - r0.x) <= (r2.y - r0.y) * (r1.x - r0.x):", "if (r1.y - r0.y) * (r2.x - r0.x) - (r2.y - r0.y) * (r1.x - r0.x) <= 0:", "moved to one side")
add("C05", R, TO, "            p_sensitive_feature_value = len(group) / n", "            p_sensitive_feature_value = len(group) * (1 / n)", "algebraic variant")

# ------------------------------------------------------------------ C06 / C07
add("C06", M, UP, "event_select / self.prob_event[e]\n                + (-self.ratio)", "event_select / self.prob_event[e]\n                - (-self.ratio)", "sign flip")
add("C06", M, UP, "g_signed = -self.U.T.dot(pred) / self.total_samples", "g_signed = -self.U.T.dot(pred) / (self.total_samples - 1)", "denominator")
add("C06", M, UP, "if not (0 < ratio_bound <= 1):", "if not (0 <= ratio_bound <= 1):", "guard region")
add("C06", M, UP, "utilities = np.vstack([y_train, 1 - y_train]).T", "utilities = np.vstack([1 - y_train, y_train]).T", "utilities swapped")
add("C06", M, UP, "    if pd.notnull(control) and pd.notnull(event):", "    if pd.notnull(control):", "null event stringified (F2)")
add("C06", M, ER, "total_fp_cost = np.sum(-signed_errors[signed_errors < 0] * self.fp_cost)", "total_fp_cost = np.sum(-signed_errors[signed_errors < 0] * self.fn_cost)", "cost role")
add("C06", M, BGL, "            - np.clip(y_pred, self.min_val, self.max_val)\n        ) ** 2", "            - np.clip(y_pred, self.min_val, self.max_val)\n        ) ** 1", "square dropped")
add("C06", R, UP, "            event_select = 1 * (self.tags[_EVENT] == e)", "            event_select = (self.tags[_EVENT] == e).astype(int)", "indicator spelling")
add("C06", R, UP, "        g_signed = -self.U.T.dot(pred) / self.total_samples", "        g_signed = -(self.U.T.dot(pred) / self.total_samples)", "parenthesisation")
add("C06", R, UP, "            if not (0 < ratio_bound <= 1):", "            if not (0 < ratio_bound) or not (ratio_bound <= 1):", "De Morgan (NaN-preserving form)")
add("C06", R, UP, "        for e, g in self.prob_group_event.index:", "        for ev, grp in self.prob_group_event.index:\n            e, g = ev, grp", "loop variables renamed")
add("C07", M, LAG, "redY = 1 * (signed_weights > 0)", "redY = 1 * (signed_weights < 0)", "relabel flipped")
add("C07", M, LAG, "redW = signed_weights.abs()", "redW = signed_weights", "abs dropped")
add("C07", M, GS, "weights = weights.abs()", "weights = weights * weights", "squared weights")
add("C07", M, UP, "lambda_neg = -lambda_pos", "lambda_neg = lambda_pos", "projection")
add("C07", M, BGL, "adjust = lambda_vec / self.prob_attr", "adjust = lambda_vec * self.prob_attr", "group weights")
add("C07", M, UP, "return self.utility_diff * self.U.dot(lambda_vec)", "return self.U.dot(lambda_vec)", "utility_diff dropped")
add("C07", R, LAG, "        redW = signed_weights.abs()", "        redW = abs(signed_weights)", "builtin abs")
add("C07", R, LAG, "            redY = 1 * (signed_weights > 0)", "            redY = (signed_weights > 0).astype(int)", "indicator spelling")
add("C07", R, ER, "        weights = -self.fp_cost + (self.fp_cost + self.fn_cost) * self.tags[_LABEL]", "        labels = self.tags[_LABEL]\n        weights = (self.fn_cost + self.fp_cost) * labels - self.fp_cost", "commuted + temporary")

# ------------------------------------------------------------------ C08 / C09 / C10
add("C08", M, EG, "if (gaps[t] < self.nu) and (t >= _MIN_ITER):", "if (gaps_EG[0] < self.nu) and (t >= _MIN_ITER):", "stale gap")
add("C08", M, EG, "                Qs.append(Q_LP)\n                gaps.append(gap_LP)", "                Qs.append(Q_EG)\n                gaps.append(gap_LP)", "mixed sources")
add("C08", M, EG, "self.best_iter_ = gaps_best.index[-1]", "self.best_iter_ = gaps_best.index[0]", "first instead of last")
add("C08", M, EG, "self.weights_ = Qs[self.best_iter_]", "self.weights_ = Qs[-1]", "different index")
add("C08", M, EG, "theta += eta * (gamma - self.constraints.bound())", "theta += eta * gamma", "bound dropped")
add("C08", M, LAG, "L_low_mul, _, _, _ = self._eval(pd.Series({h_hat_idx: 1.0}), lambda_hat)", "L_low_mul, _, _, _ = self._eval(pd.Series({h_hat_idx: 1.0}), mul * lambda_hat)", "evaluation point")
add("C08", M, LAG, "return max(self.L - self.L_low, self.L_high - self.L)", "return max(self.L - self.L_low, self.L - self.L_high)", "gap sign")
add("C08", R, EG, "            if (gaps[t] < self.nu) and (t >= _MIN_ITER):", "            if t >= _MIN_ITER and gaps[t] < self.nu:", "conjuncts swapped")
add("C08", R, EG, "            lambda_vec = B * np.exp(theta) / (1 + np.exp(theta).sum())", "            exp_theta = np.exp(theta)\n            lambda_vec = B * exp_theta / (1 + exp_theta.sum())", "temporary extracted")
add("C08", R, LAG, "        L = error + np.sum(lambda_vec * (gamma - self.constraints.bound()))", "        slack = gamma - self.constraints.bound()\n        L = error + np.sum(lambda_vec * slack)", "temporary extracted")
add("C09", M, GS, "current_estimator = copy.deepcopy(self.estimator)", "current_estimator = self.estimator", "estimator not copied")
add("C09", M, GS, "self.gammas_[i] = self.constraints.gamma(predict_fct)", "self.gammas_[i] = self.constraints.gamma(self.predictors_[0].predict)", "gamma of another predictor")
add("C09", M, GS, "self.best_idx_ = losses.index(min(losses))", "self.best_idx_ = losses.index(max(losses))", "argmax")
add("C09", M, GS, "return self.predictors_[self.best_idx_].predict(X)", "return self.predictors_[-1].predict(X)", "wrong delegate")
add("C09", M, GG, "pd.DataFrame(self.accumulator[:grid_size]).T", "pd.DataFrame(self.accumulator).T", "not truncated")
add("C09", M, GG, "self.accumulate_integer_grid(index + 1, max_val - abs(current_value))", "self.accumulate_integer_grid(index + 1, max_val - current_value)", "budget")
add("C09", R, GS, "                current_estimator = copy.deepcopy(self.estimator)", "                from sklearn.base import clone\n                current_estimator = clone(self.estimator)", "clone instead of deepcopy (accepted)")
add("C09", R, GS, "            lambda_vec = grid[i]", "            multipliers = grid[i]\n            lambda_vec = multipliers", "alias temporary")
add("C10", M, EG, "p=self.weights_[pred.columns]", "p=self.weights_", "misaligned choice (F10)")
add("C10", M, EG, "return (positive_probs >= random_state.rand(len(positive_probs))) * 1", "return (positive_probs <= random_state.rand(len(positive_probs))) * 1", "orientation")
add("C10", M, EG, "positive_probs = self._pmf_predict(X)[:, 1]", "positive_probs = self._pmf_predict(X)[:, 0]", "wrong column")
add("C10", M, IT, "return (positive_probs >= random_state.rand(len(positive_probs))) * 1", "return (positive_probs >= np.random.rand(len(positive_probs))) * 1", "unseeded")
add("C10", R, EG, "            return (positive_probs >= random_state.rand(len(positive_probs))) * 1", "            draws = random_state.rand(len(positive_probs))\n            return 1 * (draws <= positive_probs)", "mirrored comparison")
add("C10", R, IT, "        return (positive_probs >= random_state.rand(len(positive_probs))) * 1", "        return (positive_probs > random_state.rand(len(positive_probs))).astype(int)", "strict variant (null set)")

# ------------------------------------------------------------------ C11 / C14
add("C11", M, FM, "        sample_params={\"sample_weight\": sample_weight},\n    )\n    result = sel_rate.difference(method=method)", "        sample_params=None,\n    )\n    result = sel_rate.difference(method=method)", "weights dropped")
add("C14", M, BM, "    return tpr\n\n\ndef true_negative_rate", "    return fnr\n\n\ndef true_negative_rate", "wrong entry")
add("C14", M, BM, "        if pos_label == unique_labels[0]:\n            unique_labels = list(reversed(unique_labels))", "        if pos_label == unique_labels[1]:\n            unique_labels = list(reversed(unique_labels))", "label order")
add("C14", M, BM, "        s_w = _convert_to_ndarray_and_squeeze(sample_weight)\n\n    return np.dot(selected, s_w) / s_w.sum()", "        s_w = np.squeeze(np.asarray(sample_weight))\n\n    return np.dot(selected, s_w) / s_w.sum()", "F1")
add("C14", M, BM, "return np.dot(y_p, s_w) / s_w.sum()", "return np.dot(y_p, s_w) / len(s_w)", "denominator")
add("C14", R, BM, "    return np.dot(y_p, s_w) / s_w.sum()", "    total = np.sum(s_w)\n    return np.dot(s_w, y_p) / total", "commuted dot + np.sum")
add("C14", R, BM, "    return tpr\n\n\ndef true_negative_rate", "    rate = tpr\n    return rate\n\n\ndef true_negative_rate", "alias")

# ------------------------------------------------------------------ C12 / C13
add("C12", M, TO, "n_positive = labels.sum().iloc[0]", "n_positive = labels.sum().loc[0]", "F9")
add("C12", M, MF, "all_data[sf.name_] = list(sf.raw_feature_)", "all_data[sf.name_] = sf.raw_feature_", "series aligned into frame")
add("C12", M, MF, "all_data[col_name] = np.asarray(param_value)", "all_data[col_name] = param_value", "sample param aligned")
add("C12", M, TO, "    elif isinstance(additional_data, pd.Series):\n        data_dict[key] = additional_data.values", "    elif isinstance(additional_data, pd.Series):\n        data_dict[key] = additional_data", "series into frame dict")
add("C12", M, ER, "super().load_data(X, y_train, sensitive_features=sf_train)", "super().load_data(X, y, sensitive_features=sf_train)", "raw y passed on")
add("C12", R, MF, "            all_data[col_name] = np.asarray(param_value)", "            all_data[col_name] = np.array(param_value)", "other sanitiser")
add("C12", R, TO, "        data_dict[key] = additional_data.values", "        data_dict[key] = additional_data.to_numpy()", "other sanitiser")
add("C13", M, IV, ".replace(\"\\\\\", \"\\\\\\\\\").replace(", ".replace(", "backslash not escaped")
add("C13", M, IV, "feature_columns.astype(str)])", "feature_columns])", "no stringification")
add("C13", M, IV, "if len(control_features.shape) > 1 and control_features.shape[1] > 1:", "if len(control_features.shape) > 1 and control_features.shape[1] > 2:", "two columns not merged")
add("C13", M, UP, "_CTRL_EVENT_FORMAT = \"control={0},{1}\"", "_CTRL_EVENT_FORMAT = \"control={1},{0}\"", "event not last")
add("C13", R, IV, "                    _MERGE_COLUMN_SEPARATOR, f\"\\\\{_MERGE_COLUMN_SEPARATOR}\"", "                    _MERGE_COLUMN_SEPARATOR, \"\\\\\" + _MERGE_COLUMN_SEPARATOR", "string spelling")

# ------------------------------------------------------------------ C15 / C16 / C17
add("C15", M, CR, "X_sensitive.mean(axis=0)", "X_sensitive.mean()", "F6")
add("C15", M, CR, "return self.alpha * X_filtered + (1 - self.alpha) * X_use", "return (1 - self.alpha) * X_filtered + self.alpha * X_use", "blend swapped")
add("C15", M, CR, "return X[:, non_sensitive], X[:, sensitive]", "return X[:, sensitive], X[:, non_sensitive]", "split order")
add("C15", R, CR, "X_sensitive.mean(axis=0)", "np.mean(X_sensitive, axis=0)", "function spelling")
add("C15", R, CR, "        return self.alpha * X_filtered + (1 - self.alpha) * X_use", "        return X_use + self.alpha * (X_filtered - X_use)", "algebraic variant")
add("C16", M, PT, "proj = torch.sum(unit_dW_LA * dW_LP[i])", "proj = torch.sum(torch.inner(unit_dW_LA, dW_LP[i]))", "F8")
add("C16", M, PT, "p.grad = dW_LP[i] - (proj * unit_dW_LA) - (self.base.alpha * dW_LA[i])", "p.grad = dW_LP[i] - (proj * unit_dW_LA) + (self.base.alpha * dW_LA[i])", "sign")
add("C16", M, TF, "zip(dU_LA, self.adversary_model.trainable_variables)", "zip(dW_LA, self.adversary_model.trainable_variables)", "adversary routing")
add("C16", M, TF, "if self.base.pass_y_:\n                Y_hat = tensorflow.concat((Y_hat, Y), axis=1)", "if not self.base.pass_y_:\n                Y_hat = tensorflow.concat((Y_hat, Y), axis=1)", "pass_y inverted")
add("C16", R, PT, "            proj = torch.sum(unit_dW_LA * dW_LP[i])", "            proj = (dW_LP[i] * unit_dW_LA).sum()", "method spelling + commuted")
add("C16", R, TF, "            proj = tensorflow.reduce_sum(tensorflow.multiply(dW_LP[i], unit_dW_LA))", "            proj = tensorflow.reduce_sum(unit_dW_LA * dW_LP[i])", "operator spelling")
add("C16", R, PT, "            p.grad = dW_LP[i] - (proj * unit_dW_LA) - (self.base.alpha * dW_LA[i])", "            correction = proj * unit_dW_LA + self.base.alpha * dW_LA[i]\n            p.grad = dW_LP[i] - correction", "regrouped")
add("C17", M, ADV, "batches = ceil(X.shape[0] / batch_size)", "batches = X.shape[0] // batch_size", "floor")
add("C17", M, ADV, "if self.max_iter != -1 and self.n_iter_ >= self.max_iter:", "if self.max_iter != -1 and self.n_iter_ > self.max_iter:", "off by one")
add("C17", M, ADV, "return (pred >= self.threshold_value).astype(float)", "return (pred > self.threshold_value).astype(float)", "strict threshold")
add("C17", M, ADV, "c = argmax(pred, axis=1)", "c = argmax(pred, axis=0)", "argmax axis")
add("C17", M, ADV, "stop = stop or result", "stop = result", "stop not accumulated")
add("C17", R, ADV, "        batches = ceil(X.shape[0] / batch_size)", "        n_rows = X.shape[0]\n        batches = ceil(n_rows / batch_size)", "temporary")
add("C17", R, ADV, "                if self.max_iter != -1 and self.n_iter_ >= self.max_iter:", "                if self.n_iter_ >= self.max_iter and self.max_iter != -1:", "conjuncts swapped")

# ------------------------------------------------------------------ C18 / C19 / C20
add("C18", M, BS, "frac=1, replace=True, random_state=random_state, axis=0, ignore_index=True", "frac=1, replace=False, random_state=random_state, axis=0, ignore_index=True", "no replacement")
add("C18", M, BS, "            random_state=rs[i],", "            random_state=rs[0],", "same seed")
add("C18", M, BS, "result_np = np.nanquantile(samples, q=quantiles, axis=0)", "result_np = np.nanquantile(samples, q=quantiles, axis=1)", "axis")
add("C18", M, MF, "        return self._result_cache[\"group_max_ci\"]", "        return self._result_cache[\"group_min_ci\"]", "wrong key")
add("C18", R, BS, "        frac=1, replace=True, random_state=random_state, axis=0, ignore_index=True", "        n=len(data), replace=True, random_state=random_state, axis=0, ignore_index=True", "n=len instead of frac=1")
add("C19", M, GS, "            raise RuntimeError(\"Unsupported selection rule\")\n\n        return self", "            raise RuntimeError(\"Unsupported selection rule\")\n\n        return", "F5")
add("C19", M, TO, "self.estimator_ = clone(self.estimator)", "self.estimator_ = self.estimator", "un-copied fit")
add("C19", M, TO, "        self._predict_method = self.predict_method", "        self._predict_method = self.predict_method\n        self._cb = lambda s: s", "lambda stored")
add("C19", M, MO, "        self.X = X\n        self._y = y", "        if self.data_loaded:\n            raise RuntimeError(\"loaded\")\n        self.X = X\n        self._y = y", "latch (F4)")
add("C19", M, EG, "        check_is_fitted(self)\n        random_state = check_random_state(random_state)", "        check_is_fitted(self)\n        self.random_state_ = random_state = check_random_state(random_state)", "predict writes state")
add("C19", M, GS, "            grid = self.grid\n\n", "            grid = self.grid\n        self.grid = grid\n\n", "ctor param written")
add("C19", M, GS, "        self.predictors_ = []\n", "", "records accumulate across fits")
add("C19", M, EG, "        self.lambda_vecs_EG_ = pd.DataFrame()\n", "", "multiplier history accumulates across fits")
add("C19", R, GS, "            raise RuntimeError(\"Unsupported selection rule\")\n\n        return self", "            raise RuntimeError(\"Unsupported selection rule\")\n\n        result = self\n        return result", "alias return")
add("C20", M, IV, "if enforce_binary_labels and not set(np.unique(y)).issubset(set([0, 1])):", "if enforce_binary_labels and not set(np.unique(y)).issubset(set([0, 1, -1])):", "label set widened")
add("C20", M, IV, "        check_consistent_length(X, control_features)\n", "", "length check dropped")
add("C20", M, MF, "        check_consistent_length(y_true, y_pred)\n\n        y_t", "        y_t", "length check dropped")
add("C20", M, TC, "if n_positive == 0 or n_negative == 0:", "if n_positive == 0 and n_negative == 0:", "guard weakened")
add("C20", M, ER, "and costs[\"fp\"] + costs[\"fn\"] > 0.0", "and costs[\"fp\"] + costs[\"fn\"] >= 0.0", "region widened")
add("C20", M, GS, "if not (0.0 <= constraint_weight <= 1.0):", "if not (0.0 <= constraint_weight):", "region widened")
add("C20", R, IV, "        if enforce_binary_labels and not set(np.unique(y)).issubset(set([0, 1])):", "        if enforce_binary_labels and not set(np.unique(y)).issubset({0, 1}):", "set literal")
add("C20", R, GS, "            if not (0.0 <= constraint_weight <= 1.0):", "            if not (0.0 <= constraint_weight) or not (constraint_weight <= 1.0):", "De Morgan (NaN-preserving form)")
add("C20", R, TC, "    if n_positive == 0 or n_negative == 0:", "    if not (n_positive != 0 and n_negative != 0):", "De Morgan")

# ------------------------------------------------------------------ extract-method refactors (behaviour preserving)
add("C06", R, UP, "        self.U = pd.DataFrame(0, index=self.tags.index, columns=self.index)\n        for e, g in self.prob_group_event.index:",
    "        self._fill_U()\n\n    def _fill_U(self):\n        self.U = pd.DataFrame(0, index=self.tags.index, columns=self.index)\n        for e, g in self.prob_group_event.index:",
    "extract method: U matrix fill")
add("C07", R, UP, "        self.U = pd.DataFrame(0, index=self.tags.index, columns=self.index)\n        for e, g in self.prob_group_event.index:",
    "        self._fill_U()\n\n    def _fill_U(self):\n        self.U = pd.DataFrame(0, index=self.tags.index, columns=self.index)\n        for e, g in self.prob_group_event.index:",
    "extract method: U matrix fill")
add("C08", R, EG, "            theta += eta * (gamma - self.constraints.bound())",
    "            theta = self._step(theta, eta, gamma)",
    "extract method: theta step (helper added below)")
add("C16", R, PT, "            p.grad = dW_LP[i] - (proj * unit_dW_LA) - (self.base.alpha * dW_LA[i])",
    "            p.grad = self._combine(dW_LP[i], proj, unit_dW_LA, dW_LA[i])",
    "extract method: gradient combination (helper added below)")
add("C15", R, CR, "        X_s_center = X_sensitive - self.sensitive_mean_\n        self.beta_, _, _, _ = np.linalg.lstsq(X_s_center, X_use, rcond=None)",
    "        self.beta_ = self._solve(X_sensitive - self.sensitive_mean_, X_use)",
    "extract method: least squares (helper added below)")
add("C20", R, IV, "        if enforce_binary_labels and not set(np.unique(y)).issubset(set([0, 1])):\n            raise ValueError(_LABELS_NOT_0_1_ERROR_MESSAGE)",
    "        _check_binary(y, enforce_binary_labels)", "extract function: binary label guard (helper added below)")

# helper definitions that the extract-method refactors above rely on: (file, anchor, appended text)
EXTRA_EDITS = {
    "extract method: theta step (helper added below)": (EG, "    def predict(self, X, random_state=None):",
                                                         "    def _step(self, theta, eta, gamma):\n        return theta + eta * (gamma - self.constraints.bound())\n\n    def predict(self, X, random_state=None):"),
    "extract method: gradient combination (helper added below)": (PT, "    def get_optimizer(self, optim_param, model):",
                                                                   "    def _combine(self, g_p, proj, unit, g_a):\n        return g_p - (proj * unit) - (self.base.alpha * g_a)\n\n    def get_optimizer(self, optim_param, model):"),
    "extract method: least squares (helper added below)": (CR, "    def transform(self, X):",
                                                            "    def _solve(self, S, Z):\n        beta, _, _, _ = np.linalg.lstsq(S, Z, rcond=None)\n        return beta\n\n    def transform(self, X):"),
    "extract function: binary label guard (helper added below)": (IV, "def _merge_columns(feature_columns: np.ndarray) -> np.ndarray:",
                                                                   "def _check_binary(y, enforce):\n    if enforce and not set(np.unique(y)).issubset(set([0, 1])):\n        raise ValueError(_LABELS_NOT_0_1_ERROR_MESSAGE)\n\n\ndef _merge_columns(feature_columns: np.ndarray) -> np.ndarray:"),
}

add("C13", R, IV, "    return np.array([_join_names(row) for row in feature_columns.astype(str)])",
    "    merged = []\n    for row in feature_columns.astype(str):\n        merged.append(_join_names(row))\n    return np.array(merged)",
    "comprehension rewritten as an explicit loop")

from . import corpus2  # noqa: E402,F401  (sweep- and seed-derived mutants; extends CORPUS)
