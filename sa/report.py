"""Obligations -> verdict lines, evidence JSON, replay files."""
from __future__ import annotations

import ast
import json
import os
import time
from dataclasses import dataclass, field

from .model import AnalysisError, Program

VERIF = os.path.dirname(os.path.dirname(os.path.abspath(__file__)))


@dataclass
class Obligation:
    rule: str
    file: str
    qualname: str
    line: int
    construct: str
    status: str  # discharged | violated | undecidable
    explanation: str
    nontrivial: bool = True
    detail: dict = field(default_factory=dict)

    def key(self, prop):
        return (prop, self.rule, self.file, self.qualname, self.construct)

    def as_json(self):
        return {
            "rule": self.rule, "site": f"{self.file}:{self.line}", "qualname": self.qualname,
            "construct": self.construct, "status": self.status, "explanation": self.explanation,
            **({"detail": self.detail} if self.detail else {}),
        }


def norm_src(node) -> str:
    """Normalised text of a construct (formatting-independent key)."""
    if node is None:
        return ""
    if isinstance(node, str):
        return " ".join(node.split())
    try:
        return " ".join(ast.unparse(node).split())[:200]
    except Exception:
        return type(node).__name__


class RuleContext:
    def __init__(self, prop: str, prog: Program, tier: str, seed: int):
        self.prop = prop
        self.prog = prog
        self.tier = tier
        self.seed = seed
        self.obligations: list[Obligation] = []
        self.analysed_functions: set = set()
        self.events_seen = 0
        self.rule_texts: dict[str, str] = {}
        self.assumptions: list[str] = []
        self.trusted: list[str] = []
        self.notes: list[str] = []
        self.exhaustive_spaces: list[str] = []
        self.floors: list[tuple] = []
        self.extra: dict = {}
        self._seen_keys: set = set()
        self.duplicates = 0
        self.group_errors: list = []
        self.rule_alias = None

    # -- registration
    def rule(self, rid: str, text: str):
        if self.rule_alias is not None:
            if rid not in self.rule_alias:
                return
            rid = self.rule_alias[rid]
        self.rule_texts.setdefault(rid, " ".join(text.split()))

    def assume(self, text: str):
        if text not in self.assumptions:
            self.assumptions.append(text)

    def trust(self, text: str):
        if text not in self.trusted:
            self.trusted.append(text)

    def note(self, text: str):
        self.notes.append(text)

    def analysed(self, result):
        """Record what an Evaluator run covered."""
        self.analysed_functions.add(result.func)
        for e in result.events:
            self.analysed_functions.add(e.func)
        self.events_seen += len(result.events)

    def site(self, func_fq: str, node=None):
        mod, qual = func_fq.split(":", 1)
        rel = self.prog.modules[mod].relpath if mod in self.prog.modules else mod
        return rel, qual, getattr(node, "lineno", 0) if node is not None else getattr(
            self.prog.functions.get(func_fq, None) and self.prog.functions[func_fq].node, "lineno", 0)

    def ob(self, rule: str, func_fq: str, node, ok, explanation: str, construct=None, nontrivial=True, **detail):
        if self.rule_alias is not None:
            # a rule group shared with another property is running under that property's rule id
            if rule not in self.rule_alias:
                return None
            rule = self.rule_alias[rule]
        rel, qual, line = self.site(func_fq, node)
        status = "discharged" if ok is True else ("violated" if ok is False else "undecidable")
        o = Obligation(rule, rel, qual, line, norm_src(construct if construct is not None else node), status,
                       " ".join(str(explanation).split()), nontrivial, detail)
        k = (o.rule, o.file, o.qualname, o.construct, o.status)
        if k in self._seen_keys:
            # the same construct reached again (e.g. an inherited method analysed for a subclass)
            self.duplicates += 1
            return o
        self._seen_keys.add(k)
        self.obligations.append(o)
        return o

    def floor(self, rule: str, what: str, found: int, minimum: int):
        """A rule that matches fewer instances than confirmed by hand is an analysis error, not a pass."""
        if self.rule_alias is not None:
            if rule not in self.rule_alias:
                return
            rule = self.rule_alias[rule]
        self.floors.append((rule, what, found, minimum))
        if found < minimum:
            raise AnalysisError(f"{rule}: found {found} {what}, expected at least {minimum} (anchor vanished or unmodelled)")

    # -- rule groups on normal forms -----------------------------------------------------------------------------------
    def _snap(self):
        return (len(self.obligations), set(self._seen_keys), len(self.group_errors), len(self.floors), len(self.exhaustive_spaces),
                len(self.notes), self.duplicates)

    def _restore(self, sn):
        del self.obligations[sn[0]:]
        self._seen_keys = set(sn[1])
        del self.group_errors[sn[2]:]
        del self.floors[sn[3]:]
        del self.exhaustive_spaces[sn[4]:]
        del self.notes[sn[5]:]
        self.duplicates = sn[6]

    def _failed_since(self, sn) -> bool:
        if len(self.group_errors) > sn[2]:
            return True
        known = getattr(self, "_known_cache", None)
        if known is None:
            known = self._known_cache = [k for k in load_known() if k.get("property") == self.prop and k.get("status") == "known"]
        for o in self.obligations[sn[0]:]:
            if o.status == "undecidable":
                return True
            if o.status == "violated" and not any(k.get("rule") == o.rule and k.get("file") == o.file and k.get("qualname") == o.qualname
                                                  and k.get("construct") == o.construct for k in known):
                return True
        return False

    def guard(self, fn, *args, **kwargs):
        """Run one rule group (see _guard1).  When the group does not pass on the tree as written, it is run again on
        semantics-preserving normal forms of the package (sa/normalize.py); it is discharged if it passes on one of them,
        otherwise the findings of the run on the tree as written stand."""
        depth = getattr(self, "_nf_depth", 0)
        if depth >= 2 or os.environ.get("SA_NO_NORMAL_FORMS"):
            return self._guard1(fn, *args, **kwargs)
        sn = self._snap()
        before = set(self.analysed_functions)
        res = self._guard1(fn, *args, **kwargs)
        if not self._failed_since(sn) or self.prog is None or not hasattr(self.prog, "modules"):
            return res
        # only normal forms that change a module this group looked at can make a difference
        mods = {f.split(":")[0] for f in (self.analysed_functions - before)} or {f.split(":")[0] for f in self.analysed_functions}
        from .normalize import VARIANTS, variant_program
        kept = (self.obligations[sn[0]:], set(self._seen_keys), self.group_errors[sn[2]:], self.floors[sn[3]:],
                self.exhaustive_spaces[sn[4]:], self.notes[sn[5]:], self.duplicates)
        # a nested group chooses its normal form independently of the enclosing one: always a normal form of the tree as written
        prog_here = self.prog
        prog0 = getattr(self, "_base_prog", None) or self.prog
        outer_base = getattr(self, "_base_prog", None)
        self._base_prog = prog0
        # the tree as written left the group undecided (no finding, only unrecognised constructs): a normal form on which the group
        # is fully decided with a finding reports that finding - the normal forms are behaviour-preserving, so it is one of the tree
        # ... and, more generally, when no normal form passes, the findings reported are those of the form (the tree as written
        # included) that is closest to passing: fewest unrecognised constructs, then fewest findings.  A slip inside a refactoring
        # is then reported as the slip, not as the shapes the refactoring changed.
        def badness(obs, n_err):
            return (n_err + sum(1 for o in obs if o.status == "undecidable"), sum(1 for o in obs if o.status == "violated"))
        best = badness(kept[0], len(kept[2]))
        decided_v = None
        for v in VARIANTS:
            try:
                vp = variant_program(prog0, v, mods)
            except Exception:  # noqa: BLE001 - a normal form that cannot be built is skipped
                vp = None
            if vp is None:
                continue
            self._restore(sn)
            self.prog, self._nf_depth = vp, depth + 1
            try:
                res_v = self._guard1(fn, *args, **kwargs)
            finally:
                self.prog, self._nf_depth = prog_here, depth
            if not self._failed_since(sn):
                self._base_prog = outer_base
                self.notes.append(f"{getattr(fn, '__name__', 'rule group')}: not recognised on the tree as written, discharged on its "
                                  f"normal form '{v}' (sa/normalize.py)")
                self.normal_forms_used = getattr(self, "normal_forms_used", 0) + 1
                return res_v
            b_v = badness(self.obligations[sn[0]:], len(self.group_errors) - sn[2])
            if b_v < best:
                best = b_v
                decided_v = (self.obligations[sn[0]:], set(self._seen_keys), self.group_errors[sn[2]:], self.floors[sn[3]:],
                             self.exhaustive_spaces[sn[4]:],
                             self.notes[sn[5]:] + [f"{getattr(fn, '__name__', 'rule group')}: findings are those of the normal form '{v}' "
                                                   "(sa/normalize.py), the closest to passing"], self.duplicates)
        self._base_prog = outer_base
        self._restore(sn)
        if decided_v is not None:
            kept = decided_v
        self.obligations.extend(kept[0])
        self._seen_keys = kept[1]
        self.group_errors.extend(kept[2])
        self.floors.extend(kept[3])
        self.exhaustive_spaces.extend(kept[4])
        self.notes.extend(kept[5])
        self.duplicates = kept[6]
        return res

    def _guard1(self, fn, *args, **kwargs):
        """Run one rule group; an AnalysisError (vanished anchor / unmodelled construct / floor) or a crash inside it
        becomes an `undecidable` obligation (exit 2 unless a violation is found elsewhere) and the other groups still run."""
        import traceback
        try:
            return fn(*args, **kwargs)
        except AnalysisError as e:
            self.group_errors.append(f"{getattr(fn, '__name__', 'rule')}: {e}")
        except Exception as e:  # noqa: BLE001
            tb = traceback.format_exc().strip().splitlines()
            self.group_errors.append(f"{getattr(fn, '__name__', 'rule')}: analyser crashed: {type(e).__name__}: {e} @ "
                                     f"{tb[-3].strip() if len(tb) >= 3 else ''}")
            if os.environ.get("SA_DEBUG"):
                traceback.print_exc()
        return None

    def aliased(self, alias: dict, fn, *args, **kwargs):
        """Run a rule group of another property; its obligations are reported under this property's rule ids."""
        prev = self.rule_alias
        self.rule_alias = dict(alias)
        try:
            return self.guard(fn, *args, **kwargs)
        finally:
            self.rule_alias = prev

    def require(self, cond, msg: str):
        if not cond:
            raise AnalysisError(msg)
        return cond


def load_known():
    path = os.path.join(VERIF, "known_findings.json")
    if not os.path.exists(path):
        return []
    with open(path) as f:
        return json.load(f).get("findings", [])


def finish(ctx: RuleContext, t0: float, error: str | None = None, evidence_dir=None, write=True) -> int:
    prop = ctx.prop
    known = [k for k in load_known() if k.get("property") == prop and k.get("status") == "known"]
    violated = [o for o in ctx.obligations if o.status == "violated"]
    undecid = [o for o in ctx.obligations if o.status == "undecidable"]
    evidence_dir = evidence_dir or os.path.join(VERIF, "evidence")
    os.makedirs(os.path.join(evidence_dir, "replay"), exist_ok=True)
    lines = []
    new_viol = []
    known_hit = []
    for o in violated:
        hit = None
        for k in known:
            if k.get("rule") == o.rule and k.get("file") == o.file and k.get("qualname") == o.qualname \
                    and k.get("construct") == o.construct:
                hit = k
                break
        if hit is not None:
            known_hit.append((o, hit))
        else:
            new_viol.append(o)
    for o, k in known_hit:
        lines.append(f"KNOWN-FINDING: property={prop} {o.rule} {o.file} {o.qualname}: {k.get('what', o.explanation)}")
    for i, o in enumerate(new_viol):
        rp = os.path.join(evidence_dir, "replay", f"{prop}-{i}.json")
        if write:
            with open(rp, "w") as f:
                json.dump({"property": prop, "tier": ctx.tier, "root": ctx.prog.root, "obligation": o.as_json(),
                           "rule_text": ctx.rule_texts.get(o.rule, "")}, f, indent=1)
        lines.append(f"  {o.file}:{o.line} {o.qualname} [{o.rule}] {o.explanation}")
        lines.append(f"VIOLATION property={prop} replay={rp}")
    code = 0
    if new_viol:
        code = 1
    for ge in ctx.group_errors:
        lines.append(f"ANALYSIS-ERROR property={prop} {ge}")
        code = 2 if code == 0 else code
    if error is not None:
        lines.append(f"ANALYSIS-ERROR property={prop} {error}")
        code = 2 if code == 0 else code
    elif undecid and code == 0:
        for o in undecid:
            lines.append(f"ANALYSIS-ERROR property={prop} {o.rule} {o.file}:{o.line} {o.qualname}: {o.explanation}")
        code = 2
    n_ob = len(ctx.obligations)
    n_dis = sum(1 for o in ctx.obligations if o.status == "discharged")
    distinct = {(o.rule, o.file, o.qualname, o.construct) for o in ctx.obligations if o.nontrivial}
    samples = [o.as_json() for o in ctx.obligations[:6]]
    for o in violated[:4]:
        if o.as_json() not in samples:
            samples.append(o.as_json())
    ev = {
        "property_id": prop,
        "tier": ctx.tier,
        "seed": ctx.seed,
        "level": "other",
        "coverage": {
            "explanation": (
                "Static analysis of the current working tree (ast only, nothing imported or run): the rules below "
                "were evaluated on the resolved program model; each obligation names file, function and construct. "
                "Only the structural clauses named in the rules are decided, not the runtime behaviour."
            ),
            "obligations": n_ob,
            "discharged": n_dis,
            "evaluations": max(n_ob, 0),
            "distinct_nontrivial": len(distinct),
            "rule": "one obligation per (rule, construct) instance found in the tree; non-trivial = the obligation "
                    "inspected at least one real construct of /repo; distinct = distinct (rule, file, function, construct)",
            "samples": samples,
            "rules": ctx.rule_texts,
            "functions_analysed": sorted(ctx.analysed_functions),
            "n_functions_analysed": len(ctx.analysed_functions),
            "events_inspected": ctx.events_seen,
            "duplicate_obligations_merged": ctx.duplicates,
            "floors": [{"rule": r, "what": w, "found": f, "minimum": m} for r, w, f, m in ctx.floors],
            "trusted_base": ctx.trusted,
            "known_findings_reported": [o.as_json() for o, _ in known_hit],
            "violations_reported": [o.as_json() for o in new_viol],
            "undecidable": [o.as_json() for o in undecid],
            "all_obligations": [o.as_json() for o in ctx.obligations],
            "notes": ctx.notes,
            "tree_digest": ctx.prog.digest if ctx.prog else "",
            "root": ctx.prog.root if ctx.prog else "",
            **({"exhaustive": True, "exhaustive_spaces": ctx.exhaustive_spaces} if ctx.exhaustive_spaces else {}),
            **ctx.extra,
        },
        "assumptions": ctx.assumptions,
        "wall_s": round(time.time() - t0, 3),
        "violations": len(new_viol),
    }
    if error is not None or ctx.group_errors:
        ev["coverage"]["analysis_error"] = "; ".join(([error] if error else []) + ctx.group_errors)
    if write:
        with open(os.path.join(evidence_dir, f"{prop}.json"), "w") as f:
            json.dump(ev, f, indent=1, default=str)
    print(f"[{prop}] tier={ctx.tier} obligations={n_ob} discharged={n_dis} violated={len(violated)} "
          f"(known={len(known_hit)}) undecidable={len(undecid)} functions={len(ctx.analysed_functions)} "
          f"wall={ev['wall_s']}s")
    for ln in lines:
        print(ln)
    return code
