"""D-REGION: exact evaluation of guards on a finite partition of the argument space.

Guards whose operands are only compared with constants / with each other are constant on each order
cell, so evaluating the guard's *term* with a small private evaluator on one witness per cell is exact.
This module never runs code of /repo: it interprets terms built from the syntax tree.
"""
from __future__ import annotations

import itertools

from .terms import T, const_value


class Unmodelled(Exception):
    """The term uses an operator this evaluator does not model (=> undecidable, never 'violated')."""


class Raised(Exception):
    """Concrete evaluation reached an operation that raises in Python (e.g. `0 < None`)."""


_TYPES = {
    "builtins.dict": dict, "builtins.list": list, "builtins.tuple": tuple, "builtins.str": str, "builtins.int": int,
    "builtins.float": float, "builtins.bool": bool, "builtins.set": set,
}


_MISSING = object()


def _CALLABLE(*a, **k):  # placeholder for function values met while evaluating tables
    raise Unmodelled("call of an opaque function value")


def concrete(t: T, env: dict, funcs: dict | None = None):
    """Evaluate term t; env maps atom terms (by identity) to Python values."""
    funcs = funcs or {}

    def ev(x: T):
        if x in env:
            return env[x]
        op, a = x.op, x.args
        if op == "const":
            return const_value(x)
        if op in ("tuple", "list"):
            v = [ev(y) for y in a[0]]
            return tuple(v) if op == "tuple" else v
        if op == "set":
            return {ev(y) for y in a[0]}
        if op == "dict":
            return {ev(k): ev(v) for k, v in a[0]}
        if op in ("modconst", "assume"):
            return ev(a[1])
        if op == "listappend":
            return list(ev(a[0])) + [ev(a[1])]
        if op == "listextend":
            return list(ev(a[0])) + list(ev(a[1]))
        if op == "not":
            return not ev(a[0])
        if op == "and":
            r = True
            for y in a[0]:
                r = ev(y)
                if not r:
                    return r
            return r
        if op == "or":
            r = False
            for y in a[0]:
                r = ev(y)
                if r:
                    return r
            return r
        if op == "ite":
            return ev(a[1]) if ev(a[0]) else ev(a[2])
        if op == "cmp":
            o, l, r = a[0], ev(a[1]), ev(a[2])
            try:
                if o == "==":
                    return l == r
                if o == "!=":
                    return l != r
                if o == "<":
                    return l < r
                if o == "<=":
                    return l <= r
                if o == ">":
                    return l > r
                if o == ">=":
                    return l >= r
                if o == "is":
                    return l is r
                if o == "is not":
                    return l is not r
                if o == "in":
                    return l in r
                if o == "not in":
                    return l not in r
            except TypeError:
                raise Raised(f"{o} on {type(l).__name__}/{type(r).__name__}")
            raise Unmodelled(o)
        if op == "binop":
            o, l, r = a[0], ev(a[1]), ev(a[2])
            try:
                if o == "+":
                    return l + r
                if o == "-":
                    return l - r
                if o == "*":
                    return l * r
                if o == "/":
                    return l / r
                if o == "**":
                    return l ** r
                if o == "//":
                    return l // r
                if o == "%":
                    return l % r
            except (TypeError, ZeroDivisionError) as e:
                raise Raised(str(e))
            raise Unmodelled(o)
        if op == "unop":
            v = ev(a[1])
            try:
                return {"-": lambda z: -z, "+": lambda z: +z}[a[0]](v)
            except KeyError:
                raise Unmodelled(a[0])
            except TypeError as e:
                raise Raised(str(e))
        if op == "sub":
            b, k = ev(a[0]), ev(a[1])
            try:
                return b[k]
            except (KeyError, IndexError, TypeError) as e:
                raise Raised(f"subscript: {e}")
        if op == "global":
            n = a[0]
            if n in _TYPES:
                return _TYPES[n]
            if n in funcs:
                return funcs[n]
            if n.startswith("builtins.") and n.count(".") == 1:
                import builtins as _b
                if hasattr(_b, n[9:]):
                    return getattr(_b, n[9:])   # a builtin used as a value (e.g. a table {"min": min})
            raise Unmodelled(n)
        if op == "call":
            f, args, kwargs = a
            if f.op == "global":
                n = f.args[0]
                if n == "builtins.isinstance":
                    return isinstance(ev(args[0]), ev(args[1]))
                if n == "builtins.len":
                    return len(ev(args[0]))
                if n == "builtins.callable":
                    return callable(ev(args[0]))
                if n == "builtins.bool" and len(args) == 1 and not kwargs:
                    return bool(ev(args[0]))
                if n == "builtins.set":
                    return set(ev(args[0])) if args else set()
                if n == "builtins.abs":
                    return abs(ev(args[0]))
                if n in ("builtins.list", "builtins.frozenset", "builtins.tuple", "builtins.reversed", "builtins.sorted"):
                    fn = {"list": list, "frozenset": frozenset, "tuple": tuple, "reversed": reversed, "sorted": sorted}[n.split(".")[1]]
                    return fn(ev(args[0])) if args else fn()
                if n in ("builtins.any", "builtins.all", "builtins.sum"):
                    try:
                        return {"any": any, "all": all, "sum": sum}[n.split(".")[1]](ev(args[0]))
                    except TypeError as e_:
                        raise Raised(str(e_))
                if n in ("builtins.max", "builtins.min"):
                    vals = [ev(y) for y in args]
                    return (max if n.endswith("max") else min)(*vals)
                if n in funcs:
                    return funcs[n](*[ev(y) for y in args], **{k: ev(v) for k, v in kwargs})
                raise Unmodelled(n)
            if f.op == "attr":
                recv = ev(f.args[0])
                m = f.args[1]
                if isinstance(recv, dict) and m in ("keys", "get", "values", "items"):
                    return getattr(recv, m)(*[ev(y) for y in args])
                if isinstance(recv, (set, frozenset)) and m in ("issubset", "issuperset", "isdisjoint"):
                    return getattr(recv, m)(*[ev(y) for y in args])
                if isinstance(recv, str) and m in ("lower", "upper", "startswith", "endswith", "format", "join", "strip"):
                    return getattr(recv, m)(*[ev(y) for y in args], **{k: ev(v) for k, v in kwargs})
                key = "." + m
                if key in funcs:
                    return funcs[key](recv, *[ev(y) for y in args], **{k: ev(v) for k, v in kwargs})
                raise Unmodelled("." + m)
            raise Unmodelled(f.op)
        if op in ("lam", "lambda", "closure", "boundmethod"):
            return _CALLABLE  # an opaque callable: only its presence (e.g. as a table value) can matter
        if op == "comp":
            # comprehension / generator expression with one `for`: the bound variable occurs as elem(<iterable term>)
            kind, body, gens = a[0], a[1], a[2]
            if len(gens) != 1:
                raise Unmodelled("nested comprehension")
            it, conds = gens[0]
            from .terms import mk as _mk
            var = _mk("elem", it)
            out = []
            saved = env.get(var, _MISSING)
            try:
                for xv in ev(it):
                    env[var] = xv
                    if all(ev(c_) for c_ in conds):
                        out.append(ev(body))
            finally:
                if saved is _MISSING:
                    env.pop(var, None)
                else:
                    env[var] = saved
            if kind == "set":
                return set(out)
            if kind == "dict":
                return dict(out)
            return out
        if op == "kv":
            return (ev(a[0]), ev(a[1]))
        if op == "dictkeys":
            return ev(a[0]).keys()
        if op == "attr":
            base = ev(a[0])
            try:
                return getattr(base, a[1])
            except AttributeError:
                raise Unmodelled("attr " + a[1])
        raise Unmodelled(op)

    return ev(t)


def pc_holds(pc, env, funcs=None) -> bool:
    for c in pc:
        if not concrete(c, env, funcs):
            return False
    return True


def cells(**axes):
    """Cartesian product of named witness lists -> list of dicts."""
    names = list(axes)
    out = []
    for combo in itertools.product(*[axes[n] for n in names]):
        out.append(dict(zip(names, combo)))
    return out


def specialise(t: T, env: dict, funcs=None) -> T:
    """Rewrite t by resolving every ite / assume whose condition is decided by the concrete environment."""
    from .terms import mk
    memo = {}

    def go(x):
        if isinstance(x, tuple):
            return tuple(go(y) for y in x)
        if not isinstance(x, T):
            return x
        r = memo.get(x.uid)
        if r is not None:
            return r
        if x.op == "assume":
            r = go(x.args[1])
        elif x.op == "ite":
            try:
                c = concrete(x.args[0], env, funcs)
                r = go(x.args[1]) if c else go(x.args[2])
            except (Unmodelled, Raised, KeyError, TypeError):
                r = mk("ite", go(x.args[0]), go(x.args[1]), go(x.args[2]))
        else:
            r = mk(x.op, *[go(y) for y in x.args])
        memo[x.uid] = r
        return r

    return go(t)
