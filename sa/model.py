"""Program model: parse every fairlearn/**/*.py, resolve imports, build class/function tables.

Nothing is imported or executed: the model is built from `ast` only.
"""
from __future__ import annotations

import ast
import hashlib
import os
from dataclasses import dataclass, field

PKG = "fairlearn"


class AnalysisError(Exception):
    """Raised when an anchor vanished or a construct cannot be modelled (exit code 2)."""


@dataclass
class FunctionInfo:
    fq: str  # module:Qual.name
    module: str
    qualname: str
    name: str
    node: ast.AST
    cls: str | None  # fq of the class that defines it (module:Class) or None
    parent_func: str | None = None
    decorators: tuple = ()

    @property
    def is_property(self):
        return "property" in self.decorators

    @property
    def is_static(self):
        return "staticmethod" in self.decorators

    @property
    def is_classmethod(self):
        return "classmethod" in self.decorators

    def params(self):
        a = self.node.args
        names = [x.arg for x in a.posonlyargs + a.args]
        return names

    def all_param_names(self):
        a = self.node.args
        names = [x.arg for x in a.posonlyargs + a.args + a.kwonlyargs]
        if a.vararg:
            names.append(a.vararg.arg)
        if a.kwarg:
            names.append(a.kwarg.arg)
        return names


@dataclass
class ClassInfo:
    fq: str
    module: str
    name: str
    node: ast.ClassDef
    bases: list  # resolved dotted names (in-repo: module:Class, external: dotted path)
    methods: dict = field(default_factory=dict)  # name -> FunctionInfo
    class_attrs: dict = field(default_factory=dict)  # name -> ast expr


@dataclass
class ModuleInfo:
    name: str
    path: str
    relpath: str
    tree: ast.Module
    source: str
    is_pkg: bool
    imports: dict = field(default_factory=dict)  # local name -> dotted target ("numpy", "pkg.mod:attr")
    assigns: dict = field(default_factory=dict)  # module-level simple name -> ast expr (last assignment)
    functions: dict = field(default_factory=dict)  # name -> FunctionInfo (top level)
    classes: dict = field(default_factory=dict)  # name -> ClassInfo


def _decorator_names(node):
    out = []
    for d in node.decorator_list:
        if isinstance(d, ast.Name):
            out.append(d.id)
        elif isinstance(d, ast.Attribute):
            out.append(d.attr)
        elif isinstance(d, ast.Call):
            f = d.func
            out.append(f.id if isinstance(f, ast.Name) else getattr(f, "attr", "?"))
    return tuple(out)


class Program:
    OVERLAY: dict = {}

    def __init__(self, root: str):
        self.root = os.path.abspath(root)
        self.modules: dict[str, ModuleInfo] = {}
        self.functions: dict[str, FunctionInfo] = {}
        self.classes: dict[str, ClassInfo] = {}
        self.digest = ""
        self._load()
        self._index()

    # ------------------------------------------------------------------ loading
    def _load(self):
        pkgdir = os.path.join(self.root, PKG)
        if not os.path.isdir(pkgdir):
            raise AnalysisError(f"package directory {pkgdir} not found")
        h = hashlib.sha256()
        for dirpath, dirnames, filenames in os.walk(pkgdir):
            dirnames.sort()
            for fn in sorted(filenames):
                if not fn.endswith(".py"):
                    continue
                path = os.path.join(dirpath, fn)
                rel = os.path.relpath(path, self.root)
                parts = rel[:-3].split(os.sep)
                is_pkg = parts[-1] == "__init__"
                if is_pkg:
                    parts = parts[:-1]
                modname = ".".join(parts)
                if rel in self.OVERLAY:  # in-memory variant of one file (tools/mutsweep.py only; registered checks never set it)
                    src = self.OVERLAY[rel]
                else:
                    with open(path, "r", encoding="utf-8") as f:
                        src = f.read()
                h.update(rel.encode())
                h.update(src.encode())
                try:
                    tree = ast.parse(src, filename=path)
                except SyntaxError as e:  # the tree under analysis must at least compile
                    raise AnalysisError(f"cannot parse {rel}: {e}")
                self.modules[modname] = ModuleInfo(modname, path, rel, tree, src, is_pkg)
        self.digest = h.hexdigest()

    def _abs_module(self, cur: ModuleInfo, level: int, module: str | None) -> str:
        if level == 0:
            return module or ""
        parts = cur.name.split(".")
        if not cur.is_pkg:
            parts = parts[:-1]
        if level > 1:
            parts = parts[: len(parts) - (level - 1)]
        if module:
            parts = parts + module.split(".")
        return ".".join(parts)

    def _collect_imports(self, mod: ModuleInfo, body, into: dict):
        for st in body:
            if isinstance(st, ast.Import):
                for a in st.names:
                    if a.asname:
                        into[a.asname] = a.name
                    else:
                        into[a.name.split(".")[0]] = a.name.split(".")[0]
            elif isinstance(st, ast.ImportFrom):
                base = self._abs_module(mod, st.level, st.module)
                for a in st.names:
                    into[a.asname or a.name] = f"{base}:{a.name}"
            elif isinstance(st, (ast.If, ast.Try)):
                for blk in ("body", "orelse", "finalbody"):
                    self._collect_imports(mod, getattr(st, blk, []), into)
                for hnd in getattr(st, "handlers", []):
                    self._collect_imports(mod, hnd.body, into)

    def _index(self):
        for mod in self.modules.values():
            self._collect_imports(mod, mod.tree.body, mod.imports)
            for st in mod.tree.body:
                if isinstance(st, ast.Assign) and len(st.targets) == 1 and isinstance(st.targets[0], ast.Name):
                    mod.assigns[st.targets[0].id] = st.value
                elif isinstance(st, ast.AnnAssign) and isinstance(st.target, ast.Name) and st.value is not None:
                    mod.assigns[st.target.id] = st.value
                elif isinstance(st, (ast.FunctionDef, ast.AsyncFunctionDef)):
                    self._add_function(mod, st, None, st.name, None)
                elif isinstance(st, ast.ClassDef):
                    self._add_class(mod, st)
        # lazy imports: `global X` + `import X` inside a function rebinds the module-level placeholder X = None
        for mod in self.modules.values():
            for fn in ast.walk(mod.tree):
                if not isinstance(fn, (ast.FunctionDef, ast.AsyncFunctionDef)):
                    continue
                globs = {n for st in ast.walk(fn) if isinstance(st, ast.Global) for n in st.names}
                if not globs:
                    continue
                for st in ast.walk(fn):
                    if isinstance(st, ast.Import):
                        for a in st.names:
                            local = a.asname or a.name.split(".")[0]
                            if local in globs:
                                mod.imports[local] = a.name if a.asname else a.name.split(".")[0]
                                mod.assigns.pop(local, None)
        # resolve bases after every module is indexed
        for ci in self.classes.values():
            mod = self.modules[ci.module]
            ci.bases = [self.resolve_expr_name(mod, b) for b in ci.node.bases]

    def _add_function(self, mod, node, cls_fq, qualname, parent_func):
        fq = f"{mod.name}:{qualname}"
        fi = FunctionInfo(fq, mod.name, qualname, node.name, node, cls_fq, parent_func, _decorator_names(node))
        self.functions[fq] = fi
        if cls_fq is None and parent_func is None:
            mod.functions[node.name] = fi
        # nested functions (for call resolution inside their parent)
        for sub in ast.walk(node):
            if sub is node:
                continue
        for st in self._direct_nested_defs(node):
            self._add_function(mod, st, None, f"{qualname}.<locals>.{st.name}", fq)
        return fi

    @staticmethod
    def _direct_nested_defs(node):
        out = []

        def visit(n):
            for ch in ast.iter_child_nodes(n):
                if isinstance(ch, (ast.FunctionDef, ast.AsyncFunctionDef)):
                    out.append(ch)
                elif isinstance(ch, (ast.ClassDef, ast.Lambda)):
                    continue
                else:
                    visit(ch)

        visit(node)
        return out

    def _add_class(self, mod, node):
        fq = f"{mod.name}:{node.name}"
        ci = ClassInfo(fq, mod.name, node.name, node, [])
        self.classes[fq] = ci
        mod.classes[node.name] = ci
        for st in node.body:
            if isinstance(st, (ast.FunctionDef, ast.AsyncFunctionDef)):
                fi = self._add_function(mod, st, fq, f"{node.name}.{st.name}", None)
                # property setters share the name; keep the getter (first definition)
                if st.name not in ci.methods or "setter" not in fi.decorators:
                    if st.name in ci.methods and "setter" in _decorator_names(st):
                        continue
                    ci.methods[st.name] = fi
            elif isinstance(st, ast.Assign) and len(st.targets) == 1 and isinstance(st.targets[0], ast.Name):
                ci.class_attrs[st.targets[0].id] = st.value

    # ------------------------------------------------------------------ resolution
    def resolve_name(self, modname: str, name: str, _seen=None) -> str:
        """Resolve a module-level identifier to a canonical dotted name.

        In-repo objects are 'module:Qual'; external ones 'numpy.asarray' style.
        """
        _seen = _seen or set()
        key = (modname, name)
        if key in _seen:
            return f"{modname}:{name}"
        _seen.add(key)
        mod = self.modules.get(modname)
        if mod is None:
            return f"{modname}.{name}" if modname else name
        if name in mod.functions or name in mod.classes:
            return f"{modname}:{name}"
        if name in mod.imports:
            tgt = mod.imports[name]
            if ":" in tgt:
                m, a = tgt.split(":")
                if m in self.modules:
                    # importing a submodule from a package?
                    if f"{m}.{a}" in self.modules and a not in self.modules[m].functions \
                            and a not in self.modules[m].classes and a not in self.modules[m].assigns \
                            and a not in self.modules[m].imports:
                        return f"{m}.{a}"
                    return self.resolve_name(m, a, _seen)
                return f"{m}.{a}"
            return tgt
        if name in mod.assigns:
            return f"{modname}:{name}"
        return f"{modname}:{name}"

    def resolve_expr_name(self, mod: ModuleInfo, expr) -> str:
        """Resolve Name / dotted Attribute chains used as a global reference."""
        if isinstance(expr, ast.Name):
            if expr.id in mod.imports or expr.id in mod.functions or expr.id in mod.classes or expr.id in mod.assigns:
                return self.resolve_name(mod.name, expr.id)
            return f"builtins.{expr.id}"
        if isinstance(expr, ast.Attribute):
            base = self.resolve_expr_name(mod, expr.value)
            if base in self.modules:
                return self.resolve_name(base, expr.attr)
            if ":" in base:
                return f"{base}.{expr.attr}"
            return f"{base}.{expr.attr}"
        if isinstance(expr, ast.Subscript):
            return self.resolve_expr_name(mod, expr.value)
        return "?"

    def module_const_expr(self, dotted: str):
        """Return (ModuleInfo, ast expr) for an in-repo module-level assignment 'mod:name'."""
        if ":" not in dotted:
            return None
        m, a = dotted.split(":", 1)
        mod = self.modules.get(m)
        if mod and a in mod.assigns:
            return mod, mod.assigns[a]
        return None

    # ------------------------------------------------------------------ classes
    def mro(self, cls_fq: str) -> list:
        """C3 linearisation over in-repo classes; external bases are kept as leaves."""
        memo = {}

        def lin(c):
            if c in memo:
                return memo[c]
            ci = self.classes.get(c)
            if ci is None:
                memo[c] = [c]
                return memo[c]
            seqs = [list(lin(b)) for b in ci.bases] + [list(ci.bases)]
            res = [c]
            while True:
                seqs = [s for s in seqs if s]
                if not seqs:
                    break
                cand = None
                for s in seqs:
                    h = s[0]
                    if not any(h in t[1:] for t in seqs):
                        cand = h
                        break
                if cand is None:
                    raise AnalysisError(f"inconsistent MRO for {c}")
                res.append(cand)
                for s in seqs:
                    if s[0] == cand:
                        del s[0]
            memo[c] = res
            return res

        return lin(cls_fq)

    def lookup_method(self, cls_fq: str, name: str, after: str | None = None):
        """Find `name` along the MRO of cls_fq (starting after class `after` if given)."""
        mro = self.mro(cls_fq)
        start = 0
        if after is not None:
            if after in mro:
                start = mro.index(after) + 1
            else:
                return None
        for c in mro[start:]:
            ci = self.classes.get(c)
            if ci and name in ci.methods:
                return ci.methods[name]
        return None

    def is_subclass(self, cls_fq: str, base: str) -> bool:
        return any(c == base or c.endswith(":" + base) or c.endswith("." + base) for c in self.mro(cls_fq))

    def subclasses(self, base_fq: str):
        return [c for c in self.classes if base_fq in self.mro(c)]

    def ctor_params(self, cls_fq: str):
        fi = self.lookup_method(cls_fq, "__init__")
        if fi is None:
            return []
        a = fi.node.args
        return [x.arg for x in (a.posonlyargs + a.args)[1:]] + [x.arg for x in a.kwonlyargs]

    def func(self, fq: str) -> FunctionInfo:
        fi = self.functions.get(fq)
        if fi is None:
            raise AnalysisError(f"anchor vanished: function {fq} not found")
        return fi

    def cls(self, fq: str) -> ClassInfo:
        ci = self.classes.get(fq)
        if ci is None:
            raise AnalysisError(f"anchor vanished: class {fq} not found")
        return ci

    def relpath_of(self, fq: str) -> str:
        m = fq.split(":")[0]
        return self.modules[m].relpath if m in self.modules else m
