"""Which properties are claimed, with the manifest texts (single source for tools/gen_manifest.py)."""

TRUSTED = ("Trusted base: Python's ast module; the semantics of the numpy / pandas / sklearn / torch / tensorflow "
           "operations as encoded in the analyser's alias and transfer tables (sa/alg.py, sa/labels.py, sa/shape.py); "
           "in-repo code is analysed from source, never imported or run. Aliasing between distinct local names is not "
           "tracked; opaque calls are assumed pure except for the modelled autograd protocol.")

CLAIMED = {}
NOT_APPLICABLE = {}
PENDING = set()


PURITY = (" Cross-cutting clause Rnn.P: no function analysed for this property updates one of its arguments (or a view of "
          "one) in place; aliasing is tracked through numpy / pandas view operations and second local names only.")


def claim(pid, text, note, technique, design_ref):
    CLAIMED[pid] = dict(text=text + ("" if pid == "C20" else PURITY), note=note + " " + TRUSTED,
                        technique=technique + ("" if pid == "C20" else ", in-place-update / alias scan"), design_ref=design_ref)


GVN = "abstract term builder over ast (branch-merging, loop-summarising) + rational-function normal forms (value numbering)"

claim("C01",
      "Decides structural necessary conditions of exact disaggregation for every input: all per-sample inputs become "
      "position-only columns of the one frame handed to the disaggregation (and the bootstrap), the metric wrapper takes "
      "every argument from the same sub-frame through the writer's column mapping, grouping keys / Cartesian re-index / no "
      "fill-or-drop, and the cache plumbing of overall / by_group. Does not evaluate metrics on values."
      " Also: routing of sample parameters / names to each metric wrapper and the feature-processing plumbing of the constructor.",
      "Not decided: that pandas groupby().apply evaluates the metric on exactly the group's rows; the metric callables.",
      GVN + ", label-provenance domain, call-site wiring queries, finite cell specialisation", "DESIGN.md §4 C01")
claim("C02",
      "Decides, exhaustively over the finite cells (control x method x errors), that group_min/max, difference and ratio "
      "are the documented expressions of by_group / overall (incl. the min(r,1/r) fold and the coerce map) and that the "
      "cache writer and the public readers agree on keys and constants.",
      "Not decided: the numerical inequalities (they follow from the decided formulas, lemma in rules/c02.py); pandas "
      "division by zero.", GVN + ", order-cell (D-REGION) specialisation of branch conditions", "DESIGN.md §4 C02")
claim("C03",
      "Decides the wiring of the six named fairness metrics (base rate, data arguments, weight forwarding, aggregate and "
      "agg dispatch), of every generated metric registration and of the derived-metric dispatcher (3-way parameter "
      "partition, transform dispatch), plus scalar-valuedness of the base rates for all input classes.",
      "Not decided: numerical equality with a from-the-rows computation (follows from C01 + C02 + C14 clauses).",
      "resolved call-site queries, D-REGION over string tables, D-SHAPE rank/extent interpretation", "DESIGN.md §4 C03")
claim("C04",
      "Decides the necessary structure of the parity argument: common grid and common index in both optimisation routines, "
      "interpolation / p_ignore / thresholder probability formulas, METRIC_DICT and count tables, operation pairing, "
      "ThresholdOperation semantics."
      " Also: the threshold sweep (start state, sentinel, thresholds, Python-number element type), the dispatch to the two routines, the "
      "delegation of predict, row selection by the unconverted table key, no in-place update of a value held under a second name.",
      "Not decided: the tie handling of the hull / interpolation indices on values, floating point; hence not the parity "
      "itself.", GVN + ", D-REGION, event-order queries", "DESIGN.md §4 C04")
claim("C05",
      "Decides the upper-hull drop test as a polynomial inequality (non-strict), push/pop protocol, frequency-weighted "
      "objective and arg-max, and the equalized-odds count roles and objective."
      " Also: rounding precision before the arg-max, zero-over-runtime accumulators, Python-number sweep lists, no in-place update of shared counts.",
      "Not decided: optimality against an independent optimiser.", GVN + ", event-order queries", "DESIGN.md §4 C05")
claim("C06",
      "Static formula conformance of the constraint moments: U matrix columns, P(e), P(e,g), the +/- index, gamma, bound, "
      "the eps/ratio case table (exhaustive over order cells), the base event of each parity moment, null-propagation of "
      "events through the control merge, and the loss moments' formulas."
      " Also: flattened predictions, total_samples, control strata kept for ordinary rows.",
      "Not decided: equality with MetricFrame on values; pandas groupby semantics.",
      GVN + ", D-REGION, nullable-value flow (D-NULL)", "DESIGN.md §4 C06")
claim("C07",
      "Decides the premises of the linearity lemma: signed_weights and gamma are the documented linear maps of the same "
      "stored data, cost roles, group-loss weights, relabel / reweight at both oracle call sites, projection formula."
      " Also: the oracle fits a fresh copy of the configured estimator; multipliers are consumed by label.",
      "Not decided: the identity on values; exactness of the base learner.", GVN, "DESIGN.md §4 C07")
claim("C08",
      "Decides that every early exit of the training loop is dominated by gaps[t] < nu on this iteration's gap, the "
      "best-iterate selection formulas, lock-step (Q, gap) records from paired sources, the gap / Lagrangian / multiplier / "
      "theta formulas, the evaluation point of L_low, the LP rows and the weight padding."
      " Also: the multiplier loop of eval_gap, the primal / dual LP and its certificate, the Lagrangian set-up and the multiplier records.",
      "Not decided: the saddle-point guarantees themselves (need the true optimum and an exact oracle).",
      GVN + ", event-order / dominance queries (D-ORDER)", "DESIGN.md §4 C08")
claim("C09",
      "Decides the per-grid-point reduction (fresh estimator copy, lambda = grid[i]), lock-step records tied to this "
      "iteration's estimator, the selection formula / first arg-min / delegation, the grid generator formula and L1 "
      "budget recursion, and that fit returns self."
      " Also: moments loaded before use, grid dispatch, copied lattice points, zero basis frames with the documented guards.",
      "Not decided: best-response optimality of each predictor.", GVN + ", D-ORDER", "DESIGN.md §4 C09")
claim("C10",
      "Decides that both pmfs are [1-p, p] by construction, the mixture is aligned with weights_ by predictor id, predict "
      "is 1*(p >= U) from the seeded generator with p the second column, and values / probabilities handed to choice() "
      "are ordered by the same index."
      " Also: pmf column layout, one draw per row in the regression branch, the seed passed through ThresholdOptimizer.predict, "
      "the wrapped estimator fitted on a deep copy (clone / deepcopy), never a shallow one.",
      "Not decided: sampling frequencies; p0, p1 in [0,1] on values.", GVN + ", dataflow queries", "DESIGN.md §4 C10")
claim("C11",
      "Decides the structural premises of the multiplicity law: weight forwarding to the confusion matrix, the degree-0 "
      "homogeneous weighted-mean formulas, sample parameters as row-sliced columns, weight forwarding of the fairness "
      "metrics, scalar results for single weighted rows.",
      "Not decided: sklearn's weighted confusion matrix (trusted).", GVN + ", D-SHAPE, call-site queries", "DESIGN.md §4 C11")
claim("C12",
      "Decides for 30+ public entry points that no value that may still carry caller-chosen pandas labels reaches a "
      "label-aligning or label-lookup operation, and that the shared validator re-indexes y / sensitive / control features.",
      "Assumes wrapped estimators return label-free arrays and that dict-valued features hold 1-d arrays. Not decided: "
      "invariance under joint row permutation (pandas grouping semantics).",
      "interprocedural label-provenance (taint) analysis over the term/event model (D-LABEL)", "DESIGN.md §4 C12")
claim("C13",
      "Decides exactly (Sardinas-Patterson) that the escape-then-join scheme is uniquely decodable for every arity, string "
      "comparison, that every multi-column producer reaches the merge through the validator under the same test at fit "
      "and predict time, key agreement of the interpolation table, and injectivity of the control/event code.",
      "Trusts that str() of a number contains no comma.", "D-CODE (unique decodability) + call-graph / who-may-call queries",
      "DESIGN.md §4 C13")
claim("C14",
      "Decides sibling agreement of the four rate functions, the label helper on all cells (exhaustive), scalar results for "
      "all input classes (D-SHAPE) and the selection_rate / mean_prediction / count formulas.",
      "Not decided: TPR+FNR=1 on values (row normalisation in sklearn).", "sibling cross-check, D-REGION, D-SHAPE, " + GVN,
      "DESIGN.md §4 C14")
claim("C15",
      "Decides per-column centring (extent m_s for m_s = 1 and >= 2), the least-squares and blend formulas, that transform "
      "uses the stored statistics only, and the split order.",
      "Not decided: numerical zero covariance (follows from least squares given the decided clauses).", "D-SHAPE, " + GVN,
      "DESIGN.md §4 C15")
claim("C16",
      "Decides for both back ends: unit and update formulas (solved for the projection scalar), the contraction signature "
      "of the projection for rank 1 and 2 (Frobenius), gradient routing, the PyTorch autograd protocol order, the "
      "adversary's input, and sibling agreement."
      " Also: loss arguments in the library order and the pass_y_ table.",
      "Not decided: autograd correctness; optimiser internals.", "D-CONTR contraction signatures, " + GVN + ", D-ORDER",
      "DESIGN.md §4 C16")
claim("C17",
      "Decides the batch arithmetic, the per-step event order (train_step, increment, max_iter stop, callbacks, callback "
      "stop), partial_fit's single step, and the predict dispatch over target types (exhaustive) incl. threshold default."
      " Also: callback guards and stop flag, networks set up exactly once for a partial_fit sequence, shape round trip of inverse_transform.",
      "Not decided: equality of trained weights between histories.", GVN + ", D-ORDER, D-REGION", "DESIGN.md §4 C17")
claim("C18",
      "Decides the resampling call constants, the seed stream per random_state class, the quantile calls and rebuilding, "
      "index alignment, CI cache mirroring of the point-estimate cache and the constructor plumbing.",
      "Not decided: ordering / enclosure on values (numpy quantile monotonicity is trusted).", "call-site queries, " + GVN,
      "DESIGN.md §4 C18")
claim("C19",
      "Decides over all estimator classes: no constructor-parameter write in fit, fit returns self, no history-dependent "
      "existence test / read influencing fit, predict-type methods write no state, no one-shot latch reachable from fit, "
      "reload completeness of every Moment, no un-copied estimator fit, no unpicklable value in stored state."
      " Also: in-place mutation of containers not created by the current fit, reload independence of the moments, constructors storing their parameters, no fit of a shallow copy; the adversarial back-end constructors seed their library before building the networks and use earlier-fit estimator state only under warm_start.",
      "Not decided: bit-equality of refitted models; determinism of wrapped estimators.",
      "life-cycle effect analysis over the event stream (D-LIFE)", "DESIGN.md §4 C19")
claim("C20",
      "Decides guard dominance and accepted regions: MetricFrame length / name / duplicate checks, the shared validator's "
      "raise conditions, binary-label enforcement at every classification entry point, ThresholdOptimizer tables "
      "(exhaustive), degenerate-label guard, constructor parameter regions (exhaustive over order cells), fitted-checks.",
      "Not decided: that third-party validators raise as documented (trusted).", "D-ORDER dominance + D-REGION accepted regions",
      "DESIGN.md §4 C20")

# properties whose check currently cannot run clean are withheld here (with the reason) until they do
WITHHELD = {}

for _p, _r in WITHHELD.items():
    NOT_APPLICABLE[_p] = _r
    CLAIMED.pop(_p, None)
