"""Which properties are claimed, with the manifest texts (single source for tools/gen_manifest.py)."""

TRUSTED = ("Trusted base: Python's ast module; the semantics of the numpy / pandas / sklearn / torch / tensorflow "
           "operations as encoded in the analyser's alias and transfer tables; in-repo code is analysed from source, "
           "never imported or run.")

# id -> dict(text, note, technique, design_ref)
CLAIMED = {}

NOT_APPLICABLE = {}


def claim(pid, text, note, technique, design_ref):
    CLAIMED[pid] = dict(text=text, note=note + " " + TRUSTED, technique=technique, design_ref=design_ref)


claim(
    "C06",
    "Static formula conformance (value numbering over the syntax tree) of the constraint moments: the U matrix columns, "
    "P(e), P(e,g), the +/- index, gamma, bound, the eps/ratio case table (exhaustive over order cells), the base event of "
    "each of the five parity moments, null-propagation of events through the control merge, and the loss moments' "
    "formulas. Decides these structural necessary conditions for every input; does not evaluate gamma on values.",
    "Not decided: equality with MetricFrame on values; pandas groupby semantics.",
    "abstract term builder over ast + rational-function normal forms (GVN), finite order-cell evaluation of guards, "
    "nullable-value flow",
    "DESIGN.md §4 C06",
)

for _p in ["C01", "C02", "C03", "C04", "C05", "C07", "C08", "C09", "C10", "C11", "C12", "C13", "C14", "C15", "C16",
           "C17", "C18", "C19", "C20"]:
    NOT_APPLICABLE[_p] = "check not built yet in this session (design in DESIGN.md §4); not claimed until its rules run clean"
