"""D-CODE: unique decodability of an escape-then-join scheme (Sardinas-Patterson)."""
from __future__ import annotations


def uniquely_decodable(code):
    """Sardinas-Patterson test. `code` is a collection of non-empty strings; duplicates make it not UD.

    Returns (True, None) or (False, witness) where witness describes an ambiguity source.
    """
    words = list(code)
    if len(set(words)) != len(words):
        dup = [w for w in set(words) if words.count(w) > 1][0]
        return False, f"two symbols have the same encoding {dup!r}"
    if any(w == "" for w in words):
        return False, "a symbol is encoded as the empty string"
    C = set(words)

    def dangling(A, B):
        out = set()
        for a in A:
            for b in B:
                if a != b and b.startswith(a):
                    out.add(b[len(a):])
        return out

    S = dangling(C, C)
    seen = set()
    while S:
        if S & C:
            w = sorted(S & C)[0]
            return False, f"dangling suffix {w!r} is itself a code word"
        key = frozenset(S)
        if key in seen:
            break
        seen.add(key)
        S = dangling(C, S) | dangling(S, C)
        if "" in S:
            return False, "empty dangling suffix"
    return True, None


def compose_replaces(chain, alphabet):
    """Image of each character under sequential single-character str.replace calls."""
    img = {}
    for ch in alphabet:
        s = ch
        for pat, rep in chain:
            s = s.replace(pat, rep)
        img[ch] = s
    return img
